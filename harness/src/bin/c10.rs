//! C10 — a signed provisioning / publication message validates against a
//! peer's identity key exactly when the digest attribute matches the content,
//! the signature verifies over the DER encoding of all signed attributes under
//! the embedded EE certificate, that certificate is signed by the peer key,
//! current and not a CA, and the embedded CRL is signed by the peer key,
//! current and does not list the EE certificate.
//!
//! Spaces (all enumerated completely, nothing sampled):
//!  (a) library-created messages (`SignedMessage::create`,
//!      `ProvisioningCms::create`, `PublicationCms::create`): content sizes,
//!      validity windows over the UTCTime/GeneralizedTime switch instants,
//!      5 evaluation instants, the signing key and 2 other keys;
//!  (b) foreign messages from the independent encoder (`engine::der` + the
//!      small X.509 / CRL writers below, signatures by aws-lc directly):
//!      benign variations (6 attribute orders, 0-3 extra signed attributes
//!      crossing 128 and 256 octets, EE / CRL spellings, boundary instants)
//!      must validate; every single violation and all pairs must not;
//!      the full product of composable EE-certificate and CRL options (benign
//!      spellings and violations alike) x 9 evaluation instants around a narrow
//!      and a wide window, and attribute settings x those options;
//!      fields the verdict must ignore (revocation dates, entry extensions, CRL
//!      number, names, signing times, algorithm spellings) x listing state x instants;
//!      repeated validate_at calls on one decoded value over all pairs / triples of
//!      (key, instant) settings (history independence); instants down to 1 ns;
//!  (c) every single-bit flip of one library-created and two foreign messages;
//!  (d) what a single evaluation cannot see:
//!      `signer.sequences` - the signer as a stateful participant: all sequences of <= 4 operations over
//!      {new key, destroy_key, get_key_info, sign, create a message} on the real SoftSigner (keys imported
//!      and keys generated) and on the pool signer, against a model handle -> public key at issue time;
//!      `history.predecessors` - on a new OS thread one predecessor (a failure at every distinct stage,
//!      every size, same identifiers with other keys, failing creations), then every subject twice;
//!      `environment` - child processes under TZ west / east of UTC; the wall clock read again across a
//!      second boundary and after a pause; create functions with a signer sleeping across a second;
//!      `interactions.time` - EE window x CRL window x signing time x evaluation instant, independently.
//!  (e) round 11:
//!      `history.parts` - messages assembled from parts with independently chosen issuers (EE certificate by A / B,
//!      AKI present / absent, EE key, attribute signer, CRL by A / B) validated under A and B: all ordered pairs
//!      (thorough: triples) of such operations on one new thread against the operation alone on a new thread;
//!      `history.tamper` - after a genuine success on a new thread: every single-bit flip and every change a folding
//!      checksum cannot see (same bit in two aligned words, +1 / -1, exchanged words) in every signed part;
//!      `attrs.oid_relation` - additional signed attributes whose type is chosen by its relation to the mandatory
//!      types (prefix, extension, one arc changed / dropped / inserted, same last arcs elsewhere, same last octet in
//!      a multi-octet arc) x value shapes: must validate; in place of the mandatory attribute: must not.
//!  (f) round 13:
//!      `signer.call_count` - the number of earlier successful calls on ONE live instance of the library's own
//!      SoftSigner: N messages in a row (260 quick; 2050 / 1026 thorough) on three instances (SignedMessage only;
//!      the three kinds rotating; five other signer calls between any two messages, so that the number of handles
//!      issued grows too), each on a background thread for the whole run, every message judged by the oracle of (a).
//!
//! Reference model: the condition vector itself (valid <=> all true).

use std::collections::{BTreeMap, BTreeSet};
use std::io;
use std::str::FromStr;
use std::sync::Mutex;
use std::sync::atomic::{AtomicUsize, Ordering};
use bytes::Bytes;
use rayon::prelude::*;
use rpki::ca::idcert::IdCert;
use rpki::ca::idexchange::{RecipientHandle, SenderHandle};
use rpki::ca::provisioning::{self, ProvisioningCms, RevocationRequest};
use rpki::ca::publication::{self, Base64, Publish, PublishDelta, PublicationCms};
use rpki::ca::sigmsg::SignedMessage;
use rpki::crypto::{PublicKey, PublicKeyFormat, RpkiSignatureAlgorithm, Signature, SignatureAlgorithm, Signer, SigningError};
use rpki::crypto::signer::KeyError;
use rpki::crypto::softsigner::{KeyId as SoftKeyId, SoftSigner};
use rpki::repository::x509::{Time, Validity};
use rpki_verif::engine::der::{self, Civil, SignedDataParts};
use rpki_verif::engine::enumerate::permutations;
use rpki_verif::engine::pki::{self, T0};
use rpki_verif::engine::report::verif_dir;
use rpki_verif::engine::signer::{sha256, Kid, PoolSigner};
use rpki_verif::{guard, hex, trunc, Ctx};

//------------ keys and instants ------------------------------------------------------

const K_PEER: usize = 0;
const K_OTHER: usize = 1;
const K_THIRD: usize = 2;
const K_EE: usize = 3;
const K_EE2: usize = 4;

const W: i64 = 300;

fn civil(secs: i64) -> Civil {
    use chrono::{Datelike, Timelike};
    let d = chrono::DateTime::from_timestamp(secs, 0).unwrap();
    Civil { y: d.year(), mo: d.month(), d: d.day(), h: d.hour(), mi: d.minute(), s: d.second() }
}
fn x509_time(secs: i64) -> Vec<u8> { der::time_auto(civil(secs)) }

/// Evaluation instants for a window [nb, na] (whole seconds): (seconds, nanoseconds); index MID is the midpoint.
const MID: usize = 4;
fn window_instants(nb: i64, na: i64) -> Vec<(i64, u32)> {
    vec![(nb - 1, 0), (nb - 1, 999_999_999), (nb, 0), (nb, 1), (nb + (na - nb) / 2, 0), (na - 1, 999_999_999), (na, 0), (na, 1), (na, 500_000_000), (na + 1, 0)]
}

//------------ verdicts ------------------------------------------------------------------

#[derive(Clone, Debug, PartialEq, Eq)]
enum Verdict { Accept, Decode(String), Invalid(String), Panic(String) }

impl Verdict {
    fn accepted(&self) -> bool { matches!(self, Verdict::Accept) }
    fn class(&self) -> &'static str {
        match self { Verdict::Accept => "validated", Verdict::Decode(_) => "rejected-at-decode", Verdict::Invalid(_) => "rejected-at-validation", Verdict::Panic(_) => "panic" }
    }
    fn show(&self) -> String {
        match self { Verdict::Accept => "validated".into(), Verdict::Decode(e) => format!("decode error: {e}"), Verdict::Invalid(e) => format!("validation error: {e}"), Verdict::Panic(e) => e.clone() }
    }
}

#[derive(Clone, Copy, Debug, PartialEq, Eq)]
enum Via { Strict, Relaxed, Publication, Provisioning }

fn at(secs: i64, nanos: u32) -> Time { Time::new(chrono::DateTime::from_timestamp(secs, nanos).unwrap()) }

fn run(bytes: &[u8], key: &PublicKey, when: i64, via: Via) -> Verdict { run_ns(bytes, key, when, 0, via) }

fn run_ns(bytes: &[u8], key: &PublicKey, when: i64, nanos: u32, via: Via) -> Verdict {
    let t = at(when, nanos);
    let r = guard(|| match via {
        Via::Strict | Via::Relaxed => match SignedMessage::decode(Bytes::copy_from_slice(bytes), via == Via::Strict) {
            Err(e) => Verdict::Decode(e.to_string()),
            Ok(m) => match m.validate_at(key, t) { Ok(()) => Verdict::Accept, Err(e) => Verdict::Invalid(e.to_string()) },
        },
        Via::Publication => match PublicationCms::decode(bytes) {
            Err(e) => Verdict::Decode(e.to_string()),
            Ok(m) => match m.validate_at(key, t) { Ok(()) => Verdict::Accept, Err(e) => Verdict::Invalid(e.to_string()) },
        },
        Via::Provisioning => match ProvisioningCms::decode(bytes) {
            Err(e) => Verdict::Decode(e.to_string()),
            Ok(m) => match m.validate_at(key, t) { Ok(()) => Verdict::Accept, Err(e) => Verdict::Invalid(e.to_string()) },
        },
    });
    match r { Ok(v) => v, Err(p) => Verdict::Panic(p) }
}

//------------ independent X.509 / CRL writers ---------------------------------------------

const OID_CN: &[u64] = &[2, 5, 4, 3];
const OID_BASIC_CONSTRAINTS: &[u64] = &[2, 5, 29, 19];
const OID_SKI: &[u64] = &[2, 5, 29, 14];
const OID_AKI: &[u64] = &[2, 5, 29, 35];
const OID_KEY_USAGE: &[u64] = &[2, 5, 29, 15];
const OID_CRL_NUMBER: &[u64] = &[2, 5, 29, 20];
const OID_CRL_REASON: &[u64] = &[2, 5, 29, 21];
const OID_ISSUING_DP: &[u64] = &[2, 5, 29, 28];
const OID_PRIVATE: &[u64] = &[1, 3, 6, 1, 4, 1, 99999, 2, 1];

fn name(cn: &str) -> Vec<u8> { der::seq(&[der::set_unsorted(&[der::seq(&[der::oid(OID_CN), der::printable(cn)])])]) }

/// 0 = CN only, 1 = another CN, 2 = two RDNs (CN + serialNumber) with a UTF8String CN.
fn name_variant(cn: &str, v: u8) -> Vec<u8> {
    match v {
        0 => name(cn),
        1 => name("Somebody Else 0123456789"),
        _ => der::seq(&[der::set_unsorted(&[der::seq(&[der::oid(OID_CN), der::utf8(cn)])]),
                        der::set_unsorted(&[der::seq(&[der::oid(&[2, 5, 4, 5]), der::printable("0A1B2C")])])]),
    }
}

/// Fields of a CRL that the acceptance predicate must not consult.
/// dates: 0 = long before thisUpdate, 1 = thisUpdate, 2 = T0+150 s (inside both windows, after the
/// earlier evaluation instants), 3 = nextUpdate, 4 = a day after nextUpdate, 5 = year 2052
/// (GeneralizedTime), 6 = year 1949 (GeneralizedTime).
/// entry_ext: 0 = as the shape says, 1 = reasonCode on every entry, 2 = reasonCode + invalidityDate + critical private extension.
/// number: 0 = as given, 1 = 0, 2 = 2^64, 3 = 2^159-1.
#[derive(Clone, Copy, Debug, PartialEq, Eq, PartialOrd, Ord)]
struct CrlIgn { ee_date: u8, other_date: u8, entry_ext: u8, number: u8, issuer: u8, ee_leading_zero: bool }

impl CrlIgn { const DEFAULT: CrlIgn = CrlIgn { ee_date: 0, other_date: 0, entry_ext: 0, number: 0, issuer: 0, ee_leading_zero: false }; }

const N_DATES: u8 = 7;

fn entry_date(v: u8, this: i64, next: i64) -> i64 {
    match v { 0 => this - 1000, 1 => this, 2 => T0 + 150, 3 => next, 4 => next + 86_400, 5 => 2_600_000_000, _ => -631_152_001 }
}

fn ext(oid: &[u64], critical: bool, value: &[u8]) -> Vec<u8> {
    let mut v = vec![der::oid(oid)];
    if critical { v.push(der::boolean(true)) }
    v.push(der::octets(value));
    der::seq(&v)
}

#[derive(Clone, Debug, PartialEq, Eq, PartialOrd, Ord)]
enum Basic { Absent, EmptySeq, CaTrue }

#[derive(Clone, Debug)]
struct EeSpec {
    serial: Vec<u8>,
    nb: i64, na: i64,
    subject_key: usize,
    sign_key: usize,
    /// SKI extension value (None = SHA-1 of the subject key)
    ski: Option<Vec<u8>>,
    aki: Option<Vec<u8>>,
    basic: Basic,
    key_usage_ext: bool,
    /// spelling of the issuer / subject names (see `name_variant`); not consulted by validation
    issuer: u8,
    subject: u8,
}

fn ee_cert(s: &PoolSigner, e: &EeSpec) -> Vec<u8> {
    let mut exts = Vec::new();
    match e.basic {
        Basic::Absent => {}
        Basic::EmptySeq => exts.push(ext(OID_BASIC_CONSTRAINTS, true, &der::seq(&[]))),
        Basic::CaTrue => exts.push(ext(OID_BASIC_CONSTRAINTS, true, &der::seq(&[der::boolean(true)]))),
    }
    let ski = e.ski.clone().unwrap_or_else(|| s.key(e.subject_key).ski.to_vec());
    exts.push(ext(OID_SKI, false, &der::octets(&ski)));
    if let Some(a) = &e.aki { exts.push(ext(OID_AKI, false, &der::seq(&[der::ctx(0, false, a)]))) }
    if e.key_usage_ext { exts.push(ext(OID_KEY_USAGE, true, &der::bitstring(7, &[0x80]))) }
    let tbs = der::seq(&[
        der::ctx(0, true, &der::int_u(2)),
        der::int_bytes(&e.serial),
        der::alg_sha256_with_rsa(),
        name_variant("peer-ta", e.issuer),
        der::seq(&[x509_time(e.nb), x509_time(e.na)]),
        name_variant("one-off-ee", e.subject),
        s.key(e.subject_key).spki_der.clone(),
        der::ctx(3, true, &der::seq(&exts)),
    ]);
    pki::sign_tbs(s, e.sign_key, &tbs)
}

#[derive(Clone, Debug)]
struct CrlSpec {
    this: i64, next: i64,
    sign_key: usize,
    /// None = field absent; entries: (serial magnitude, with entry extensions)
    revoked: Option<Vec<(Vec<u8>, bool)>>,
    aki: Option<Vec<u8>>,
    number: Option<u128>,
    unknown_ext: bool,
    /// false = no crlExtensions block at all
    ext_block: bool,
    ign: CrlIgn,
    /// which entry is "the EE's" (only to tell ee_date from other_date)
    ee_serial: Vec<u8>,
}

fn crl(s: &PoolSigner, c: &CrlSpec) -> Vec<u8> {
    let mut items = vec![der::int_u(1), der::alg_sha256_with_rsa(), name_variant("peer-ta", c.ign.issuer), x509_time(c.this), x509_time(c.next)];
    if let Some(list) = &c.revoked {
        let entries: Vec<Vec<u8>> = list.iter().map(|(ser, with_ext)| {
            let is_ee = *ser == c.ee_serial;
            let date = entry_date(if is_ee { c.ign.ee_date } else { c.ign.other_date }, c.this, c.next);
            let serial = if is_ee && c.ign.ee_leading_zero { let mut v = vec![0u8]; v.extend_from_slice(ser); der::tlv(der::T_INT, &v) } else { der::int_bytes(ser) };
            let mut e = vec![serial, x509_time(date)];
            let reason = ext(OID_CRL_REASON, false, &der::tlv(0x0a, &[1]));
            match (c.ign.entry_ext, *with_ext) {
                (0, false) => {}
                (0, true) | (1, _) => e.push(der::seq(&[reason])),
                _ => e.push(der::seq(&[reason, ext(&[2, 5, 29, 24], false, &der::gentime(civil(c.this - 5000))), ext(OID_PRIVATE, true, &der::seq(&[der::int_u(1)]))])),
            }
            der::seq(&e)
        }).collect();
        items.push(der::seq(&entries));
    }
    if c.ext_block {
        let mut exts = Vec::new();
        if let Some(a) = &c.aki { exts.push(ext(OID_AKI, false, &der::seq(&[der::ctx(0, false, a)]))) }
        if let Some(n) = c.number {
            let v = match c.ign.number { 0 => der::int_u(n), 1 => der::int_u(0), 2 => der::int_u(1u128 << 64), _ => { let mut b = vec![0x7fu8]; b.extend([0xffu8; 19]); der::int_bytes(&b) } };
            exts.push(ext(OID_CRL_NUMBER, false, &v))
        }
        if c.unknown_ext {
            exts.push(ext(OID_PRIVATE, false, &der::seq(&[der::utf8("hello"), der::int_u(7)])));
            exts.push(ext(OID_ISSUING_DP, true, &der::seq(&[])));
        }
        items.push(der::ctx(0, true, &der::seq(&exts)));
    }
    pki::sign_tbs(s, c.sign_key, &der::seq(&items))
}

//------------ foreign message plan -----------------------------------------------------------

#[derive(Clone, Copy, Debug, PartialEq, Eq, PartialOrd, Ord)]
enum Extra { Bst, Unk1, Unk100, Unk200 }
const EXTRAS: [Extra; 4] = [Extra::Bst, Extra::Unk1, Extra::Unk100, Extra::Unk200];

fn extra_attr(e: Extra, bst_secs: i64) -> Vec<u8> {
    let unk = |n: usize, arc: u64| der::attribute(&[1, 3, 6, 1, 4, 1, 99999, 3, arc], &[der::octets(&(0..n).map(|i| (i * 5 + 1) as u8).collect::<Vec<_>>())]);
    match e {
        Extra::Bst => der::attr_binary_signing_time(bst_secs as u64),
        Extra::Unk1 => unk(1, 1),
        Extra::Unk100 => unk(100, 2),
        Extra::Unk200 => unk(200, 3),
    }
}

#[derive(Clone, Copy, Debug, PartialEq, Eq, PartialOrd, Ord)]
enum DigestV { Ok, FlipFirst, FlipLast, Short31, OfOtherContent }
#[derive(Clone, Copy, Debug, PartialEq, Eq, PartialOrd, Ord)]
enum SigV { Ok, OtherKey, OverImplicitTag, OverMandatoryOnly, FlipLastBit }
/// EE certificate spelling; the first group is benign, the second violates a stated condition.
#[derive(Clone, Copy, Debug, PartialEq, Eq, PartialOrd, Ord)]
enum EeV {
    Plain, NoAki, BasicNotCa, KeyUsage, NbEqualsNow, NaEqualsNow, BigSerial,
    SignedByOther, CaTrue, Expired, NotYetValid,
}
#[derive(Clone, Copy, Debug, PartialEq, Eq, PartialOrd, Ord)]
enum CrlV {
    Plain, RevokedAbsent, ListsOthers, ListsOthersWithExt, NoAki, NoNumber, UnknownExt, ThisEqualsNow, NextEqualsNow,
    SignedByOther, Stale, Future, ListsEeOnly, ListsEeFirst, ListsEeMiddle, ListsEeLast,
}
/// Requirements of the CMS profile the anchored mechanism enforces but the
/// property sentence does not spell out (RFC 6488 s.3 1c, RFC 5652 s.11.1,
/// key identifiers).
#[derive(Clone, Copy, Debug, PartialEq, Eq, PartialOrd, Ord)]
enum ProfV { Ok, SidOther, SkiExtOther, EeAkiWrong, CrlAkiWrong, CtAttrOther, CtBothOther }

impl EeV { fn ok(self) -> bool { self < EeV::SignedByOther } }
impl CrlV { fn ok(self) -> bool { self < CrlV::SignedByOther } }

#[derive(Clone, Debug)]
struct Plan {
    order: [usize; 3],
    extras: Vec<Extra>,
    extras_first: bool,
    st_gen: bool,
    digest: DigestV,
    sig: SigV,
    ee: EeV,
    crl: CrlV,
    prof: ProfV,
    /// values the acceptance predicate must not consult
    st_secs: i64,
    bst_secs: i64,
    sig_alg: u8,
    /// one more unknown signed attribute with a value of this many octets, and whether it is written first
    sized_extra: Option<(usize, bool)>,
    /// this many further unknown signed attributes (distinct OIDs, one-octet values)
    many_extras: usize,
    /// NULL parameters of the digest algorithm: bit 0 in SignedData.digestAlgorithms, bit 1 in SignerInfo.digestAlgorithm
    digest_null: u8,
}

const ATTR_NAMES: [&str; 3] = ["ct", "md", "st"];

impl Plan {
    fn base() -> Plan {
        Plan { order: [0, 1, 2], extras: vec![], extras_first: false, st_gen: false, digest: DigestV::Ok, sig: SigV::Ok, ee: EeV::Plain, crl: CrlV::Plain, prof: ProfV::Ok, st_secs: T0 - 60, bst_secs: T0 - 60, sig_alg: 0, sized_extra: None, many_extras: 0, digest_null: 0 }
    }
    fn stated_ok(&self) -> bool { self.digest == DigestV::Ok && self.sig == SigV::Ok && self.ee.ok() && self.crl.ok() }
    fn all_ok(&self) -> bool { self.stated_ok() && self.prof == ProfV::Ok }
    fn violated(&self) -> Vec<String> {
        let mut v = Vec::new();
        if self.digest != DigestV::Ok { v.push(format!("digest:{:?}", self.digest)) }
        if self.sig != SigV::Ok { v.push(format!("signature:{:?}", self.sig)) }
        if !self.ee.ok() { v.push(format!("ee:{:?}", self.ee)) }
        if !self.crl.ok() { v.push(format!("crl:{:?}", self.crl)) }
        if self.prof != ProfV::Ok { v.push(format!("profile:{:?}", self.prof)) }
        v
    }
    fn witness(&self, via: Via) -> String {
        format!("foreign order={} extras={:?}{} st={} ee={:?} crl={:?} violated=[{}] via={:?} when=T0",
            self.order.iter().map(|&i| ATTR_NAMES[i]).collect::<Vec<_>>().join(","), self.extras, if self.extras_first { "(first)" } else { "" },
            if self.st_gen { "generalized" } else { "utc" }, self.ee, self.crl, self.violated().join(" "), via)
    }
}

struct Fx {
    s: PoolSigner,
    content: Vec<u8>,
    peer: PublicKey,
}

const EE_SERIAL: &[u8] = &[0x12, 0x34, 0x56];

fn ee_serial(v: EeV) -> Vec<u8> {
    if v == EeV::BigSerial { let mut b = vec![0x7f]; b.extend([0xffu8; 19]); b } else { EE_SERIAL.to_vec() }
}

fn plan_ee(fx: &Fx, p: &Plan) -> Vec<u8> {
    let mut e = EeSpec { serial: ee_serial(p.ee), nb: T0 - W, na: T0 + W, subject_key: K_EE, sign_key: K_PEER, ski: None,
                         aki: Some(fx.s.key(K_PEER).ski.to_vec()), basic: Basic::Absent, key_usage_ext: false, issuer: 0, subject: 0 };
    match p.ee {
        EeV::Plain | EeV::BigSerial => {}
        EeV::NoAki => e.aki = None,
        EeV::BasicNotCa => e.basic = Basic::EmptySeq,
        EeV::KeyUsage => e.key_usage_ext = true,
        EeV::NbEqualsNow => e.nb = T0,
        EeV::NaEqualsNow => e.na = T0,
        EeV::SignedByOther => e.sign_key = K_OTHER,
        EeV::CaTrue => e.basic = Basic::CaTrue,
        EeV::Expired => e.na = T0 - 1,
        EeV::NotYetValid => e.nb = T0 + 1,
    }
    match p.prof {
        ProfV::SkiExtOther => e.ski = Some(fx.s.key(K_EE2).ski.to_vec()),
        ProfV::EeAkiWrong => e.aki = Some(fx.s.key(K_OTHER).ski.to_vec()),
        _ => {}
    }
    ee_cert(&fx.s, &e)
}

fn plan_crl(fx: &Fx, p: &Plan) -> Vec<u8> {
    let ee = ee_serial(p.ee);
    let others: Vec<(Vec<u8>, bool)> = vec![
        (vec![0x12, 0x34, 0x55], false), (vec![0x12, 0x34, 0x57], false), (vec![0x12, 0x34], false), (vec![0x12, 0x34, 0x56, 0x00], false),
        (vec![0x34, 0x56], false), (vec![0x01], false), { let mut b = vec![0x7f]; b.extend([0xffu8; 18]); b.push(0xfe); (b, false) },
    ];
    let mut c = CrlSpec { this: T0 - W, next: T0 + W, sign_key: K_PEER, revoked: Some(vec![]), aki: Some(fx.s.key(K_PEER).ski.to_vec()),
                          number: Some(42), unknown_ext: false, ext_block: true, ign: CrlIgn::DEFAULT, ee_serial: EE_SERIAL.to_vec() };
    match p.crl {
        CrlV::Plain => {}
        CrlV::RevokedAbsent => c.revoked = None,
        CrlV::ListsOthers => c.revoked = Some(others.clone()),
        CrlV::ListsOthersWithExt => c.revoked = Some(others.iter().map(|(s, _)| (s.clone(), true)).collect()),
        CrlV::NoAki => c.aki = None,
        CrlV::NoNumber => c.number = None,
        CrlV::UnknownExt => c.unknown_ext = true,
        CrlV::ThisEqualsNow => c.this = T0,
        CrlV::NextEqualsNow => c.next = T0,
        CrlV::SignedByOther => c.sign_key = K_OTHER,
        CrlV::Stale => c.next = T0 - 1,
        CrlV::Future => c.this = T0 + 1,
        CrlV::ListsEeOnly => c.revoked = Some(vec![(ee.clone(), false)]),
        CrlV::ListsEeFirst => { let mut l = vec![(ee.clone(), true)]; l.extend(others.clone()); c.revoked = Some(l) }
        CrlV::ListsEeMiddle => { let mut l = others.clone(); l.insert(3, (ee.clone(), false)); c.revoked = Some(l) }
        CrlV::ListsEeLast => { let mut l: Vec<_> = others.iter().map(|(s, _)| (s.clone(), true)).collect(); l.push((ee.clone(), false)); c.revoked = Some(l) }
    }
    if p.prof == ProfV::CrlAkiWrong { c.aki = Some(fx.s.key(K_OTHER).ski.to_vec()) }
    crl(&fx.s, &c)
}

fn plan_attrs(fx: &Fx, p: &Plan) -> (Vec<Vec<u8>>, Vec<Vec<u8>>) {
    let good = sha256(&fx.content);
    let dg: Vec<u8> = match p.digest {
        DigestV::Ok => good,
        DigestV::FlipFirst => { let mut d = good; d[0] ^= 0x80; d }
        DigestV::FlipLast => { let mut d = good; d[31] ^= 1; d }
        DigestV::Short31 => good[..31].to_vec(),
        DigestV::OfOtherContent => { let mut c = fx.content.clone(); c.push(b' '); sha256(&c) }
    };
    let ct: &[u64] = if p.prof == ProfV::CtAttrOther || p.prof == ProfV::CtBothOther { der::OID_CT_ROA } else { der::OID_CT_PROTOCOL };
    let t = if p.st_gen { der::gentime(civil(p.st_secs)) } else { der::time_auto(civil(p.st_secs)) };
    let base = [der::attr_content_type(ct), der::attr_message_digest(&dg), der::attr_signing_time(t)];
    let mandatory: Vec<Vec<u8>> = p.order.iter().map(|&i| base[i].clone()).collect();
    let extras: Vec<Vec<u8>> = p.extras.iter().map(|e| extra_attr(*e, p.bst_secs)).collect();
    let mut all = Vec::new();
    if p.extras_first { all.extend(extras.clone()); all.extend(mandatory.clone()) } else { all.extend(mandatory.clone()); all.extend(extras) }
    for i in 0..p.many_extras { all.push(der::attribute(&[1, 3, 6, 1, 4, 1, 99999, 4, 100 + i as u64], &[der::octets(&[i as u8])])) }
    if let Some((n, first)) = p.sized_extra {
        let a = der::attribute(&[1, 3, 6, 1, 4, 1, 99999, 3, 9], &[der::octets(&(0..n).map(|i| (i * 3 + 2) as u8).collect::<Vec<_>>())]);
        if first { all.insert(0, a) } else { all.push(a) }
    }
    (all, mandatory)
}

/// The signed attributes of a plan and the signature over them (independent of certificate and CRL).
struct Presigned { attrs: Vec<Vec<u8>>, signature: Vec<u8> }

fn presign(fx: &Fx, p: &Plan) -> Presigned {
    let (attrs, mandatory) = plan_attrs(fx, p);
    let tbs = match p.sig {
        SigV::OverImplicitTag => der::tlv(0xA0, &der::cat(&attrs)),
        SigV::OverMandatoryOnly => der::signed_attrs_tbs(&mandatory),
        _ => der::signed_attrs_tbs(&attrs),
    };
    let mut signature = fx.s.sign_raw(if p.sig == SigV::OtherKey { K_EE2 } else { K_EE }, &tbs);
    if p.sig == SigV::FlipLastBit { let n = signature.len(); signature[n - 1] ^= 1 }
    Presigned { attrs, signature }
}

fn wrap(fx: &Fx, p: &Plan, ps: &Presigned, sid_other: bool, ee: &[u8], crl: &[u8]) -> Vec<u8> {
    let sid = if sid_other || p.prof == ProfV::SidOther || p.prof == ProfV::SkiExtOther { fx.s.key(K_EE2).ski.to_vec() } else { fx.s.key(K_EE).ski.to_vec() };
    der::signed_data(&SignedDataParts {
        version: 3,
        digest_alg_set: der::set_unsorted(&[der::alg_sha256(p.digest_null & 1 != 0)]),
        econtent_type: if p.prof == ProfV::CtBothOther { der::OID_CT_ROA.to_vec() } else { der::OID_CT_PROTOCOL.to_vec() },
        econtent: fx.content.clone(),
        certificates: vec![ee.to_vec()],
        crls: vec![crl.to_vec()],
        si_version: 3,
        sid,
        si_digest_alg: der::alg_sha256(p.digest_null & 2 != 0),
        signed_attrs: ps.attrs.clone(),
        sig_alg: match p.sig_alg { 0 => der::alg_rsa_encryption(), 1 => der::alg_sha256_with_rsa(), 2 => der::seq(&[der::oid(der::OID_RSA_ENCRYPTION)]), _ => der::seq(&[der::oid(der::OID_SHA256_WITH_RSA)]) },
        signature: ps.signature.clone(),
    })
}

fn assemble(fx: &Fx, p: &Plan, ee: &[u8], crl: &[u8]) -> Vec<u8> { wrap(fx, p, &presign(fx, p), false, ee, crl) }

//------------ composable certificate / CRL options (product space) --------------------------------

const NARROW: i64 = 300;
const WIDE: i64 = 1000;

/// aki: 0 = issuer's key identifier, 1 = extension absent, 2 = another key's identifier.
/// basic: 0 = extension absent, 1 = present without cA, 2 = cA TRUE.
#[derive(Clone, Copy, Debug, PartialEq, Eq, PartialOrd, Ord)]
struct EeO { aki: u8, basic: u8, key_usage: bool, big_serial: bool, other_key: bool, wide: bool, ski_other: bool }

/// revoked: 0 empty list, 1 field absent, 2 other serials, 3 other serials with entry extensions,
/// 4 only the EE serial, 5 EE serial first, 6 in the middle, 7 last.
#[derive(Clone, Copy, Debug, PartialEq, Eq, PartialOrd, Ord)]
struct CrlO { aki: u8, number: bool, unknown_ext: bool, revoked: u8, other_key: bool, wide: bool }

const EE_BASE: EeO = EeO { aki: 0, basic: 0, key_usage: false, big_serial: false, other_key: false, wide: false, ski_other: false };
const CRL_BASE: CrlO = CrlO { aki: 0, number: true, unknown_ext: false, revoked: 0, other_key: false, wide: false };

fn ee_full() -> Vec<EeO> {
    let mut v = Vec::new();
    for aki in 0..3 { for basic in 0..3 { for key_usage in [false, true] { for big_serial in [false, true] { for other_key in [false, true] { for wide in [false, true] { for ski_other in [false, true] {
        v.push(EeO { aki, basic, key_usage, big_serial, other_key, wide, ski_other })
    }}}}}}}
    v
}
fn ee_reduced() -> Vec<EeO> {
    let b = EE_BASE;
    vec![b, EeO { aki: 1, ..b }, EeO { aki: 2, ..b }, EeO { basic: 1, ..b }, EeO { basic: 2, ..b }, EeO { key_usage: true, ..b }, EeO { big_serial: true, ..b },
         EeO { other_key: true, ..b }, EeO { wide: true, ..b }, EeO { ski_other: true, ..b }]
}
fn crl_full() -> Vec<CrlO> {
    let mut v = Vec::new();
    for aki in 0..3 { for number in [true, false] { for unknown_ext in [false, true] { for revoked in 0..8 { for other_key in [false, true] { for wide in [false, true] {
        v.push(CrlO { aki, number, unknown_ext, revoked, other_key, wide })
    }}}}}}
    v
}
fn crl_reduced() -> Vec<CrlO> {
    let b = CRL_BASE;
    let mut v = vec![b, CrlO { aki: 1, ..b }, CrlO { aki: 2, ..b }, CrlO { number: false, ..b }, CrlO { unknown_ext: true, ..b }, CrlO { other_key: true, ..b }, CrlO { wide: true, ..b }];
    for r in 1..8 { v.push(CrlO { revoked: r, ..b }) }
    v
}

fn aki_value(s: &PoolSigner, n: u8) -> Option<Vec<u8>> {
    match n { 0 => Some(s.key(K_PEER).ski.to_vec()), 1 => None, _ => Some(s.key(K_OTHER).ski.to_vec()) }
}

fn big_or_small_serial(big: bool) -> Vec<u8> { ee_serial(if big { EeV::BigSerial } else { EeV::Plain }) }

fn ee_from(s: &PoolSigner, o: &EeO) -> Vec<u8> {
    let w = if o.wide { WIDE } else { NARROW };
    ee_cert(s, &EeSpec { serial: big_or_small_serial(o.big_serial), nb: T0 - w, na: T0 + w, subject_key: K_EE, sign_key: if o.other_key { K_OTHER } else { K_PEER },
        ski: if o.ski_other { Some(s.key(K_EE2).ski.to_vec()) } else { None }, aki: aki_value(s, o.aki),
        basic: match o.basic { 0 => Basic::Absent, 1 => Basic::EmptySeq, _ => Basic::CaTrue }, key_usage_ext: o.key_usage, issuer: 0, subject: 0 })
}

fn other_serials() -> Vec<Vec<u8>> {
    vec![vec![0x12, 0x34, 0x55], vec![0x12, 0x34, 0x57], vec![0x12, 0x34], vec![0x12, 0x34, 0x56, 0x00], vec![0x34, 0x56], vec![0x01],
         { let mut b = vec![0x7f]; b.extend([0xffu8; 18]); b.push(0xfe); b }]
}

fn crl_from(s: &PoolSigner, o: &CrlO, big_serial: bool) -> Vec<u8> { crl_from_ign(s, o, big_serial, CrlIgn::DEFAULT) }

fn crl_from_ign(s: &PoolSigner, o: &CrlO, big_serial: bool, ign: CrlIgn) -> Vec<u8> {
    let w = if o.wide { WIDE } else { NARROW };
    let ee = big_or_small_serial(big_serial);
    let others = other_serials();
    let revoked: Option<Vec<(Vec<u8>, bool)>> = match o.revoked {
        0 => Some(vec![]),
        1 => None,
        2 => Some(others.iter().map(|x| (x.clone(), false)).collect()),
        3 => Some(others.iter().map(|x| (x.clone(), true)).collect()),
        4 => Some(vec![(ee, false)]),
        5 => { let mut l = vec![(ee, true)]; l.extend(others.iter().map(|x| (x.clone(), false))); Some(l) }
        6 => { let mut l: Vec<_> = others.iter().map(|x| (x.clone(), false)).collect(); l.insert(3, (ee, false)); Some(l) }
        _ => { let mut l: Vec<_> = others.iter().map(|x| (x.clone(), true)).collect(); l.push((ee, false)); Some(l) }
    };
    crl(s, &CrlSpec { this: T0 - w, next: T0 + w, sign_key: if o.other_key { K_OTHER } else { K_PEER }, revoked, aki: aki_value(s, o.aki),
        number: if o.number { Some(42) } else { None }, unknown_ext: o.unknown_ext, ext_block: true, ign, ee_serial: big_or_small_serial(big_serial) })
}

fn show_ee(o: &EeO) -> String {
    format!("ee{{aki={} basic={} keyUsage={} serial={} signed-by={} window={} ski={}}}", ["right", "absent", "wrong"][o.aki as usize], ["absent", "empty", "cA"][o.basic as usize],
        o.key_usage as u8, if o.big_serial { "20-octet" } else { "small" }, if o.other_key { "other" } else { "peer" }, if o.wide { "wide" } else { "narrow" }, if o.ski_other { "other" } else { "key-hash" })
}
fn show_crl(o: &CrlO) -> String {
    format!("crl{{aki={} number={} unknown-ext={} revoked={} signed-by={} window={}}}", ["right", "absent", "wrong"][o.aki as usize], o.number as u8, o.unknown_ext as u8,
        ["empty", "absent", "others", "others+ext", "ee-only", "ee-first", "ee-middle", "ee-last"][o.revoked as usize], if o.other_key { "other" } else { "peer" }, if o.wide { "wide" } else { "narrow" })
}

fn within(wide: bool, off: i64) -> bool { let w = if wide { WIDE } else { NARROW }; -w <= off && off <= w }

/// Certificates and CRLs are pure functions of a few plan fields: build each once.
struct Cache { ee: Mutex<BTreeMap<(EeV, ProfV), Vec<u8>>>, crl: Mutex<BTreeMap<(CrlV, ProfV, bool), Vec<u8>>> }

impl Cache {
    fn new() -> Cache { Cache { ee: Mutex::new(BTreeMap::new()), crl: Mutex::new(BTreeMap::new()) } }
    fn ee(&self, fx: &Fx, p: &Plan) -> Vec<u8> {
        let pk = match p.prof { ProfV::SkiExtOther | ProfV::EeAkiWrong => p.prof, _ => ProfV::Ok };
        if let Some(v) = self.ee.lock().unwrap().get(&(p.ee, pk)) { return v.clone() }
        let v = plan_ee(fx, p);
        self.ee.lock().unwrap().insert((p.ee, pk), v.clone());
        v
    }
    fn crl(&self, fx: &Fx, p: &Plan) -> Vec<u8> {
        let pk = if p.prof == ProfV::CrlAkiWrong { p.prof } else { ProfV::Ok };
        let big = p.ee == EeV::BigSerial;
        if let Some(v) = self.crl.lock().unwrap().get(&(p.crl, pk, big)) { return v.clone() }
        let v = plan_crl(fx, p);
        self.crl.lock().unwrap().insert((p.crl, pk, big), v.clone());
        v
    }
    fn build(&self, fx: &Fx, p: &Plan) -> Vec<u8> { assemble(fx, p, &self.ee(fx, p), &self.crl(fx, p)) }
}

#[derive(Clone, Copy, Debug)]
enum Viol { D(DigestV), S(SigV), E(EeV), C(CrlV), P(ProfV) }

impl Viol {
    /// Conditions: 0 digest, 1 signature, 2 EE issuer, 3 EE current, 4 EE not CA, 5 CRL issuer, 6 CRL current, 7 CRL does not list, 8.. profile
    fn cond(self) -> u8 {
        match self {
            Viol::D(_) => 0, Viol::S(_) => 1,
            Viol::E(EeV::SignedByOther) => 2, Viol::E(EeV::Expired) | Viol::E(EeV::NotYetValid) => 3, Viol::E(_) => 4,
            Viol::C(CrlV::SignedByOther) => 5, Viol::C(CrlV::Stale) | Viol::C(CrlV::Future) => 6, Viol::C(_) => 7,
            Viol::P(x) => 8 + x as u8,
        }
    }
    /// Which plan field it occupies (two violations in the same field cannot be combined).
    fn field(self) -> u8 { match self { Viol::D(_) => 0, Viol::S(_) => 1, Viol::E(_) => 2, Viol::C(_) => 3, Viol::P(_) => 4 } }
    fn apply(self, p: &mut Plan) { match self { Viol::D(x) => p.digest = x, Viol::S(x) => p.sig = x, Viol::E(x) => p.ee = x, Viol::C(x) => p.crl = x, Viol::P(x) => p.prof = x } }
}

fn all_violations() -> Vec<Viol> {
    let mut v = Vec::new();
    v.extend([DigestV::FlipFirst, DigestV::FlipLast, DigestV::Short31, DigestV::OfOtherContent].map(Viol::D));
    v.extend([SigV::OtherKey, SigV::OverImplicitTag, SigV::OverMandatoryOnly, SigV::FlipLastBit].map(Viol::S));
    v.extend([EeV::SignedByOther, EeV::CaTrue, EeV::Expired, EeV::NotYetValid].map(Viol::E));
    v.extend([CrlV::SignedByOther, CrlV::Stale, CrlV::Future, CrlV::ListsEeOnly, CrlV::ListsEeFirst, CrlV::ListsEeMiddle, CrlV::ListsEeLast].map(Viol::C));
    v.extend([ProfV::SidOther, ProfV::SkiExtOther, ProfV::EeAkiWrong, ProfV::CrlAkiWrong, ProfV::CtAttrOther, ProfV::CtBothOther].map(Viol::P));
    v
}

fn extras_subsets() -> Vec<Vec<Extra>> {
    let mut v = Vec::new();
    for m in 0..16u32 { if m.count_ones() <= 3 { v.push((0..4).filter(|i| m >> i & 1 == 1).map(|i| EXTRAS[i]).collect()) } }
    v
}

fn expect(_ctx: &Ctx, oa: &str, or: &str, want: bool, v: &Verdict, witness: impl FnOnce() -> String) {
    if let Verdict::Panic(p) = v { fail("C10.no_panic", witness(), p.clone()); return }
    if want && !v.accepted() {
        fail(oa, witness(), format!("all conditions hold but the message was rejected: {}", trunc(&v.show(), 200)));
    } else if !want && v.accepted() {
        fail(or, witness(), "a condition is violated but the message validated");
    }
}

//------------ reading the validity of a library-created message (TLV reader, own time parser) ---

fn parse_x509_time(tag: u8, txt: &[u8]) -> i64 {
    let s = std::str::from_utf8(txt).unwrap();
    let (y, rest) = if tag == der::T_UTCTIME {
        let yy: i32 = s[0..2].parse().unwrap();
        (if yy < 50 { 2000 + yy } else { 1900 + yy }, &s[2..])
    } else { (s[0..4].parse().unwrap(), &s[4..]) };
    let n = |i: usize| rest[i..i + 2].parse::<u32>().unwrap();
    chrono::NaiveDate::from_ymd_opt(y, n(0), n(2)).unwrap().and_hms_opt(n(4), n(6), n(8)).unwrap().and_utc().timestamp()
}

/// (notBefore, notAfter) of the embedded EE certificate and (thisUpdate, nextUpdate) of the CRL.
fn embedded_windows(cms: &[u8]) -> ((i64, i64), (i64, i64)) {
    let root = der::parse_one(cms, false).expect("cms parses");
    let sd = &root.children[1].children[0];
    let certs = sd.children.iter().find(|n| n.tag == 0xA0).expect("certificates");
    let tbs = &certs.children[0].children[0];
    let val = &tbs.children[4];
    let t = |n: &der::Node| parse_x509_time(n.tag, n.content(cms));
    let crls = sd.children.iter().find(|n| n.tag == 0xA1).expect("crls");
    let ctbs = &crls.children[0].children[0];
    ((t(&val.children[0]), t(&val.children[1])), (t(&ctbs.children[3]), t(&ctbs.children[4])))
}

//------------ BER respelling of one field of a DER object ----------------------------------------------

#[derive(Clone, Debug, PartialEq, Eq, PartialOrd, Ord)]
enum Spell {
    /// definite length with one superfluous length octet
    NonMinimal,
    /// definite length written as 0x84 + four octets
    Long4,
    /// indefinite length + end-of-contents (constructed values only)
    Indefinite,
    /// primitive string written constructed, cut at these positions into OCTET STRING segments
    Segments(Vec<usize>),
}

impl Spell {
    fn name(&self) -> String {
        match self { Spell::NonMinimal => "non-minimal-length".into(), Spell::Long4 => "4-octet-length".into(), Spell::Indefinite => "indefinite-length".into(),
            Spell::Segments(c) => format!("constructed-{}-segments-cut-at-{:?}", c.len() + 1, c) }
    }
}

/// Re-writes `node` (and nothing else) of the DER object `buf` in another BER spelling.
fn respell(buf: &[u8], node: &der::Node, path: &mut Vec<usize>, target: &[usize], sp: &Spell) -> Vec<u8> {
    if !target.starts_with(path) { return node.whole(buf).to_vec() }
    let is_target = path.as_slice() == target;
    let content: Vec<u8> = if node.constructed() {
        let mut c = Vec::new();
        for (i, ch) in node.children.iter().enumerate() { path.push(i); c.extend(respell(buf, ch, path, target, sp)); path.pop(); }
        c
    } else { node.content(buf).to_vec() };
    if !is_target { return der::tlv(node.tag, &content) }
    let n = content.len();
    let mut out = Vec::new();
    match sp {
        Spell::NonMinimal => {
            out.push(node.tag);
            if n < 128 { out.extend([0x81, n as u8]) } else { let l = der::len_octets(n); out.push(l[0] + 1); out.push(0); out.extend(&l[1..]) }
            out.extend(content);
        }
        Spell::Long4 => { out.push(node.tag); out.push(0x84); out.extend((n as u32).to_be_bytes()); out.extend(content) }
        Spell::Indefinite => { out.push(node.tag); out.push(0x80); out.extend(content); out.extend([0, 0]) }
        Spell::Segments(cuts) => {
            let mut segs = Vec::new();
            let mut prev = 0;
            for &c in cuts.iter().chain(std::iter::once(&n)) { segs.extend(der::tlv(der::T_OCTSTR, &content[prev..c])); prev = c }
            out = der::tlv(node.tag | 0x20, &segs);
        }
    }
    out
}

/// All ways to cut `n` octets into `k` non-empty segments (cut positions).
fn cuts_into(n: usize, k: usize) -> Vec<Vec<usize>> {
    fn rec(start: usize, n: usize, left: usize, cur: &mut Vec<usize>, out: &mut Vec<Vec<usize>>) {
        if left == 0 { out.push(cur.clone()); return }
        for c in start..n { cur.push(c); rec(c + 1, n, left - 1, cur, out); cur.pop(); }
    }
    let mut out = Vec::new();
    rec(1, n, k - 1, &mut Vec::new(), &mut out);
    out
}

/// (field name, path, spellings) for a CMS SignedData object.
fn cms_fields(buf: &[u8], full_sid: bool) -> Vec<(&'static str, Vec<usize>, Vec<Spell>)> {
    let root = der::parse_one(buf, false).expect("object of the independent encoder parses");
    let sd = &root.children[1].children[0];
    let si_idx = sd.children.len() - 1;
    let si = vec![1, 0, si_idx, 0];
    let hdr = || vec![Spell::NonMinimal, Spell::Long4, Spell::Indefinite];
    let with = |p: &[usize], i: usize| { let mut v = p.to_vec(); v.push(i); v };
    let mut f: Vec<(&'static str, Vec<usize>, Vec<Spell>)> = vec![
        ("ContentInfo", vec![], hdr()), ("content[0]", vec![1], hdr()), ("SignedData", vec![1, 0], hdr()), ("version", vec![1, 0, 0], vec![Spell::NonMinimal, Spell::Long4]),
        ("digestAlgorithms", vec![1, 0, 1], hdr()), ("digestAlgorithm", vec![1, 0, 1, 0], hdr()), ("encapContentInfo", vec![1, 0, 2], hdr()),
        ("eContentType", vec![1, 0, 2, 0], vec![Spell::NonMinimal, Spell::Long4]), ("eContent[0]", vec![1, 0, 2, 1], hdr()),
        ("certificates[0]", vec![1, 0, 3], hdr()), ("Certificate", vec![1, 0, 3, 0], hdr()),
        ("signerInfos", vec![1, 0, si_idx], hdr()), ("SignerInfo", si.clone(), hdr()), ("SignerInfo.version", with(&si, 0), vec![Spell::NonMinimal, Spell::Long4]),
        ("SignerInfo.digestAlgorithm", with(&si, 2), hdr()), ("signedAttrs[0]", with(&si, 3), hdr()), ("signatureAlgorithm", with(&si, 4), hdr()),
    ];
    if si_idx == 5 { f.push(("crls[1]", vec![1, 0, 4], hdr())); f.push(("CertificateList", vec![1, 0, 4, 0], hdr())) }
    // eContent OCTET STRING
    let ec = &sd.children[2].children[1].children[0];
    let mut sp = vec![Spell::NonMinimal, Spell::Long4];
    for k in [1usize, 2, 3, 4, 17] { if ec.len >= k { sp.push(Spell::Segments((1..k).map(|i| i * ec.len / k).collect())) } }
    f.push(("eContent", vec![1, 0, 2, 1, 0], sp));
    // sid [0]: every split into 1..=4 segments (full) or a few, and 20 segments
    let mut sp = vec![Spell::NonMinimal, Spell::Long4, Spell::Segments(vec![])];
    if full_sid { for k in 2..=4 { sp.extend(cuts_into(20, k).into_iter().map(Spell::Segments)) } }
    else { sp.extend([vec![1], vec![10], vec![19], vec![1, 2], vec![7, 14], vec![5, 10, 15]].map(Spell::Segments)) }
    sp.push(Spell::Segments((1..20).collect()));
    f.push(("sid[0]", with(&si, 1), sp));
    // signature OCTET STRING
    let mut sp = vec![Spell::NonMinimal, Spell::Long4];
    for k in [1usize, 2, 3, 4, 16, 256] { sp.push(Spell::Segments((1..k).collect::<Vec<_>>().iter().map(|i| i * 256 / k).collect())) }
    f.push(("signature", with(&si, 5), sp));
    f
}


//------------ deterministic failure reporting ---------------------------------------------
// Failures found on worker threads are collected and handed to the report in
// sorted order, so that the (at most three) printed witnesses per oracle do
// not depend on thread timing.

static FAILS: Mutex<Vec<(String, String, String)>> = Mutex::new(Vec::new());

fn fail(oracle: &str, witness: impl Into<String>, detail: impl Into<String>) {
    FAILS.lock().unwrap().push((oracle.to_string(), witness.into(), detail.into()));
}

fn flush_fails(ctx: &Ctx) {
    let mut v = std::mem::take(&mut *FAILS.lock().unwrap());
    v.sort();
    for (o, w, d) in v { ctx.fail(&o, w, d) }
}

//============ round 8: the signer as a participant, predecessors, environment, time interactions ====

const MSG_KINDS: [&str; 3] = ["SignedMessage::create", "ProvisioningCms::create", "PublicationCms::create"];

/// Creates a message of the given kind under `key`: (octets, decoder to use, an instant inside its window).
fn create_message<S: Signer>(kind: u8, key: &S::KeyId, signer: &S, content: &[u8]) -> Result<(Vec<u8>, Via, i64), String> {
    match kind {
        0 => {
            let m = SignedMessage::create(Bytes::copy_from_slice(content), Validity::new(pki::time(T0 - W), pki::time(T0 + W)), key, signer).map_err(|e| e.to_string())?;
            Ok((m.to_captured().into_bytes().to_vec(), Via::Strict, T0))
        }
        1 => {
            let msg = provisioning::Message::list(SenderHandle::from_str("child").unwrap(), RecipientHandle::from_str("parent").unwrap());
            let b = ProvisioningCms::create(msg, key, signer).map_err(|e| e.to_string())?.to_bytes().to_vec();
            let ((nb, _), _) = embedded_windows(&b);
            Ok((b, Via::Provisioning, nb + 300))
        }
        _ => {
            let b = PublicationCms::create(publication::Message::list_query(), key, signer).map_err(|e| e.to_string())?.to_bytes().to_vec();
            let ((nb, _), _) = embedded_windows(&b);
            Ok((b, Via::Publication, nb + 300))
        }
    }
}

/// RSA PKCS#1 v1.5 / SHA-256 verification by aws-lc directly.
fn verify_raw(pk: &PublicKey, data: &[u8], sig: &[u8]) -> bool {
    aws_lc_rs::signature::UnparsedPublicKey::new(&aws_lc_rs::signature::RSA_PKCS1_2048_8192_SHA256, pk.bits()).verify(data, sig).is_ok()
}

//------------ signers used as test doubles ----------------------------------------------------------

/// The real `SoftSigner` for everything that touches its key table; only the
/// one-off key (which the table never sees) comes from the pool, so that a
/// message costs three signatures instead of an RSA key generation.
struct SoftPoolOneOff<'a> { soft: SoftSigner, pool: &'a PoolSigner }

impl Signer for SoftPoolOneOff<'_> {
    type KeyId = SoftKeyId;
    type Error = io::Error;
    fn create_key(&self, algorithm: PublicKeyFormat) -> Result<SoftKeyId, io::Error> { self.soft.create_key(algorithm) }
    fn get_key_info(&self, key: &SoftKeyId) -> Result<PublicKey, KeyError<io::Error>> { self.soft.get_key_info(key) }
    fn destroy_key(&self, key: &SoftKeyId) -> Result<(), KeyError<io::Error>> { self.soft.destroy_key(key) }
    fn sign<Alg: SignatureAlgorithm, D: AsRef<[u8]> + ?Sized>(&self, key: &SoftKeyId, algorithm: Alg, data: &D) -> Result<Signature<Alg>, SigningError<io::Error>> { self.soft.sign(key, algorithm, data) }
    fn sign_one_off<Alg: SignatureAlgorithm, D: AsRef<[u8]> + ?Sized>(&self, algorithm: Alg, data: &D) -> Result<(Signature<Alg>, PublicKey), io::Error> { self.pool.sign_one_off(algorithm, data) }
    fn rand(&self, target: &mut [u8]) -> Result<(), io::Error> { self.soft.rand(target) }
}

#[derive(Clone, Copy, Debug, PartialEq, Eq)]
enum Hook { Count, Sleep, Fail }

/// The pool signer with something happening in its `at`-th call (counted over get_key_info, sign, sign_one_off, rand).
struct HookSigner<'a> { inner: &'a PoolSigner, calls: AtomicUsize, at: usize, hook: Hook }

impl<'a> HookSigner<'a> {
    fn new(inner: &'a PoolSigner, at: usize, hook: Hook) -> Self { HookSigner { inner, calls: AtomicUsize::new(0), at, hook } }
    fn tick(&self) -> Result<(), io::Error> {
        let i = self.calls.fetch_add(1, Ordering::SeqCst);
        if i == self.at {
            match self.hook {
                Hook::Count => {}
                Hook::Sleep => std::thread::sleep(std::time::Duration::from_millis(1100)),
                Hook::Fail => return Err(io::Error::other("injected signer failure")),
            }
        }
        Ok(())
    }
}

impl Signer for HookSigner<'_> {
    type KeyId = Kid;
    type Error = io::Error;
    fn create_key(&self, algorithm: PublicKeyFormat) -> Result<Kid, io::Error> { self.inner.create_key(algorithm) }
    fn get_key_info(&self, key: &Kid) -> Result<PublicKey, KeyError<io::Error>> { self.tick().map_err(KeyError::Signer)?; self.inner.get_key_info(key) }
    fn destroy_key(&self, key: &Kid) -> Result<(), KeyError<io::Error>> { self.inner.destroy_key(key) }
    fn sign<Alg: SignatureAlgorithm, D: AsRef<[u8]> + ?Sized>(&self, key: &Kid, algorithm: Alg, data: &D) -> Result<Signature<Alg>, SigningError<io::Error>> { self.tick().map_err(SigningError::Signer)?; self.inner.sign(key, algorithm, data) }
    fn sign_one_off<Alg: SignatureAlgorithm, D: AsRef<[u8]> + ?Sized>(&self, algorithm: Alg, data: &D) -> Result<(Signature<Alg>, PublicKey), io::Error> { self.tick()?; self.inner.sign_one_off(algorithm, data) }
    fn rand(&self, target: &mut [u8]) -> Result<(), io::Error> { self.tick()?; self.inner.rand(target) }
}

/// Number of signer calls one creation of the given kind makes.
fn signer_calls(fx: &Fx, kind: u8) -> usize {
    let h = HookSigner::new(&fx.s, usize::MAX, Hook::Count);
    let _ = guard(|| create_message(kind, &Kid(K_PEER), &h, &fx.content));
    h.calls.load(Ordering::SeqCst)
}

//------------ the signer state machine ----------------------------------------------------------------

#[derive(Clone, Copy, Debug, PartialEq, Eq, PartialOrd, Ord)]
enum SOp { New, Destroy(usize), Info(usize), Raw(usize), Msg(usize, u8) }

impl SOp {
    fn show(&self) -> String {
        match self {
            SOp::New => "new-key".into(), SOp::Destroy(i) => format!("destroy_key(#{i})"), SOp::Info(i) => format!("get_key_info(#{i})"),
            SOp::Raw(i) => format!("sign(#{i})"), SOp::Msg(i, k) => format!("{}(#{i})", MSG_KINDS[*k as usize]),
        }
    }
}

/// What a sequence family may contain.
#[derive(Clone, Copy)]
struct SeqAlphabet { max_handles: usize, raw: bool, all_kinds: bool }

/// All valid operation sequences of exactly `len` operations on a signer that starts with `start` keys
/// (every shorter valid sequence is a prefix of one of them, and every step is judged). A handle can only
/// be named once it has been issued; without `all_kinds` the message kind is (position + handle) mod 3.
fn signer_leaves(start: usize, len: usize, a: SeqAlphabet) -> Vec<Vec<SOp>> {
    fn rec(issued: usize, len: usize, a: SeqAlphabet, cur: &mut Vec<SOp>, out: &mut Vec<Vec<SOp>>) {
        if cur.len() == len { out.push(cur.clone()); return }
        let pos = cur.len();
        if issued < a.max_handles { cur.push(SOp::New); rec(issued + 1, len, a, cur, out); cur.pop(); }
        for i in 0..issued {
            let mut ops = vec![SOp::Destroy(i), SOp::Info(i)];
            if a.raw { ops.push(SOp::Raw(i)) }
            if a.all_kinds { for k in 0..3 { ops.push(SOp::Msg(i, k)) } } else { ops.push(SOp::Msg(i, ((pos + i) % 3) as u8)) }
            for op in ops { cur.push(op); rec(issued, len, a, cur, out); cur.pop(); }
        }
    }
    let mut out = Vec::new();
    rec(start, len, a, &mut Vec::new(), &mut out);
    out
}

/// The reference model of a signer: what each handle meant when it was issued, and whether it was destroyed since.
struct Handle<K> { id: K, public: PublicKey, alive: bool }

#[derive(Default)]
struct SeqOutcome {
    /// (oracle, index of the failing step or None for the set-up, detail)
    fail: Option<(&'static str, Option<usize>, String)>,
    steps: u64,
    classes: BTreeMap<&'static str, u64>,
    states: BTreeSet<(usize, u8)>,
    nontrivial: bool,
}

type StepResult = Result<&'static str, (&'static str, String)>;

/// Runs one sequence on `signer` against the model. `new_key(ordinal)` makes the next key and says, where it is
/// known independently, which public key that is. `destroy_effective` is false for the pool signer, whose
/// `destroy_key` is documented to do nothing.
fn exec_seq<S: Signer>(signer: &S, new_key: &dyn Fn(usize) -> Result<(S::KeyId, Option<PublicKey>), String>, destroy_effective: bool, start: usize, seq: &[SOp], content: &[u8]) -> SeqOutcome {
    let mut out = SeqOutcome::default();
    let mut hs: Vec<Handle<S::KeyId>> = Vec::new();
    let add_key = |hs: &mut Vec<Handle<S::KeyId>>| -> StepResult {
        let ord = hs.len();
        let (id, expected) = new_key(ord).map_err(|e| ("C10.signer.key_info", format!("a new key could not be made: {e}")))?;
        let got = signer.get_key_info(&id).map_err(|e| ("C10.signer.key_info", format!("get_key_info on the handle just issued (#{ord}) fails: {e}")))?;
        if let Some(x) = &expected { if *x != got { return Err(("C10.signer.key_info", format!("get_key_info on the handle just issued (#{ord}) returns another key than the one handed in"))) } }
        if let Some(j) = hs.iter().position(|h| h.public == got) { return Err(("C10.signer.key_info", format!("the handle just issued (#{ord}) names the key of handle #{j}"))) }
        hs.push(Handle { id, public: got, alive: true });
        Ok("new-key")
    };
    let mask = |hs: &Vec<Handle<S::KeyId>>| hs.iter().enumerate().fold(0u8, |m, (i, h)| if h.alive { m | 1 << i } else { m });
    for _ in 0..start {
        match guard(|| add_key(&mut hs)) {
            Ok(Ok(_)) => {}
            Ok(Err((o, d))) => { out.fail = Some((o, None, d)); return out }
            Err(p) => { out.fail = Some(("C10.no_panic", None, p)); return out }
        }
    }
    out.states.insert((hs.len(), mask(&hs)));
    // which of the recorded keys a message validates under (for the detail text)
    let validates_under = |hs: &Vec<Handle<S::KeyId>>, bytes: &[u8], when: i64, via: Via| -> Vec<(usize, Verdict)> { hs.iter().enumerate().map(|(j, h)| (j, run(bytes, &h.public, when, via))).collect() };
    for (pos, op) in seq.iter().enumerate() {
        let observed = match op { SOp::Info(i) | SOp::Raw(i) | SOp::Msg(i, _) => Some(*i), _ => None };
        if let Some(i) = observed { if !hs[i].alive || hs.iter().enumerate().any(|(j, h)| j != i && !h.alive) { out.nontrivial = true } }
        let step = guard(|| -> StepResult {
            match *op {
                SOp::New => add_key(&mut hs),
                SOp::Destroy(i) => {
                    let r = signer.destroy_key(&hs[i].id);
                    if hs[i].alive {
                        r.map_err(|e| ("C10.signer.destroyed", format!("destroy_key on the live handle #{i} fails: {e}")))?;
                        if destroy_effective { hs[i].alive = false }
                        Ok("key-destroyed")
                    } else if r.is_ok() { Err(("C10.signer.destroyed", format!("destroy_key on the already destroyed handle #{i} succeeds"))) } else { Ok("destroyed-handle-refused") }
                }
                SOp::Info(i) => match (signer.get_key_info(&hs[i].id), hs[i].alive) {
                    (Ok(pk), true) => if pk == hs[i].public { Ok("key-info-agrees") } else {
                        let other = hs.iter().position(|h| h.public == pk);
                        Err(("C10.signer.key_info", format!("get_key_info(#{i}) no longer returns the key recorded when the handle was issued{}", other.map(|j| format!(", but the key of handle #{j}")).unwrap_or_default())))
                    },
                    (Err(e), true) => Err(("C10.signer.key_info", format!("get_key_info on the live handle #{i} fails: {e}"))),
                    (Ok(pk), false) => Err(("C10.signer.destroyed", format!("get_key_info on the destroyed handle #{i} returns a key{}", hs.iter().position(|h| h.public == pk).map(|j| format!(" (that of handle #{j})")).unwrap_or_default()))),
                    (Err(_), false) => Ok("destroyed-handle-refused"),
                },
                SOp::Raw(i) => {
                    let data = format!("data signed at step {pos} under handle {i}");
                    match (signer.sign(&hs[i].id, RpkiSignatureAlgorithm::default(), data.as_bytes()), hs[i].alive) {
                        (Ok(sig), alive) => {
                            let under: Vec<usize> = hs.iter().enumerate().filter(|(_, h)| verify_raw(&h.public, data.as_bytes(), sig.value().as_ref())).map(|(j, _)| j).collect();
                            if !alive { Err(("C10.signer.destroyed", format!("sign under the destroyed handle #{i} succeeds (the signature verifies under the keys recorded for handles {under:?})"))) }
                            else if under == [i] { Ok("signature-under-named-key-only") }
                            else { Err(("C10.signer.sign", format!("the signature made under handle #{i} verifies under the keys recorded for handles {under:?}, not under #{i} alone"))) }
                        }
                        (Err(e), true) => Err(("C10.signer.sign", format!("sign under the live handle #{i} fails: {e}"))),
                        (Err(_), false) => Ok("destroyed-handle-refused"),
                    }
                }
                SOp::Msg(i, k) => match (create_message(k, &hs[i].id, signer, content), hs[i].alive) {
                    (Ok((bytes, via, when)), alive) => {
                        let vs = validates_under(&hs, &bytes, when, via);
                        if let Some((_, Verdict::Panic(p))) = vs.iter().find(|(_, v)| matches!(v, Verdict::Panic(_))) { return Err(("C10.no_panic", p.clone())) }
                        let under: Vec<usize> = vs.iter().filter(|(_, v)| v.accepted()).map(|(j, _)| *j).collect();
                        if !alive { return Err(("C10.signer.destroyed", format!("a message was created under the destroyed handle #{i} (it validates under the keys recorded for handles {under:?})"))) }
                        if under.iter().any(|&j| j != i) { return Err(("C10.signer.created.other_key", format!("the message created under handle #{i} validates under the public keys recorded for handles {under:?} when they were issued{}", if under.contains(&i) { String::new() } else { format!(", not under that of #{i} ({})", trunc(&vs[i].1.show(), 120)) }))) }
                        if under != [i] { return Err(("C10.signer.created.own_key", format!("the message created under handle #{i} does not validate under the public key recorded for that handle when it was issued ({}), nor under any other recorded key", trunc(&vs[i].1.show(), 120)))) }
                        Ok("message-validates-under-named-key-only")
                    }
                    (Err(e), true) => Err(("C10.signer.created.own_key", format!("creating a message under the live handle #{i} fails: {e}"))),
                    (Err(_), false) => Ok("destroyed-handle-refused"),
                },
            }
        });
        out.steps += 1;
        match step {
            Ok(Ok(class)) => { *out.classes.entry(class).or_insert(0) += 1; out.states.insert((hs.len(), mask(&hs))); }
            Ok(Err((o, d))) => { out.fail = Some((o, Some(pos), d)); return out }
            Err(p) => { out.fail = Some(("C10.no_panic", Some(pos), p)); return out }
        }
    }
    out
}

#[derive(Clone, Copy, Debug, PartialEq, Eq, PartialOrd, Ord)]
enum SignerKind { SoftImported, SoftGenerated, Pool }

impl SignerKind {
    fn name(self) -> &'static str {
        match self {
            SignerKind::SoftImported => "SoftSigner(keys imported with key_from_pem, one-off key from the pool)",
            SignerKind::SoftGenerated => "SoftSigner(create_key and sign_one_off generating)",
            SignerKind::Pool => "PoolSigner(harness)",
        }
    }
}

fn space_signer_sequences(ctx: &Ctx, fx: &Fx) {
    let thorough = ctx.tier.is_thorough();
    let sp = ctx.space("signer.sequences",
        "the signer as a stateful participant: explicit-state exploration of operation sequences over {new key, destroy_key(#i), get_key_info(#i), sign(#i) (the trait method, bare data), create a message under #i (SignedMessage::create / ProvisioningCms::create / PublicationCms::create)}, #i = the i-th handle the signer issued, at most 3 handles, each sequence on an OS thread of its own, every step judged against a reference model (handle -> public key recorded when the handle was issued, + destroyed or not): a message created under a live handle validates under exactly the key recorded for that handle and under no other recorded key (live or destroyed); sign verifies (aws-lc directly) under that key alone; get_key_info returns it; every operation on a destroyed handle fails; a new handle never names an existing key. Three signers: (A) the real rpki::crypto::softsigner::SoftSigner with keys imported through key_from_pem (the model knows the public key independently; the one-off key comes from the pool) started with 0, 1, 2 or 3 keys, all sequences of <= 4 operations; (B) the plain SoftSigner with create_key and sign_one_off generating RSA keys, all sequences of <= 4 operations from the empty signer; (C) the harness' PoolSigner (whose destroy_key is a no-op: handles stay live) from 3 keys, <= 3 operations (thorough 4) - a failure here too means the message path, not the signer, is at fault. The message kind is (position + handle) mod 3. quick: no bare sign (creating a message signs twice under the handle anyway); thorough: with the bare sign, and also all sequences of <= 5 operations without it in (B) and, from 0, 1 or 2 keys, in (A). non-trivial = sequences in which a handle is observed after ANOTHER handle was destroyed, or a destroyed handle is addressed");
    let pool_p8: Vec<Vec<u8>> = (0..3).map(|i| std::fs::read(format!("{}/keys/rsa-{i}.p8", verif_dir())).unwrap_or_default()).collect();
    if pool_p8.iter().any(|k| k.is_empty()) { ctx.machinery_error("signer.sequences: cannot read the pool keys"); sp.done(false, "not run"); return }
    let mut jobs: Vec<(SignerKind, usize, Vec<SOp>)> = Vec::new();
    let plain = SeqAlphabet { max_handles: 3, raw: false, all_kinds: false };
    let with_raw = SeqAlphabet { max_handles: 3, raw: true, all_kinds: false };
    for start in 0..=3 {
        for s in signer_leaves(start, 4, if thorough { with_raw } else { plain }) { jobs.push((SignerKind::SoftImported, start, s)) }
        if thorough && start < 3 { for s in signer_leaves(start, 5, plain) { jobs.push((SignerKind::SoftImported, start, s)) } }
    }
    for s in signer_leaves(0, 4, if thorough { with_raw } else { plain }) { jobs.push((SignerKind::SoftGenerated, 0, s)) }
    if thorough { for s in signer_leaves(0, 5, plain) { jobs.push((SignerKind::SoftGenerated, 0, s)) } }
    for s in signer_leaves(3, if thorough { 4 } else { 3 }, if thorough { with_raw } else { plain }) { jobs.push((SignerKind::Pool, 3, s)) }
    // the key generations are the expensive part: start them first
    jobs.sort_by_key(|(k, _, _)| match k { SignerKind::SoftGenerated => 0, _ => 1 });
    let spent: [AtomicUsize; 3] = [AtomicUsize::new(0), AtomicUsize::new(0), AtomicUsize::new(0)];
    let results: Vec<SeqOutcome> = jobs.par_iter().map(|(kind, start, seq)| {
        let t = std::time::Instant::now();
        // every sequence on an OS thread of its own: per-thread state left behind by other sequences cannot reach it
        let r = std::thread::scope(|sc| sc.spawn(|| match kind {
            SignerKind::SoftImported => {
                let signer = SoftPoolOneOff { soft: SoftSigner::new(), pool: &fx.s };
                exec_seq(&signer, &|ord| signer.soft.key_from_pem(&pool_p8[ord]).map(|id| (id, Some(fx.s.public(ord)))).map_err(|e| e.to_string()), true, *start, seq, &fx.content)
            }
            SignerKind::SoftGenerated => {
                let signer = SoftSigner::new();
                exec_seq(&signer, &|_| signer.create_key(PublicKeyFormat::Rsa).map(|id| (id, None)).map_err(|e| e.to_string()), true, *start, seq, &fx.content)
            }
            SignerKind::Pool => {
                let signer = PoolSigner::load();
                exec_seq(&signer, &|ord| signer.create_key(PublicKeyFormat::Rsa).map(|id| (id, Some(fx.s.public(ord)))).map_err(|e| e.to_string()), false, *start, seq, &fx.content)
            }
        }).join()).unwrap_or_else(|_| SeqOutcome { fail: Some(("C10.no_panic", None, "the sequence's thread panicked outside the guard".into())), ..SeqOutcome::default() });
        spent[*kind as usize].fetch_add(t.elapsed().as_micros() as usize, Ordering::Relaxed);
        r
    }).collect();
    if std::env::var_os("C10_TIMING").is_some() { eprintln!("timing: signer.sequences thread time (A) {:.1} s, (B) {:.1} s, (C) {:.1} s", spent[0].load(Ordering::Relaxed) as f64 / 1e6, spent[1].load(Ordering::Relaxed) as f64 / 1e6, spent[2].load(Ordering::Relaxed) as f64 / 1e6) }
    let mut fails: BTreeSet<(String, String, String)> = BTreeSet::new();
    let mut per_signer: BTreeMap<&'static str, (u64, u64, u64)> = BTreeMap::new();
    let mut states: BTreeSet<(usize, u8)> = BTreeSet::new();
    let mut keygens = 0u64;
    for ((kind, start, seq), r) in jobs.iter().zip(results.iter()) {
        sp.evals(r.steps);
        sp.merge_outcomes(&r.classes);
        if r.nontrivial { sp.nontrivial(1) }
        states.extend(r.states.iter().copied());
        let e = per_signer.entry(kind.name()).or_insert((0, 0, 0));
        e.0 += 1; e.1 += r.steps;
        if *kind == SignerKind::SoftGenerated { keygens += seq.iter().filter(|o| matches!(o, SOp::New | SOp::Msg(..))).count() as u64 }
        if let Some((oracle, at, detail)) = &r.fail {
            e.2 += 1;
            let upto = at.map(|a| a + 1).unwrap_or(0);
            let wit = format!("signer={}; {upto} operations on a signer holding {start} keys (#0..): {}", kind.name(), if upto == 0 { "(set-up)".to_string() } else { seq[..upto].iter().map(|o| o.show()).collect::<Vec<_>>().join(", ") });
            fails.insert((oracle.to_string(), wit, match at { Some(a) => format!("step {}: {detail}", a + 1), None => detail.clone() }));
        }
    }
    for (o, w, d) in fails { fail(&o, w, d) }
    sp.set("sequences_steps_failures_per_signer", serde_json::json!(per_signer.iter().map(|(k, (n, s, f))| format!("{k}: {n} sequences, {s} steps, {f} sequences failing")).collect::<Vec<_>>()));
    sp.set("model_states_reached", serde_json::json!(states.iter().map(|(n, m)| format!("{n} handles, live mask {m:03b}")).collect::<Vec<_>>()));
    sp.set("rsa_key_generations", serde_json::json!(keygens));
    sp.sample_str(|| format!("signer={}; 2 operations on a signer holding 3 keys (#0..): destroy_key(#0), SignedMessage::create(#1) -> validates under the key recorded for #1 only", SignerKind::SoftImported.name()));
    sp.sample_str(|| format!("signer={}; 4 operations on a signer holding 0 keys (#0..): new-key, new-key, destroy_key(#0), get_key_info(#1) -> the key recorded for #1", SignerKind::SoftGenerated.name()));
    sp.done(true, &format!("{} maximal sequences ({} model states): (A) 4 start states x all sequences of {} ops, (B) all sequences of {} ops from the empty signer ({} RSA key generations), (C) all sequences of {} ops from 3 keys", jobs.len(), states.len(), if thorough { "4 (with bare sign; and of 5 from 0-2 keys)" } else { "4" }, if thorough { "4 (with bare sign) and 5" } else { "4" }, keygens, if thorough { 4 } else { 3 }));
}

//------------ subjects and predecessors ---------------------------------------------------------------

enum SubjKind { Validate { bytes: Vec<u8>, key: usize, when: i64, via: Via }, Create(u8) }

/// One representative evaluation; `want` = what the property says about it (None: only compared with itself).
struct Subject { label: String, kind: SubjKind, want: Option<bool> }

fn observe(fx: &Fx, s: &Subject) -> String {
    let o = match &s.kind {
        SubjKind::Validate { bytes, key, when, via } => run(bytes, &fx.s.public(*key), *when, *via).show(),
        SubjKind::Create(kind) => match guard(|| create_message(*kind, &fx.s.kid(K_PEER), &fx.s, &fx.content)) {
            Err(p) => p,
            Ok(Err(e)) => format!("create failed: {e}"),
            Ok(Ok((b, via, when))) => format!("created; under the signing key: {}; under another key: {}", run(&b, &fx.s.public(K_PEER), when, via).show(), run(&b, &fx.s.public(K_OTHER), when, via).show()),
        },
    };
    o.replace('\n', " ")
}

fn obs_accepted(s: &Subject, obs: &str) -> bool {
    match s.kind { SubjKind::Validate { .. } => obs == "validated", SubjKind::Create(_) => obs.starts_with("created; under the signing key: validated; under another key: validation error") }
}

fn prov_fx(fx: &Fx) -> Fx {
    let xml = provisioning::Message::list(SenderHandle::from_str("child").unwrap(), RecipientHandle::from_str("parent").unwrap()).to_xml_bytes().to_vec();
    Fx { s: PoolSigner::load(), content: xml, peer: fx.peer.clone() }
}

/// Messages that share every identifier with the all-satisfied foreign message but not the keys / the content.
fn twins(fx: &Fx) -> Vec<(&'static str, Vec<u8>)> {
    let s = &fx.s;
    let base = Plan::base();
    let base_ee = EeSpec { serial: EE_SERIAL.to_vec(), nb: T0 - W, na: T0 + W, subject_key: K_EE, sign_key: K_PEER, ski: None, aki: Some(s.key(K_PEER).ski.to_vec()), basic: Basic::Absent, key_usage_ext: false, issuer: 0, subject: 0 };
    let base_crl = CrlSpec { this: T0 - W, next: T0 + W, sign_key: K_PEER, revoked: Some(vec![]), aki: Some(s.key(K_PEER).ski.to_vec()), number: Some(42), unknown_ext: false, ext_block: true, ign: CrlIgn::DEFAULT, ee_serial: EE_SERIAL.to_vec() };
    let mut v = Vec::new();
    // EE certificate and CRL issued by another key under the peer's key identifier
    let (mut e, mut c) = (base_ee.clone(), base_crl.clone()); e.sign_key = K_OTHER; c.sign_key = K_OTHER;
    v.push(("same identifiers, EE certificate and CRL signed by another key", assemble(fx, &base, &ee_cert(s, &e), &crl(s, &c))));
    // another EE key under the same subject key identifier, sid and serial
    let mut e = base_ee.clone(); e.subject_key = K_EE2; e.ski = Some(s.key(K_EE).ski.to_vec());
    let mut p = Plan::base(); p.sig = SigV::OtherKey;
    v.push(("same identifiers, another EE key", assemble(fx, &p, &ee_cert(s, &e), &crl(s, &base_crl))));
    // the same EE certificate and CRL around other content
    let other = Fx { s: PoolSigner::load(), content: { let mut c = fx.content.clone(); c.extend_from_slice(b"<!-- other -->"); c }, peer: fx.peer.clone() };
    v.push(("same EE certificate and CRL, other content", assemble(&other, &base, &ee_cert(s, &base_ee), &crl(s, &base_crl))));
    v
}

fn subjects(fx: &Fx) -> Vec<Subject> {
    let cache = Cache::new();
    let mut v: Vec<Subject> = Vec::new();
    let mut add = |label: String, bytes: Vec<u8>, key: usize, when: i64, via: Via, want: Option<bool>| v.push(Subject { label: format!("{label} key={} when=T0{:+}s via={via:?}", if key == K_PEER { "peer" } else { "other" }, when - T0), kind: SubjKind::Validate { bytes, key, when, via }, want });
    let b = cache.build(fx, &Plan::base());
    for via in [Via::Strict, Via::Relaxed, Via::Publication] { add("foreign all-satisfied (3 signed attributes)".into(), b.clone(), K_PEER, T0, via, Some(true)) }
    add("foreign all-satisfied".into(), b.clone(), K_OTHER, T0, Via::Strict, Some(false));
    add("foreign all-satisfied".into(), b.clone(), K_PEER, T0 + W + 1, Via::Strict, Some(false));
    add("foreign all-satisfied".into(), b.clone(), K_PEER, T0 - W - 1, Via::Relaxed, Some(false));
    let mut long = Plan::base(); long.extras = vec![Extra::Bst, Extra::Unk100, Extra::Unk200]; long.order = [2, 0, 1];
    for via in [Via::Strict, Via::Relaxed] { add("foreign all-satisfied (6 signed attributes, > 256 octets)".into(), cache.build(fx, &long), K_PEER, T0, via, Some(true)) }
    let mut p = Plan::base(); p.st_gen = true; p.extras = vec![Extra::Unk1]; p.extras_first = true;
    add("foreign all-satisfied (GeneralizedTime, 4 signed attributes)".into(), cache.build(fx, &p), K_PEER, T0, Via::Strict, Some(true));
    let mut p = Plan::base(); p.sized_extra = Some((1000, false));
    add("foreign all-satisfied (~1100 octets of signed attributes)".into(), cache.build(fx, &p), K_PEER, T0, Via::Strict, Some(true));
    let mut p = Plan::base(); p.ee = EeV::NoAki; p.crl = CrlV::NoAki;
    add("foreign all-satisfied (no AKI)".into(), cache.build(fx, &p), K_PEER, T0, Via::Strict, Some(true));
    add("foreign all-satisfied (no AKI)".into(), cache.build(fx, &p), K_OTHER, T0, Via::Strict, Some(false));
    for viol in [Viol::D(DigestV::FlipLast), Viol::D(DigestV::Short31), Viol::S(SigV::FlipLastBit), Viol::S(SigV::OverImplicitTag), Viol::E(EeV::SignedByOther), Viol::E(EeV::CaTrue), Viol::E(EeV::Expired),
                 Viol::C(CrlV::SignedByOther), Viol::C(CrlV::Stale), Viol::C(CrlV::ListsEeMiddle), Viol::P(ProfV::SidOther), Viol::P(ProfV::CrlAkiWrong)] {
        let mut p = Plan::base(); viol.apply(&mut p);
        add(format!("foreign violated=[{}]", p.violated().join(" ")), cache.build(fx, &p), K_PEER, T0, Via::Strict, Some(false));
    }
    let tw = twins(fx);
    add(format!("foreign {}", tw[0].0), tw[0].1.clone(), K_PEER, T0, Via::Strict, Some(false));
    add(format!("foreign {}", tw[0].0), tw[0].1.clone(), K_OTHER, T0, Via::Strict, None);
    add(format!("foreign {}", tw[1].0), tw[1].1.clone(), K_PEER, T0, Via::Strict, Some(false));
    add(format!("foreign {}", tw[2].0), tw[2].1.clone(), K_PEER, T0, Via::Strict, Some(true));
    add("foreign all-satisfied cut in the middle".into(), b[..b.len() / 2].to_vec(), K_PEER, T0, Via::Strict, Some(false));
    add("foreign all-satisfied without its last octet".into(), b[..b.len() - 1].to_vec(), K_PEER, T0, Via::Relaxed, Some(false));
    let pfx = prov_fx(fx);
    let pb = Cache::new().build(&pfx, &Plan::base());
    add("foreign provisioning message, all-satisfied".into(), pb.clone(), K_PEER, T0, Via::Provisioning, Some(true));
    add("foreign provisioning message, all-satisfied".into(), pb, K_OTHER, T0, Via::Provisioning, Some(false));
    if let Ok(Ok((lib, _, _))) = guard(|| create_message(0, &fx.s.kid(K_PEER), &fx.s, &fx.content)) {
        add("library-created (SignedMessage::create, T0+-300s)".into(), lib.clone(), K_PEER, T0, Via::Strict, Some(true));
        add("library-created (SignedMessage::create, T0+-300s)".into(), lib.clone(), K_OTHER, T0, Via::Relaxed, Some(false));
        add("library-created (SignedMessage::create, T0+-300s)".into(), lib, K_PEER, T0 + W + 1, Via::Publication, Some(false));
    }
    for k in 0..3u8 { v.push(Subject { label: format!("{} then validate", MSG_KINDS[k as usize]), kind: SubjKind::Create(k), want: Some(true) }) }
    v
}

/// Runs every job on an OS thread of its own (32 at a time).
fn on_fresh_threads<'a, T: Send>(jobs: Vec<Box<dyn FnOnce() -> T + Send + 'a>>) -> Vec<Result<T, String>> {
    let mut out = Vec::new();
    let mut it = jobs.into_iter().peekable();
    while it.peek().is_some() {
        let chunk: Vec<_> = it.by_ref().take(32).collect();
        std::thread::scope(|sc| {
            let hs: Vec<_> = chunk.into_iter().map(|j| sc.spawn(move || guard(j))).collect();
            for h in hs { out.push(h.join().unwrap_or_else(|_| Err("the thread panicked outside the guard".into()))) }
        });
    }
    out
}

struct Pred<'a> { label: String, family: &'static str, run: Box<dyn Fn() -> String + Send + Sync + 'a> }

fn predecessors<'a>(fx: &'a Fx, subj: &'a [Subject]) -> Vec<Pred<'a>> {
    let cache = Cache::new();
    let mut v: Vec<Pred<'a>> = Vec::new();
    for s in subj {
        v.push(Pred { label: format!("subject: {}", s.label), family: "after a subject", run: Box::new(move || observe(fx, s)) });
    }
    let mut val = |label: String, family: &'static str, bytes: Vec<u8>, key: usize, when: i64, via: Via| {
        v.push(Pred { label: format!("{label} key={} when=T0{:+}s via={via:?}", if key == K_PEER { "peer" } else { "other" }, when - T0), family, run: Box::new(move || run(&bytes, &fx.s.public(key), when, via).show()) });
    };
    // every violation, at its own stage, short and long signed attributes
    let ex_menu: Vec<Vec<Extra>> = vec![vec![], vec![Extra::Bst, Extra::Unk100, Extra::Unk200]];
    for viol in all_violations() { for ex in &ex_menu { for via in [Via::Strict, Via::Relaxed] {
        if matches!(viol, Viol::S(SigV::OverMandatoryOnly)) && ex.is_empty() { continue }
        let mut p = Plan::base(); p.extras = ex.clone(); viol.apply(&mut p);
        let family = match viol {
            Viol::D(_) => "after a digest mismatch", Viol::S(_) => "after a signature failure", Viol::E(_) => "after an EE certificate failure",
            Viol::C(CrlV::SignedByOther) | Viol::C(CrlV::Stale) | Viol::C(CrlV::Future) => "after a CRL failure", Viol::C(_) => "after a revoked EE certificate", Viol::P(_) => "after a profile violation",
        };
        val(format!("foreign extras={:?} violated=[{}]", p.extras, p.violated().join(" ")), family, cache.build(fx, &p), K_PEER, T0, via);
    }}}
    // signed attributes of many sizes: accepted, with a failing signature, with a wrong digest
    for n in [0usize, 1, 20, 30, 100, 150, 160, 900, 5000, 65_400] { for (what, family) in [(0u8, "after an accepted message"), (1, "after a signature failure"), (2, "after a digest mismatch")] {
        let mut p = Plan::base(); p.sized_extra = Some((n, false));
        match what { 1 => p.sig = SigV::FlipLastBit, 2 => p.digest = DigestV::FlipLast, _ => {} }
        let len = der::cat(&plan_attrs(fx, &p).0).len();
        val(format!("foreign signed attributes of {len} octets violated=[{}]", p.violated().join(" ")), family, cache.build(fx, &p), K_PEER, T0, Via::Strict);
    }}
    // decode errors after every prefix that ends at a field boundary of the outer layers
    let mut long = Plan::base(); long.extras = vec![Extra::Bst, Extra::Unk100, Extra::Unk200];
    for (name, bytes) in [("3 signed attributes", cache.build(fx, &Plan::base())), ("6 signed attributes", cache.build(fx, &long))] {
        let mut cuts: BTreeSet<usize> = BTreeSet::new();
        if let Some(root) = der::parse_one(&bytes, false) {
            let mut nodes = Vec::new(); root.walk(&mut Vec::new(), &mut nodes);
            for (path, n) in nodes { if path.len() <= 5 && n.start > 0 { cuts.insert(n.start); cuts.insert(n.start + n.hdr); } }
        }
        cuts.insert(bytes.len() - 1);
        for c in cuts { for via in [Via::Strict, Via::Relaxed] { if c < bytes.len() { val(format!("foreign all-satisfied ({name}) cut after {c} of {} octets", bytes.len()), "after a decode error", bytes[..c].to_vec(), K_PEER, T0, via) } } }
    }
    // same identifiers, other keys / other content
    for (name, bytes) in twins(fx) { for key in [K_PEER, K_OTHER] { val(format!("foreign {name}"), "after the same identifiers with other keys or content", bytes.clone(), key, T0, Via::Strict) } }
    // creation that fails in each of its signer calls
    for kind in 0..3u8 { for at in 0..signer_calls(fx, kind) {
        v.push(Pred { label: format!("{} with a signer failing in its call #{at}", MSG_KINDS[kind as usize]), family: "after a failing creation",
            run: Box::new(move || { let h = HookSigner::new(&fx.s, at, Hook::Fail); match guard(|| create_message(kind, &Kid(K_PEER), &h, &fx.content)) { Ok(Ok(_)) => "created".into(), Ok(Err(e)) => format!("create failed: {e}"), Err(p) => p } }) });
    }}
    // a large created message
    v.push(Pred { label: "SignedMessage::create of 100000 octets then validate".into(), family: "after an accepted message", run: Box::new(move || {
        let big: Vec<u8> = (0..100_000).map(|i| b"<msg/>\n"[i % 7]).collect();
        match guard(|| create_message(0, &Kid(K_PEER), &fx.s, &big)) { Ok(Ok((b, via, when))) => run(&b, &fx.peer, when, via).show(), Ok(Err(e)) => format!("create failed: {e}"), Err(p) => p }
    }) });
    v
}

fn space_history_predecessors(ctx: &Ctx, fx: &Fx, subj: &[Subject]) {
    let thorough = ctx.tier.is_thorough();
    let sp = ctx.space("history.predecessors",
        "what happened before on the same thread: subjects = representative evaluations of every oracle family (foreign messages accepted with 3 / 4 / 6 / long signed attributes through every decoder, under another key, outside the window, one violation of every condition, messages sharing all identifiers with an accepted one but not the keys / the content, truncated octets, provisioning messages, a library-created message, the three create functions followed by validation). Predecessors = every subject; every violation (digest 4, signature 4, EE 4, CRL 7, profile 6) with short and long signed attributes, strict and relaxed, i.e. a failure at every distinct stage (decode, digest, signature, EE certificate, CRL, revocation); messages with 10 sizes of signed attributes from ~100 to ~65500 octets accepted / failing at the signature / at the digest; the accepted messages cut at every field boundary of the outer five layers (decode errors after every prefix); the same-identifier twins under both keys; the create functions with a signer failing in each of its calls; a 100000-octet created message. For every predecessor, on a NEW OS thread: the predecessor, then every subject, then every subject in reverse order; each observation (full verdict text) must equal the one the subject gives as the first thing on a thread of its own, and that one must be what the property says. thorough: also all ordered pairs of the first five predecessors of every family. non-trivial = predecessor sequences");
    let preds = predecessors(fx, subj);
    // baseline: every subject first thing on its own thread
    let base: Vec<String> = on_fresh_threads(subj.iter().map(|s| Box::new(move || observe(fx, s)) as Box<dyn FnOnce() -> String + Send>).collect())
        .into_iter().map(|r| r.unwrap_or_else(|p| p)).collect();
    for (s, o) in subj.iter().zip(base.iter()) {
        sp.eval(); sp.outcome(if obs_accepted(s, o) { "subject accepted" } else { "subject rejected" });
        if o.starts_with("panic") { fail("C10.no_panic", format!("subject alone on a new thread: {}", s.label), o.clone()) }
        if let Some(w) = s.want { if w != obs_accepted(s, o) { fail("C10.history.fresh", format!("subject alone on a new thread: {}", s.label), format!("the property says {}, observed: {}", if w { "accepted" } else { "rejected" }, trunc(o, 200))) } }
    }
    let mut seqs: Vec<Vec<usize>> = (0..preds.len()).map(|i| vec![i]).collect();
    // thorough: all ordered pairs of the first five predecessors of every family
    let mut reps: Vec<usize> = Vec::new();
    { let mut seen: BTreeMap<&'static str, usize> = BTreeMap::new(); for (i, p) in preds.iter().enumerate() { let n = seen.entry(p.family).or_insert(0); if *n < 5 { reps.push(i) } *n += 1; } }
    if thorough { for &a in &reps { for &b in &reps { seqs.push(vec![a, b]) } } }
    let preds_ref = &preds;
    let jobs: Vec<Box<dyn FnOnce() -> (Vec<String>, Vec<String>, Vec<String>) + Send>> = seqs.iter().map(|sq| {
        let sq = sq.clone();
        Box::new(move || {
            let own: Vec<String> = sq.iter().map(|&i| (preds_ref[i].run)()).collect();
            let fwd: Vec<String> = subj.iter().map(|s| observe(fx, s)).collect();
            let rev: Vec<String> = subj.iter().rev().map(|s| observe(fx, s)).collect();
            (own, fwd, rev)
        }) as Box<dyn FnOnce() -> (Vec<String>, Vec<String>, Vec<String>) + Send>
    }).collect();
    let results = on_fresh_threads(jobs);
    let mut stages: BTreeSet<String> = BTreeSet::new();
    for (sq, r) in seqs.iter().zip(results.iter()) {
        let wit = || format!("new thread, first: {}", sq.iter().map(|&i| preds[i].label.clone()).collect::<Vec<_>>().join("; then: "));
        sp.nontrivial(1); sp.outcome(preds[*sq.last().unwrap()].family);
        match r {
            Err(p) => fail("C10.no_panic", wit(), p.clone()),
            Ok((own, fwd, rev)) => {
                sp.evals((own.len() + fwd.len() + rev.len()) as u64);
                for o in own { stages.insert(format!("{}: {}", preds[*sq.last().unwrap()].family, trunc(o.split(" (at position").next().unwrap_or(o), 90))); }
                let n = subj.len();
                for i in 0..n {
                    for (order, got) in [("in order", &fwd[i]), ("in reverse order", &rev[n - 1 - i])] {
                        if *got != base[i] {
                            fail("C10.history.independent", format!("{}; then the subjects {order}: {}", wit(), subj[i].label), format!("observed `{}`, alone on a new thread the subject gives `{}`", trunc(got, 160), trunc(&base[i], 160)));
                        }
                    }
                }
            }
        }
    }
    sp.set("subjects", serde_json::json!(subj.iter().map(|s| s.label.clone()).collect::<Vec<_>>()));
    sp.set("predecessors", serde_json::json!(preds.len()));
    sp.set("distinct_predecessor_outcomes", serde_json::json!(stages));
    sp.sample_str(|| format!("new thread, first: {}; then {} subjects in order and in reverse: all as on a thread of their own", preds[preds.len() / 2].label, subj.len()));
    sp.done(true, &format!("{} predecessor sequences ({} predecessors{}) x {} subjects x 2 orders", seqs.len(), preds.len(), if thorough { format!(", singly and all ordered pairs of {} representatives", reps.len()) } else { String::new() }, subj.len()));
}

//------------ environment ---------------------------------------------------------------------------------

fn sys_now() -> f64 { std::time::SystemTime::now().duration_since(std::time::UNIX_EPOCH).map(|d| d.as_secs_f64()).unwrap_or(0.0) }

/// Everything whose result could depend on the time zone of the process, one line each.
fn env_lines(fx: &Fx, subj: &[Subject]) -> Vec<String> {
    let mut v: Vec<String> = subj.iter().map(|s| format!("{} -> {}", s.label, observe(fx, s))).collect();
    let s = &fx.s;
    // validity handed to SignedMessage::create, read back with the harness' own reader, over the UTCTime/GeneralizedTime switches
    let dom: Vec<i64> = vec![-631_152_001, -631_152_000, 0, T0, T0 + 600, 2_524_607_999, 2_524_608_000, 253_402_300_799];
    for (i, &nb) in dom.iter().enumerate() { for &na in &dom[i..] {
        let r = guard(|| SignedMessage::create(Bytes::from_static(b"<msg/>"), Validity::new(pki::time(nb), pki::time(na)), &s.kid(K_PEER), s).map(|m| embedded_windows(&m.to_captured().into_bytes())));
        v.push(format!("SignedMessage::create window=[{nb},{na}] -> {}", match r { Ok(Ok(w)) => format!("EE certificate {:?}, CRL {:?}", w.0, w.1), Ok(Err(e)) => format!("create failed: {e}"), Err(p) => p }));
    }}
    // the wall-clock creators: window relative to the system clock (read through std, not through the library)
    for kind in 1..3u8 {
        let before = sys_now();
        let r = guard(|| create_message(kind, &s.kid(K_PEER), s, &fx.content).map(|(b, via, _)| {
            let after = sys_now();
            let ((nb, na), crl_w) = embedded_windows(&b);
            let decoded = match via { Via::Provisioning => ProvisioningCms::decode(&b).map(|m| m.validate(&fx.peer).is_ok()).unwrap_or(false), _ => PublicationCms::decode(&b).map(|m| m.validate(&fx.peer).is_ok()).unwrap_or(false) };
            format!("notBefore is five minutes before the system clock: {}; window spans ten minutes: {}; CRL window equals it: {}; validate() now: {}",
                (nb as f64) >= before - 302.0 && (nb as f64) <= after - 299.0, (600..=601).contains(&(na - nb)), crl_w == (nb, na), decoded)
        }));
        v.push(format!("wall-clock creator {} -> {}", MSG_KINDS[kind as usize], match r { Ok(Ok(t)) => t, Ok(Err(e)) => format!("create failed: {e}"), Err(p) => p }));
    }
    let before = sys_now();
    let t = Time::now().timestamp() as f64;
    v.push(format!("Time::now() is the system clock: {}", before - 1.5 <= t && t <= sys_now() + 0.5));
    v.iter().map(|l| l.replace('\n', " ")).collect()
}

const ENV_CHILD_ARG: &str = "--c10-environment-child";

fn env_child() -> ! {
    rpki_verif::engine::report::install_quiet_panic_hook();
    let s = PoolSigner::load();
    let peer = s.public(K_PEER);
    let fx = Fx { content: publication::Message::list_query().to_xml_bytes().to_vec(), peer, s };
    let subj = subjects(&fx);
    use std::io::Write;
    let mut out = std::io::stdout().lock();
    for l in env_lines(&fx, &subj) { let _ = writeln!(out, "ENV {l}"); }
    let _ = out.flush();
    std::process::exit(0)
}

fn space_environment(ctx: &Ctx, fx: &Fx, subj: &[Subject]) {
    let sp = ctx.space("environment",
        "(a) time zone: the subject set, the windows SignedMessage::create writes for all 36 validity windows over the UTCTime/GeneralizedTime switch instants (read back with the harness' own reader) and the wall-clock creators (notBefore five minutes before the system clock, ten-minute window, validate() accepts) evaluated in child processes of this binary started with TZ=UTC0, TZ=XXX+11 (west) and TZ=YYY-14 (east): every line equals the line of this process. (b) the wall clock read again: on one thread every clock-reading variant (SignedMessage / PublicationCms / ProvisioningCms validate, IdCert validate_ee / validate_ta) is called once shortly before a whole second B and again shortly after B on objects whose window starts at B (must be accepted, and equal validate_at(Time::now())) and whose window ends at B (must be rejected); then after a 1.2 s pause on objects whose window starts at the then-current second (accepted) and whose window ended one second after the earlier calls (rejected). (c) slow signer: the three create functions with a signer sleeping 1.1 s - across a second boundary - in each of its calls: EE and CRL windows coincide, the message validates at both bounds and in the middle of its window and with validate() right away, not under another key. (b) and (c) run on dedicated threads in parallel. non-trivial = comparisons under a non-UTC zone, after the pause, with a sleeping signer");
    let s = &fx.s;
    let exe = std::env::current_exe();
    // (a) children first: they run while the threads below sleep
    let zones = ["UTC0", "XXX+11", "YYY-14"];
    let children: Vec<(&str, Option<std::process::Child>)> = zones.iter().map(|z| (*z, exe.as_ref().ok().and_then(|e| std::process::Command::new(e).arg(ENV_CHILD_ARG).env("TZ", z).stdout(std::process::Stdio::piped()).stderr(std::process::Stdio::null()).spawn().ok()))).collect();
    let pfx = prov_fx(fx);
    let base = Plan::base();
    let (ps_pub, ps_prov) = (presign(fx, &base), presign(&pfx, &base));
    let pfx = &pfx;
    // objects for a window: (strict message, publication message, provisioning message, EE certificate, TA certificate)
    let objects = |nb: i64, na: i64| -> (Vec<u8>, Vec<u8>, Vec<u8>, Vec<u8>) {
        let ee = ee_cert(s, &EeSpec { serial: EE_SERIAL.to_vec(), nb, na, subject_key: K_EE, sign_key: K_PEER, ski: None, aki: Some(s.key(K_PEER).ski.to_vec()), basic: Basic::Absent, key_usage_ext: false, issuer: 0, subject: 0 });
        let c = crl(s, &CrlSpec { this: nb, next: na, sign_key: K_PEER, revoked: Some(vec![]), aki: Some(s.key(K_PEER).ski.to_vec()), number: Some(5), unknown_ext: false, ext_block: true, ign: CrlIgn::DEFAULT, ee_serial: EE_SERIAL.to_vec() });
        let ta = IdCert::new_ta(Validity::new(pki::time(nb), pki::time(na)), &s.kid(K_PEER), s).map(|c| c.to_bytes().to_vec()).unwrap_or_default();
        (wrap(fx, &base, &ps_pub, false, &ee, &c), wrap(pfx, &base, &ps_prov, false, &ee, &c), ee, ta)
    };
    // the clock-reading variants of one window's objects: (route, validate() ok, validate_at(Time::now()) ok)
    let wall = |o: &(Vec<u8>, Vec<u8>, Vec<u8>, Vec<u8>)| -> Vec<(&'static str, Result<(bool, bool), String>)> {
        let key = &fx.peer;
        vec![
            ("SignedMessage::validate", guard(|| SignedMessage::decode(Bytes::copy_from_slice(&o.0), true).map(|m| (m.validate(key).is_ok(), m.validate_at(key, Time::now()).is_ok())).map_err(|e| e.to_string())).and_then(|x| x)),
            ("PublicationCms::validate", guard(|| PublicationCms::decode(&o.0).map(|m| (m.validate(key).is_ok(), m.validate_at(key, Time::now()).is_ok())).map_err(|e| e.to_string())).and_then(|x| x)),
            ("ProvisioningCms::validate", guard(|| ProvisioningCms::decode(&o.1).map(|m| (m.validate(key).is_ok(), m.validate_at(key, Time::now()).is_ok())).map_err(|e| e.to_string())).and_then(|x| x)),
            ("IdCert::validate_ee", guard(|| IdCert::decode(Bytes::copy_from_slice(&o.2)).map(|c| (c.validate_ee(key).is_ok(), c.validate_ee_at(key, Time::now()).is_ok())).map_err(|e| e.to_string())).and_then(|x| x)),
            ("IdCert::validate_ta", guard(|| IdCert::decode(Bytes::copy_from_slice(&o.3)).map(|c| (c.validate_ta().is_ok(), c.validate_ta_at(Time::now()).is_ok())).map_err(|e| e.to_string())).and_then(|x| x)),
        ]
    };
    // slow-signer plan
    let slow: Vec<(u8, usize)> = (0..3u8).flat_map(|k| (0..signer_calls(fx, k)).map(move |at| (k, at))).collect();
    type ClockRows = Vec<(String, &'static str, Result<(bool, bool), String>, bool)>;
    let (clock_rows, slow_rows): (Result<ClockRows, String>, Vec<Result<Vec<String>, String>>) = std::thread::scope(|sc| {
        let clock = sc.spawn(|| guard(|| -> Result<ClockRows, String> {
            let mut rows: ClockRows = Vec::new();
            let nap = |ms: u64| std::thread::sleep(std::time::Duration::from_millis(ms));
            let warm = { let t = sys_now() as i64; objects(t - 3600, t + 3600) };
            // (b1) a whole second B falls between a first call and the calls judged, less than half a second apart
            let mut found = false;
            for _attempt in 0..6 {
                let mut t0 = sys_now();
                let mut spins = 0;
                while (t0.fract() < 0.55 || t0.fract() > 0.8) && spins < 400 { nap(5); t0 = sys_now(); spins += 1 }
                let b = t0.floor() as i64 + 1;
                let (starting, ending) = (objects(b, b + 600), objects(b - 600, b));
                let first = wall(&warm);
                if sys_now() >= b as f64 { continue } // too late (the machine is busy): try the next second
                while sys_now() < b as f64 + 0.01 { nap(2) }
                let (srows, erows) = (wall(&starting), wall(&ending));
                if sys_now() < b as f64 + 0.01 { continue } // the clock was set back
                for (route, r) in first { rows.push(("first call, window of two hours around the system clock".into(), route, r, true)) }
                for (route, r) in srows { rows.push(("less than a second after a first call, window starting at the whole second in between".into(), route, r, true)) }
                for (route, r) in erows { rows.push(("less than a second after a first call, window ending at the whole second in between".into(), route, r, false)) }
                found = true;
                break
            }
            if !found { return Err("no second boundary could be hit between two calls (machine too busy)".into()) }
            // (b2) a long pause
            let t1 = sys_now();
            let ending = objects(t1 as i64 - 600, t1 as i64 + 1);
            nap(1200);
            let t2 = sys_now();
            if t2 - t1 < 1.15 { return Err(format!("the system clock advanced {:.3} s during a 1.2 s sleep", t2 - t1)) }
            let starting = objects(t2 as i64, t2 as i64 + 600);
            for (route, r) in wall(&starting) { rows.push(("after a 1.2 s pause, window starting at the current second".into(), route, r, true)) }
            for (route, r) in wall(&ending) { rows.push(("after a 1.2 s pause, window that ended one second after the earlier calls".into(), route, r, false)) }
            Ok(rows)
        }).and_then(|x| x));
        let slow_h: Vec<_> = slow.iter().map(|&(kind, at)| sc.spawn(move || guard(|| -> Vec<String> {
            let h = HookSigner::new(s, at, Hook::Sleep);
            let mut bad = Vec::new();
            let (b, via, mid) = match create_message(kind, &Kid(K_PEER), &h, &fx.content) { Ok(x) => x, Err(e) => return vec![format!("create failed: {e}")] };
            let ((nb, na), crl_w) = embedded_windows(&b);
            if crl_w != (nb, na) { bad.push(format!("EE window [{nb},{na}] but CRL window [{},{}]", crl_w.0, crl_w.1)) }
            if kind == 0 && (nb, na) != (T0 - W, T0 + W) { bad.push(format!("window [{nb},{na}] is not the validity given")) }
            if kind != 0 && !(600..=601).contains(&(na - nb)) { bad.push(format!("window of {} s", na - nb)) }
            for (t, want) in [(nb - 1, false), (nb, true), (mid, true), (na, true), (na + 1, false)] {
                let v = run(&b, &fx.peer, t, via);
                if v.accepted() != want { bad.push(format!("at notBefore{:+}s (EE window [{nb},{na}]): {}", t - nb, v.show())) }
            }
            if run(&b, &s.public(K_OTHER), mid, via).accepted() { bad.push("validates under another key".into()) }
            if kind != 0 {
                let now_ok = match via { Via::Provisioning => ProvisioningCms::decode(&b).map(|m| m.validate(&fx.peer).is_ok()).unwrap_or(false), _ => PublicationCms::decode(&b).map(|m| m.validate(&fx.peer).is_ok()).unwrap_or(false) };
                if !now_ok { bad.push("validate() right after creation rejects".into()) }
            }
            bad
        }))).collect();
        (clock.join().unwrap_or_else(|_| Err("thread panicked".into())), slow_h.into_iter().map(|h| h.join().unwrap_or_else(|_| Err("thread panicked".into()))).collect())
    });
    // (a)
    let here = env_lines(fx, subj);
    for (z, child) in children {
        let Some(child) = child else { ctx.machinery_error(format!("environment: cannot start the child process for TZ={z}")); continue };
        let out = match child.wait_with_output() { Ok(o) => o, Err(e) => { ctx.machinery_error(format!("environment: child for TZ={z}: {e}")); continue } };
        let there: Vec<String> = String::from_utf8_lossy(&out.stdout).lines().filter_map(|l| l.strip_prefix("ENV ").map(|x| x.to_string())).collect();
        if !out.status.success() || there.len() != here.len() { fail("C10.environment.tz", format!("TZ={z}"), format!("the child process ended with {:?} and printed {} of {} lines", out.status.code(), there.len(), here.len())); continue }
        for (a, b) in there.iter().zip(here.iter()) {
            sp.eval(); sp.outcome("time zone"); if z != "UTC0" { sp.nontrivial(1) }
            if a != b { fail("C10.environment.tz", format!("TZ={z} {}", b.split(" -> ").next().unwrap_or("")), format!("with TZ={z}: `{}`; in this process: `{}`", trunc(a.split(" -> ").nth(1).unwrap_or(a), 160), trunc(b.split(" -> ").nth(1).unwrap_or(b), 160))) }
        }
    }
    // the wall-clock lines must also be what the property says, not only equal
    for l in &here { if (l.starts_with("wall-clock creator") || l.starts_with("Time::now()")) && l.contains("false") { fail("C10.environment.clock", l.split(" -> ").next().unwrap_or("").to_string(), l.clone()) } }
    // (b)
    match clock_rows {
        Err(e) => if e.starts_with("panic") { fail("C10.no_panic", "environment: wall clock read again", e) } else { ctx.assume(&format!("environment (b) skipped: {e}")) },
        Ok(rows) => for (what, route, r, want) in rows {
            sp.eval(); sp.nontrivial(1); sp.outcome(if want { "wall clock: accepted" } else { "wall clock: rejected" });
            let wit = format!("{route} {what}");
            match r {
                Err(e) => fail(if e.starts_with("panic") { "C10.no_panic" } else { "C10.environment.clock" }, wit, e),
                Ok((w, a)) => {
                    if w != a { fail("C10.environment.clock", wit.clone(), format!("the wall-clock variant says ok={w}, the _at variant with Time::now() says ok={a}")) }
                    if w != want { fail("C10.environment.clock", wit, format!("the wall-clock variant says ok={w}; the window {} the current time", if want { "contains" } else { "ended before" })) }
                }
            }
        }
    }
    // (c)
    for (&(kind, at), r) in slow.iter().zip(slow_rows.iter()) {
        sp.eval(); sp.nontrivial(1); sp.outcome("slow signer");
        let wit = format!("{} with a signer sleeping 1.1 s in its call #{at}", MSG_KINDS[kind as usize]);
        match r { Err(p) => fail("C10.no_panic", wit, p.clone()), Ok(bad) => for b in bad { fail("C10.environment.slow_signer", wit.clone(), b.clone()) } }
    }
    sp.set("lines_per_zone", serde_json::json!(here.len()));
    sp.set("slow_signer_runs", serde_json::json!(slow.iter().map(|(k, at)| format!("{} call #{at}", MSG_KINDS[*k as usize])).collect::<Vec<_>>()));
    sp.sample_str(|| format!("TZ=YYY-14: {}", here[here.len() - 4]));
    sp.done(true, &format!("3 time zones x {} lines; 5 clock-reading variants x (1 first call + 2 windows across a second boundary + 2 windows around a 1.2 s pause); {} slow-signer runs", here.len(), slow.len()));
}

//------------ time interactions ---------------------------------------------------------------------------------

fn space_time_interactions(ctx: &Ctx, fx: &Fx) {
    let thorough = ctx.tier.is_thorough();
    let sp = ctx.space("interactions.time",
        "six instants chosen independently from one domain (quick {T0-600, -300, 0, +300, +600}, thorough also T0-1 and T0+1): EE notBefore x EE notAfter x CRL thisUpdate x CRL nextUpdate x signing-time (alone, and with a binary-signing-time of the same value) x evaluation instant, inverted and empty windows included, strict and relaxed decoding. Model: validates <=> notBefore <= t <= notAfter and thisUpdate <= t <= nextUpdate; the signing time has no say. non-trivial = evaluations in which the signing time lies outside the EE window or the two windows differ");
    let s = &fx.s;
    let dom: Vec<i64> = if thorough { vec![-600, -300, -1, 0, 1, 300, 600] } else { vec![-600, -300, 0, 300, 600] };
    let pairs: Vec<(i64, i64)> = dom.iter().flat_map(|&a| dom.iter().map(move |&b| (a, b))).collect();
    let ees: BTreeMap<(i64, i64), Vec<u8>> = pairs.par_iter().map(|&(nb, na)| ((nb, na), ee_cert(s, &EeSpec { serial: EE_SERIAL.to_vec(), nb: T0 + nb, na: T0 + na, subject_key: K_EE, sign_key: K_PEER, ski: None, aki: Some(s.key(K_PEER).ski.to_vec()), basic: Basic::Absent, key_usage_ext: false, issuer: 0, subject: 0 }))).collect();
    let crls: BTreeMap<(i64, i64), Vec<u8>> = pairs.par_iter().map(|&(th, nx)| ((th, nx), crl(s, &CrlSpec { this: T0 + th, next: T0 + nx, sign_key: K_PEER, revoked: Some(vec![]), aki: Some(s.key(K_PEER).ski.to_vec()), number: Some(9), unknown_ext: false, ext_block: true, ign: CrlIgn::DEFAULT, ee_serial: EE_SERIAL.to_vec() }))).collect();
    let signed: Vec<(i64, bool, Plan, Presigned)> = dom.iter().flat_map(|&st| [false, true].map(|bst| (st, bst))).map(|(st, bst)| {
        let mut p = Plan::base(); p.st_secs = T0 + st; if bst { p.extras = vec![Extra::Bst]; p.bst_secs = T0 + st }
        let ps = presign(fx, &p);
        (st, bst, p, ps)
    }).collect();
    let jobs: Vec<((i64, i64), (i64, i64))> = pairs.iter().flat_map(|&e| pairs.iter().map(move |&c| (e, c))).collect();
    let oc: Mutex<BTreeMap<&'static str, u64>> = Mutex::new(BTreeMap::new());
    let nt = Mutex::new(0u64);
    jobs.par_iter().for_each(|&((nb, na), (th, nx))| {
        let mut local: BTreeMap<&'static str, u64> = BTreeMap::new();
        let mut n = 0u64;
        for (st, bst, p, ps) in &signed {
            let bytes = wrap(fx, p, ps, false, &ees[&(nb, na)], &crls[&(th, nx)]);
            for &t in &dom { for via in [Via::Strict, Via::Relaxed] {
                let v = run(&bytes, &fx.peer, T0 + t, via);
                *local.entry(v.class()).or_insert(0) += 1;
                let want = nb <= t && t <= na && th <= t && t <= nx;
                if *st < nb || *st > na || (nb, na) != (th, nx) { n += 1 }
                expect(ctx, "C10.interactions.time.accept", "C10.interactions.time.reject", want, &v, || format!("foreign order=ct,md,st EE window=[T0{nb:+}s,T0{na:+}s] CRL window=[T0{th:+}s,T0{nx:+}s] signing-time=T0{st:+}s binary-signing-time={} via={via:?} when=T0{t:+}s", if *bst { "same" } else { "absent" }));
            }}
        }
        sp.evals((signed.len() * dom.len() * 2) as u64);
        *nt.lock().unwrap() += n;
        let mut g = oc.lock().unwrap(); for (k, v) in local { *g.entry(k).or_insert(0) += v }
    });
    sp.merge_outcomes(&oc.lock().unwrap());
    sp.nontrivial(*nt.lock().unwrap());
    sp.set("domain", serde_json::json!(dom.iter().map(|d| format!("T0{d:+}s")).collect::<Vec<_>>()));
    sp.sample_str(|| "EE window=[T0-300s,T0+300s] CRL window=[T0-600s,T0+600s] signing-time=T0+600s when=T0+300s -> validated (the signing time has no say)".to_string());
    sp.done(true, &format!("{0}^2 EE windows x {0}^2 CRL windows x {0} signing times x 2 x {0} instants x 2 decoders", dom.len()));
}

//============ round 11: parts with independent issuers in sequence, identifier relations, tampering after a success ====

/// Runs `f` on an OS thread of its own (fresh thread-locals), guarded.
fn on_own_thread<T: Send>(f: impl FnOnce() -> T + Send) -> Result<T, String> {
    std::thread::scope(|sc| sc.spawn(|| guard(f)).join()).unwrap_or_else(|_| Err("the thread panicked outside the guard".into()))
}

/// A message assembled from parts whose issuers are chosen independently. Issuer / key 0 = A (the peer key,
/// pool key 0), 1 = B (pool key 1). aki: 0 = extension absent, 1 = the issuer's key identifier, 2 = the other
/// key's identifier. ee_key / signer: 0 = pool key 3, 1 = pool key 4 (the sid follows the certificate).
#[derive(Clone, Copy, Debug, PartialEq, Eq, PartialOrd, Ord)]
struct PartsMsg { ee_issuer: u8, ee_aki: u8, ee_key: u8, signer: u8, crl_issuer: u8, crl_aki: u8 }

const AB: [usize; 2] = [K_PEER, K_OTHER];
const AB_NAME: [&str; 2] = ["A", "B"];

impl PartsMsg {
    fn show(&self) -> String {
        let aki = |issuer: u8, a: u8| match a { 0 => "absent".to_string(), 1 => AB_NAME[issuer as usize].to_string(), _ => AB_NAME[1 - issuer as usize].to_string() };
        format!("msg{{EE certificate: issued-by={} aki={} key=E{}; attributes signed-by=E{}; CRL: issued-by={} aki={}}}",
            AB_NAME[self.ee_issuer as usize], aki(self.ee_issuer, self.ee_aki), self.ee_key + 1, self.signer + 1, AB_NAME[self.crl_issuer as usize], aki(self.crl_issuer, self.crl_aki))
    }
    /// The property's verdict under key `k` at T0.
    fn model(&self, k: u8) -> bool { self.ee_issuer == k && self.crl_issuer == k && self.signer == self.ee_key && self.ee_aki != 2 && self.crl_aki != 2 }
    fn shares_part_with(&self, o: &PartsMsg) -> bool {
        (self.ee_issuer, self.ee_aki, self.ee_key) == (o.ee_issuer, o.ee_aki, o.ee_key) || (self.crl_issuer, self.crl_aki) == (o.crl_issuer, o.crl_aki)
    }
}

fn parts_messages(fx: &Fx, akis: &[u8], split_signer: bool) -> Vec<(PartsMsg, Vec<u8>)> {
    let s = &fx.s;
    let aki_of = |issuer: u8, a: u8| match a { 0 => None, 1 => Some(s.key(AB[issuer as usize]).ski.to_vec()), _ => Some(s.key(AB[1 - issuer as usize]).ski.to_vec()) };
    let mut ees: BTreeMap<(u8, u8, u8), Vec<u8>> = BTreeMap::new();
    let mut crls: BTreeMap<(u8, u8), Vec<u8>> = BTreeMap::new();
    for issuer in 0..2u8 { for &a in akis {
        for key in 0..2u8 {
            ees.insert((issuer, a, key), ee_cert(s, &EeSpec { serial: EE_SERIAL.to_vec(), nb: T0 - W, na: T0 + W, subject_key: [K_EE, K_EE2][key as usize], sign_key: AB[issuer as usize], ski: None,
                aki: aki_of(issuer, a), basic: Basic::Absent, key_usage_ext: false, issuer: 0, subject: 0 }));
        }
        crls.insert((issuer, a), crl(s, &CrlSpec { this: T0 - W, next: T0 + W, sign_key: AB[issuer as usize], revoked: Some(vec![]), aki: aki_of(issuer, a), number: Some(42), unknown_ext: false, ext_block: true,
            ign: CrlIgn::DEFAULT, ee_serial: EE_SERIAL.to_vec() }));
    }}
    let base = Plan::base();
    let signed: Vec<Presigned> = [SigV::Ok, SigV::OtherKey].iter().map(|sv| { let mut p = Plan::base(); p.sig = *sv; presign(fx, &p) }).collect();
    let mut v = Vec::new();
    for ee_issuer in 0..2u8 { for &ee_aki in akis { for ee_key in 0..2u8 { for signer in 0..2u8 { for crl_issuer in 0..2u8 { for &crl_aki in akis {
        if !split_signer && signer != ee_key { continue }
        let m = PartsMsg { ee_issuer, ee_aki, ee_key, signer, crl_issuer, crl_aki };
        v.push((m, wrap(fx, &base, &signed[signer as usize], ee_key == 1, &ees[&(ee_issuer, ee_aki, ee_key)], &crls[&(crl_issuer, crl_aki)])));
    }}}}}}
    v
}

fn space_history_parts(ctx: &Ctx, fx: &Fx) {
    let thorough = ctx.tier.is_thorough();
    let sp = ctx.space("history.parts",
        "what happened before on the same thread, for messages that SHARE PARTS: messages assembled by the independent encoder from parts with independently chosen issuers - EE certificate issued by key A or B, with its AKI extension absent / naming its issuer (thorough: / naming the other key), certifying EE key E1 or E2; signed attributes signed by E1 or E2; CRL issued by A or B with its AKI absent / naming its issuer (thorough: / the other key) - all 64 (thorough 144) messages, every one validated under A and under B: 128 (288) operations. Equal parts are octet-identical in all messages that carry them. On a NEW OS thread: every ordered pair of operations (the second through SignedMessage strict and then through PublicationCms); thorough: also every ordered triple of the 64 operations whose attributes are signed by the certified key. Every operation after the first must validate or not exactly as the same operation does as the first thing on a thread of its own (a rejection for another reason is counted, not judged), and that one must be the property's: validated <=> EE certificate and CRL both issued by the key asked for, attributes signed by the certified key, no AKI naming another key. non-trivial = sequences in which an earlier operation validated and the last operation is another (message, key) sharing its EE certificate or its CRL");
    let akis: Vec<u8> = if thorough { vec![0, 1, 2] } else { vec![0, 1] };
    let msgs = parts_messages(fx, &akis, true);
    let ops: Vec<(usize, u8)> = (0..msgs.len()).flat_map(|m| [(m, 0u8), (m, 1u8)]).collect();
    let op_show = |o: &(usize, u8)| format!("validate {} under key {}", msgs[o.0].0.show(), AB_NAME[o.1 as usize]);
    let eval = |o: &(usize, u8), via: Via| run(&msgs[o.0].1, &fx.s.public(AB[o.1 as usize]), T0, via).show().replace('\n', " ");
    // baseline: every operation, each route, first thing on its own thread
    let base: Vec<[String; 2]> = ops.par_iter().map(|o| [Via::Strict, Via::Publication].map(|via| on_own_thread(|| eval(o, via)).unwrap_or_else(|p| p))).collect();
    for (o, b) in ops.iter().zip(base.iter()) { for (r, via) in [Via::Strict, Via::Publication].iter().enumerate() {
        sp.eval(); sp.outcome(if b[r] == "validated" { "alone: validated" } else { "alone: rejected" });
        let want = msgs[o.0].0.model(o.1);
        if b[r].starts_with("panic") { fail("C10.no_panic", format!("alone on a new thread: {} via={via:?} when=T0", op_show(o)), b[r].clone()) }
        else if (b[r] == "validated") != want { fail("C10.history.fresh", format!("alone on a new thread: {} via={via:?} when=T0", op_show(o)), format!("the property says {}, observed: {}", if want { "validated" } else { "rejected" }, trunc(&b[r], 200))) }
    }}
    let mut seqs: Vec<Vec<usize>> = Vec::new();
    for a in 0..ops.len() { for b in 0..ops.len() { seqs.push(vec![a, b]) } }
    let mut n_triple_ops = 0;
    if thorough {
        let small: Vec<usize> = ops.iter().enumerate().filter(|(_, o)| { let m = &msgs[o.0].0; m.signer == m.ee_key && m.ee_aki < 2 && m.crl_aki < 2 }).map(|(i, _)| i).collect();
        n_triple_ops = small.len();
        for &a in &small { for &b in &small { for &c in &small { seqs.push(vec![a, b, c]) } } }
    }
    let (n_eval, n_nt, n_acc, n_rej, n_reason) = (AtomicUsize::new(0), AtomicUsize::new(0), AtomicUsize::new(0), AtomicUsize::new(0), AtomicUsize::new(0));
    seqs.par_iter().for_each(|sq| {
        let wit = |upto: usize, via: Via| format!("new thread, first: {}; then: {} via={via:?} when=T0", sq[..upto].iter().map(|&i| op_show(&ops[i])).collect::<Vec<_>>().join("; then: "), op_show(&ops[sq[upto]]));
        let r = on_own_thread(|| {
            let mut obs: Vec<String> = sq.iter().map(|&i| eval(&ops[i], Via::Strict)).collect();
            obs.push(eval(&ops[*sq.last().unwrap()], Via::Publication));
            obs
        });
        let last = *sq.last().unwrap();
        match r {
            Err(p) => fail("C10.no_panic", wit(sq.len() - 1, Via::Strict), p),
            Ok(obs) => {
                n_eval.fetch_add(obs.len(), Ordering::Relaxed);
                // judged: validated or not (what the property speaks about); a rejection for another reason than alone is counted
                let mut cmp = |got: &String, alone: &String, w: String| {
                    if got.starts_with("panic") { fail("C10.no_panic", w, got.clone()) }
                    else if (got == "validated") != (alone == "validated") { fail("C10.history.independent", w, format!("observed `{}`, alone on a new thread the operation gives `{}`", trunc(got, 160), trunc(alone, 160))) }
                    else if got != alone { n_reason.fetch_add(1, Ordering::Relaxed); }
                };
                for (pos, &i) in sq.iter().enumerate().skip(1) { cmp(&obs[pos], &base[i][0], wit(pos, Via::Strict)) }
                cmp(&obs[sq.len()], &base[last][1], wit(sq.len() - 1, Via::Publication));
                if obs[sq.len() - 1] == "validated" { n_acc.fetch_add(1, Ordering::Relaxed); } else { n_rej.fetch_add(1, Ordering::Relaxed); }
                let lm = &msgs[ops[last].0].0;
                if sq[..sq.len() - 1].iter().any(|&i| i != last && base[i][0] == "validated" && msgs[ops[i].0].0.shares_part_with(lm)) { n_nt.fetch_add(1, Ordering::Relaxed); }
            }
        }
    });
    sp.evals(n_eval.load(Ordering::Relaxed) as u64);
    sp.nontrivial(n_nt.load(Ordering::Relaxed) as u64);
    sp.outcomes_n("last operation validated", n_acc.load(Ordering::Relaxed) as u64);
    sp.outcomes_n("last operation rejected", n_rej.load(Ordering::Relaxed) as u64);
    sp.set("messages", serde_json::json!(msgs.len()));
    sp.set("operations", serde_json::json!(ops.len()));
    sp.set("rejected_for_another_reason_than_alone", serde_json::json!(n_reason.load(Ordering::Relaxed)));
    sp.sample_str(|| format!("new thread, first: {}; then: {} -> rejected as on a thread of its own (B never signed that certificate)",
        op_show(&(msgs.iter().position(|(m, _)| *m == PartsMsg { ee_issuer: 0, ee_aki: 0, ee_key: 0, signer: 0, crl_issuer: 0, crl_aki: 1 }).unwrap_or(0), 0)),
        op_show(&(msgs.iter().position(|(m, _)| *m == PartsMsg { ee_issuer: 0, ee_aki: 0, ee_key: 0, signer: 0, crl_issuer: 1, crl_aki: 1 }).unwrap_or(0), 1))));
    sp.done(true, &format!("{} messages x 2 keys = {} operations; all {} ordered pairs{}, each on a new OS thread, last operation through 2 decoders", msgs.len(), ops.len(), ops.len() * ops.len(),
        if thorough { format!(" and all {}^3 ordered triples of the operations with consistent attribute signer", n_triple_ops) } else { String::new() }));
}

//------------ identifier relations of additional signed attributes ---------------------------------------------------

fn dotted(a: &[u64]) -> String { a.iter().map(|x| x.to_string()).collect::<Vec<_>>().join(".") }

const PKCS9: [u64; 6] = [1, 2, 840, 113549, 1, 9];
const MANDATORY_ATTRS: [(&str, u64); 3] = [("contentType", 3), ("messageDigest", 4), ("signingTime", 5)];

/// Attribute types chosen by their RELATION to the three mandatory types 1.2.840.113549.1.9.{3,4,5}
/// (none of them is one of the three): OID -> the relation it was first generated by.
fn related_oids() -> BTreeMap<Vec<u64>, String> {
    let mand: Vec<Vec<u64>> = MANDATORY_ATTRS.iter().map(|(_, x)| { let mut v = PKCS9.to_vec(); v.push(*x); v }).collect();
    let mut out: BTreeMap<Vec<u64>, String> = BTreeMap::new();
    let mut add = |o: Vec<u64>, rel: String| {
        let ok = o.len() >= 2 && o[0] <= 2 && (o[0] == 2 || o[1] < 40) && !mand.contains(&o);
        if ok { out.entry(o).or_insert(rel); }
    };
    for k in 2..=6 { add(PKCS9[..k].to_vec(), "proper prefix of the mandatory types".into()) }
    let inner: [u64; 3] = [2, 16, 200];
    let lasts: [u64; 8] = [0, 3, 4, 5, 46, 131, 132, 133];
    for (name, x) in MANDATORY_ATTRS {
        let m: Vec<u64> = { let mut v = PKCS9.to_vec(); v.push(x); v };
        // extensions of the mandatory type by 1..=3 arcs
        for &l in &lasts { let mut o = m.clone(); o.push(l); add(o, format!("{name} extended by 1 arc")) }
        for &a in &inner { for &l in &lasts { let mut o = m.clone(); o.extend([a, l]); add(o, format!("{name} extended by 2 arcs")) } }
        for &a in &inner[..2] { for &b in &inner[..2] { for l in [3u64, 4, 5] { let mut o = m.clone(); o.extend([a, b, l]); add(o, format!("{name} extended by 3 arcs")) } } }
        // one arc changed, at every position
        let alts: [Vec<u64>; 7] = [vec![0, 2], vec![0, 1, 3, 39], vec![839, 841, 712, 968], vec![113548, 113550, 113421, 113677, 129933], vec![0, 2, 129], vec![8, 10, 137, 7],
            vec![0, 1, 2, 6, 7, 8, 9, x + 128, x + 256, x + 16384, x + 8]];
        for (pos, vals) in alts.iter().enumerate() { for &v in vals { let mut o = m.clone(); o[pos] = v; add(o, format!("{name} with arc {} changed", pos + 1)) } }
        // one arc dropped / one arc inserted, at every position from the third on
        for pos in 2..7 { let mut o = m.clone(); o.remove(pos); add(o, format!("{name} with arc {} dropped", pos + 1)) }
        for pos in 2..7 { for v in [0u64, 9, x] { let mut o = m.clone(); o.insert(pos, v); add(o, format!("{name} with an arc inserted before arc {}", pos + 1)) } }
        // the last arcs of the mandatory type under another root
        for root in [&[1u64, 3, 6, 1, 4, 1, 99999][..], &[2, 5, 29], &[1, 2, 840, 113549, 1, 7], &[1, 2, 840, 113549, 1, 1], &[1, 2, 840, 10045], &[1, 3]] {
            for k in 1..=4 { let mut o = root.to_vec(); o.extend(&m[7 - k..]); add(o, format!("the last {k} arc(s) of {name} under {}", dotted(root))) }
        }
    }
    // other types below the shared arc 1.2.840.113549.1.9 that end in the last arc (or the last octet) of a mandatory type
    for mid in inner.iter().map(|a| vec![*a]).chain(inner.iter().flat_map(|a| inner.iter().map(move |b| vec![*a, *b]))).chain([vec![25u64], vec![52]]) {
        for l in [3u64, 4, 5, 131, 132, 133] { let mut o = PKCS9.to_vec(); o.extend(&mid); o.push(l); add(o, "below 1.2.840.113549.1.9 through other arcs, ending like a mandatory type".into()) }
    }
    out
}

const VALUE_SHAPES: [&str; 9] = ["1-octet OCTET STRING", "the content type OID", "another OID", "OCTET STRING equal to the message digest", "another 32-octet OCTET STRING",
    "time equal to the signing time", "SEQUENCE { UTF8String, OID } (content hints)", "two OCTET STRINGs", "200-octet OCTET STRING"];

fn shape_values(fx: &Fx, shape: usize) -> Vec<Vec<u8>> {
    match shape {
        0 => vec![der::octets(&[7])],
        1 => vec![der::oid(der::OID_CT_PROTOCOL)],
        2 => vec![der::oid(der::OID_CT_ROA)],
        3 => vec![der::octets(&sha256(&fx.content))],
        4 => vec![der::octets(&[0x5a; 32])],
        5 => vec![der::time_auto(civil(T0 - 60))],
        6 => vec![der::seq(&[der::utf8("xml"), der::oid(der::OID_CT_PROTOCOL)])],
        7 => vec![der::octets(&[1]), der::octets(&[2])],
        _ => vec![der::octets(&(0..200).map(|i| (i * 7 + 3) as u8).collect::<Vec<_>>())],
    }
}

fn space_attrs_relation(ctx: &Ctx, fx: &Fx) {
    let thorough = ctx.tier.is_thorough();
    let sp = ctx.space("attrs.oid_relation",
        "additional signed attributes whose TYPE is chosen by its relation to the three mandatory types 1.2.840.113549.1.9.{3 contentType, 4 messageDigest, 5 signingTime}: every proper prefix; each mandatory type extended by 1, 2 or 3 arcs (inner arcs {2, 16, 200}, last arc {0, 3, 4, 5, 46, 131, 132, 133} - 131..133 are two-octet arcs whose last octet is 3..5); one arc changed at every one of the seven positions (neighbours, values with the same last octet in a two- or three-octet encoding, other small last arcs); one arc dropped / inserted at every position; the last 1..=4 arcs of a mandatory type under six other roots; other types below 1.2.840.113549.1.9 ending in 3 / 4 / 5 or in an arc whose last octet is that (id-aa-contentHint 1.2.840.113549.1.9.16.2.4 among them) - every such OID x 9 value shapes (1-octet string, the content type's OID, another OID, a copy of the message digest, another 32 octets, a copy of the signing time, SEQUENCE { UTF8String, OID }, two values, 200 octets) x placed before / after the mandatory attributes (thorough: at all four positions), correctly signed over all attributes: must validate (SignedMessage strict, relaxed, PublicationCms). Negative half: the same OIDs carrying the genuine value IN PLACE OF the mandatory attribute: without a messageDigest (contentType) attribute the message must not validate; without signingTime the outcome is counted only. non-trivial = distinct (OID, value shape) pairs");
    let oids = related_oids();
    let oid_list: Vec<(&Vec<u64>, &String)> = oids.iter().collect();
    let p0 = Plan::base();
    let (mandatory, _) = plan_attrs(fx, &p0);
    let cache = Cache::new();
    let (ee, crl_der) = (cache.ee(fx, &p0), cache.crl(fx, &p0));
    let positions: Vec<usize> = if thorough { vec![0, 1, 2, 3] } else { vec![0, 3] };
    let build = |attrs: Vec<Vec<u8>>| -> Vec<u8> {
        let signature = fx.s.sign_raw(K_EE, &der::signed_attrs_tbs(&attrs));
        wrap(fx, &p0, &Presigned { attrs, signature }, false, &ee, &crl_der)
    };
    let vias = [Via::Strict, Via::Relaxed, Via::Publication];
    let oc: Mutex<BTreeMap<&'static str, u64>> = Mutex::new(BTreeMap::new());
    let jobs: Vec<(usize, usize, usize)> = (0..oid_list.len()).flat_map(|o| (0..VALUE_SHAPES.len()).flat_map(move |s| [o].into_iter().map(move |o| (o, s)))).flat_map(|(o, s)| positions.iter().map(move |&p| (o, s, p))).collect();
    jobs.par_iter().for_each(|&(o, shape, pos)| {
        let (arcs, rel) = oid_list[o];
        let mut attrs = mandatory.clone();
        attrs.insert(pos, der::attribute(arcs, &shape_values(fx, shape)));
        let bytes = build(attrs);
        let mut local: BTreeMap<&'static str, u64> = BTreeMap::new();
        for via in vias {
            let v = run(&bytes, &fx.peer, T0, via);
            *local.entry(v.class()).or_insert(0) += 1;
            expect(ctx, "C10.attrs.relation.accept", "-", true, &v, || format!("foreign order=ct,md,st all conditions hold; one more signed attribute at position {pos} of 4: type={} ({rel}) value={} via={via:?} when=T0", dotted(arcs), VALUE_SHAPES[shape]));
        }
        sp.evals(vias.len() as u64);
        let mut g = oc.lock().unwrap(); for (k, v) in local { *g.entry(k).or_insert(0) += v }
    });
    // negative half: the look-alike in place of the mandatory attribute
    let genuine: [Vec<Vec<u8>>; 3] = [shape_values(fx, 1), shape_values(fx, 3), shape_values(fx, 5)];
    let njobs: Vec<(usize, usize)> = (0..oid_list.len()).flat_map(|o| (0..3).map(move |r| (o, r))).collect();
    njobs.par_iter().for_each(|&(o, replaced)| {
        let (arcs, rel) = oid_list[o];
        let mut attrs = mandatory.clone();
        attrs[replaced] = der::attribute(arcs, &genuine[replaced]);
        let bytes = build(attrs);
        let mut local: BTreeMap<&'static str, u64> = BTreeMap::new();
        for via in vias {
            let v = run(&bytes, &fx.peer, T0, via);
            let wit = || format!("foreign three signed attributes, {} replaced by type={} ({rel}) carrying the genuine value via={via:?} when=T0", MANDATORY_ATTRS[replaced].0, dotted(arcs));
            match replaced {
                0 => { *local.entry(v.class()).or_insert(0) += 1; expect(ctx, "-", "C10.attrs.relation.profile.reject", false, &v, wit) }
                1 => { *local.entry(v.class()).or_insert(0) += 1; expect(ctx, "-", "C10.attrs.relation.reject", false, &v, wit) }
                _ => {
                    *local.entry(match &v { Verdict::Accept => "no-signing-time-validated", Verdict::Panic(_) => "panic", _ => "no-signing-time-rejected" }).or_insert(0) += 1;
                    if let Verdict::Panic(pn) = &v { fail("C10.no_panic", wit(), pn.clone()) }
                }
            }
        }
        sp.evals(vias.len() as u64);
        let mut g = oc.lock().unwrap(); for (k, v) in local { *g.entry(k).or_insert(0) += v }
    });
    sp.merge_outcomes(&oc.lock().unwrap());
    sp.nontrivial((oid_list.len() * VALUE_SHAPES.len()) as u64);
    let mut per_rel: BTreeMap<String, u64> = BTreeMap::new();
    for r in oids.values() { let k = r.replace("contentType", "<m>").replace("messageDigest", "<m>").replace("signingTime", "<m>"); *per_rel.entry(k).or_insert(0) += 1 }
    sp.set("oids", serde_json::json!(oid_list.len()));
    sp.set("oids_per_relation", serde_json::json!(per_rel));
    sp.sample_str(|| format!("{} related attribute types, e.g. {}", oid_list.len(), oid_list.iter().step_by(oid_list.len() / 12 + 1).map(|(a, _)| dotted(a)).collect::<Vec<_>>().join(", ")));
    sp.done(true, &format!("{} attribute types x {} value shapes x {} positions x 3 decoders; {} types x 3 replaced mandatory attributes x 3 decoders", oid_list.len(), VALUE_SHAPES.len(), positions.len(), oid_list.len()));
}

//------------ tampering after a genuine success on the same thread ---------------------------------------------------

/// A range of the message every octet of which is covered by a signature (or is signature value itself),
/// and the origin of the word grid laid over it.
struct TamperField { name: &'static str, start: usize, end: usize, origin: usize }

fn tamper_fields(bytes: &[u8]) -> Vec<TamperField> {
    let root = der::parse_one(bytes, false).expect("message of the independent encoder parses");
    let sd = &root.children[1].children[0];
    let mut f = Vec::new();
    let ec = &sd.children[2].children[1].children[0];
    f.push(TamperField { name: "eContent", start: ec.start + ec.hdr, end: ec.end(), origin: ec.start + ec.hdr });
    for (tag, names) in [(0xA0u8, ["EE certificate TBS", "EE certificate signature", "EE certificate signature (grid of the TBS)", "EE certificate TBS..signature"]), (0xA1, ["CRL TBS", "CRL signature", "CRL signature (grid of the TBS)", "CRL TBS..signature"])] {
        let Some(holder) = sd.children.iter().find(|n| n.tag == tag) else { continue };
        let obj = &holder.children[0];
        let (tbs, sig) = (&obj.children[0], &obj.children[2]);
        let sig_start = sig.start + sig.hdr + 1;
        f.push(TamperField { name: names[0], start: tbs.start, end: tbs.end(), origin: tbs.start });
        f.push(TamperField { name: names[1], start: sig_start, end: sig.end(), origin: sig_start });
        f.push(TamperField { name: names[2], start: sig_start, end: sig.end(), origin: tbs.start });
        f.push(TamperField { name: names[3], start: tbs.start, end: sig.end(), origin: tbs.start });
    }
    let si = &sd.children[sd.children.len() - 1].children[0];
    let attrs = &si.children[3];
    f.push(TamperField { name: "signedAttrs", start: attrs.start + attrs.hdr, end: attrs.end(), origin: attrs.start + attrs.hdr });
    let md_oid = der::oid(der::OID_MESSAGE_DIGEST);
    if let Some(a) = attrs.children.iter().find(|a| a.children[0].whole(bytes) == md_oid.as_slice()) {
        let v = &a.children[1].children[0];
        f.push(TamperField { name: "messageDigest value", start: v.start + v.hdr, end: v.end(), origin: v.start + v.hdr });
    }
    let sig = &si.children[5];
    f.push(TamperField { name: "SignerInfo signature", start: sig.start + sig.hdr, end: sig.end(), origin: sig.start + sig.hdr });
    f
}

/// Ranges whose every octet is signed content or signature value: a variant must touch one of them to be judged.
fn protected_ranges(bytes: &[u8]) -> Vec<(usize, usize)> {
    tamper_fields(bytes).iter().filter(|f| !f.name.contains("..")).map(|f| (f.start, f.end)).collect()
}

#[derive(Clone, Debug)]
struct Variant { what: String, bytes: Vec<u8> }

/// Changes that a checksum folding aligned words (xor, sum, any symmetric function) cannot see: the same bit
/// flipped in two words, +1 in one word and -1 in another, two words exchanged.
fn fold_colliding(bytes: &[u8], fld: &TamperField, all_bits: bool) -> Vec<Variant> {
    let mut out = Vec::new();
    for w in [1usize, 2, 4, 8] {
        // complete words of the grid inside the field
        let first = fld.origin + (fld.start - fld.origin).div_ceil(w) * w;
        if fld.end < first + 2 * w { continue }
        let n = (fld.end - first) / w;
        let mut idx: BTreeSet<usize> = BTreeSet::new();
        for i in [0, 1, 2, n / 2, n - 2, n - 1] { if i < n { idx.insert(i); } }
        let idx: Vec<usize> = idx.into_iter().collect();
        let bits: Vec<usize> = if all_bits { (0..8 * w).collect() } else { vec![0, 8 * w - 1] };
        for (a, &i) in idx.iter().enumerate() { for &j in &idx[a + 1..] {
            let (pi, pj) = (first + i * w, first + j * w);
            let place = format!("words #{i} and #{j} of {w} octet(s) (message octets {pi}.. and {pj}..) of the {}", fld.name);
            for &b in &bits {
                let mut m = bytes.to_vec();
                m[pi + b / 8] ^= 0x80 >> (b % 8); m[pj + b / 8] ^= 0x80 >> (b % 8);
                out.push(Variant { what: format!("bit {b} flipped in {place}"), bytes: m });
            }
            for dir in [false, true] {
                let mut m = bytes.to_vec();
                let (up, down) = if dir { (pj, pi) } else { (pi, pj) };
                for k in (0..w).rev() { m[up + k] = m[up + k].wrapping_add(1); if m[up + k] != 0 { break } }
                for k in (0..w).rev() { m[down + k] = m[down + k].wrapping_sub(1); if m[down + k] != 0xff { break } }
                out.push(Variant { what: format!("+1 / -1 (big-endian) in {place}{}", if dir { ", the other way round" } else { "" }), bytes: m });
            }
            let mut m = bytes.to_vec();
            for k in 0..w { m.swap(pi + k, pj + k) }
            if m != bytes { out.push(Variant { what: format!("exchanged {place}"), bytes: m }) }
        }}
    }
    out
}

fn space_history_tamper(ctx: &Ctx, fx: &Fx) {
    let thorough = ctx.tier.is_thorough();
    let sp = ctx.space("history.tamper",
        "tampering AFTER a genuine success on the same thread: a message that validates under the peer key is validated on a new OS thread, then a tampered copy of it, then the genuine message again. Tampered copies: (1) every single-bit flip (32 flips per thread); (2) for every signed part {eContent, EE certificate TBS, its signature value, CRL TBS, its signature value, signed attributes, messageDigest value, SignerInfo signature value; the signature values also on the word grid of their TBS, and TBS..signature as one range: 12 parts} and word sizes 1, 2, 4, 8 octets (grid starting at the part): all pairs out of the words {#0, #1, #2, middle, last-1, last} x {the same bit flipped in both (quick: first and last bit of the word, thorough: every bit), +1 in one and -1 in the other (both directions), the two words exchanged} - changes invisible to any checksum that folds aligned words (one thread per copy). Every copy touches signed octets or signature value, so it must never validate; the genuine message must validate before and after. Messages: foreign with 3 signed attributes (thorough: also library-created, and foreign with 4 attributes, no AKI). non-trivial = tampered copies");
    let cache = Cache::new();
    let s = &fx.s;
    let mut objs: Vec<(String, Vec<u8>)> = vec![("foreign-3-attrs".into(), cache.build(fx, &Plan::base()))];
    if thorough {
        if let Ok(Ok((b, _, _))) = guard(|| create_message(0, &s.kid(K_PEER), s, &fx.content)) { objs.push(("library-created".into(), b)) }
        let mut p = Plan::base(); p.ee = EeV::NoAki; p.crl = CrlV::NoAki; p.extras = vec![Extra::Unk100];
        objs.push(("foreign-4-attrs-no-aki".into(), cache.build(fx, &p)));
    }
    let oc: Mutex<BTreeMap<&'static str, u64>> = Mutex::new(BTreeMap::new());
    for (nm, bytes) in &objs {
        let protected = protected_ranges(bytes);
        let touches = |m: &[u8]| m.len() == bytes.len() && protected.iter().any(|&(a, b)| m[a..b] != bytes[a..b]);
        // (variant list, genuine message re-validated before each variant?)
        let mut groups: Vec<Vec<Variant>> = Vec::new();
        let flips: Vec<Variant> = (0..bytes.len() * 8).map(|bit| { let mut m = bytes.clone(); m[bit / 8] ^= 0x80 >> (bit % 8); Variant { what: format!("octet={} mask={:#04x}", bit / 8, 0x80u8 >> (bit % 8)), bytes: m } }).collect();
        for c in flips.chunks(32) { groups.push(c.to_vec()) }
        let n_flips = flips.len();
        let mut n_fold = 0;
        for fld in tamper_fields(bytes) { for v in fold_colliding(bytes, &fld, thorough) { if touches(&v.bytes) { n_fold += 1; groups.push(vec![v]) } } }
        groups.par_iter().for_each(|g| {
            let judged_all = g.len() == 1; // single flips anywhere are judged as tamper.bitflip does; fold variants touch protected octets
            let r = on_own_thread(|| {
                let mut obs = vec![run(bytes, &fx.peer, T0, Via::Strict)];
                for v in g { obs.push(run(&v.bytes, &fx.peer, T0, Via::Strict)) }
                obs.push(run(bytes, &fx.peer, T0, Via::Strict));
                obs
            });
            let _ = judged_all;
            let mut local: BTreeMap<&'static str, u64> = BTreeMap::new();
            match r {
                Err(p) => fail("C10.no_panic", format!("new thread: {nm} validated under the peer key at T0, then tampered copies starting with: {}", g[0].what), p),
                Ok(obs) => {
                    for (k, which) in [(0usize, "first"), (obs.len() - 1, "again after the tampered copies")] {
                        *local.entry(if obs[k].accepted() { "genuine validated" } else { "genuine rejected" }).or_insert(0) += 1;
                        if !obs[k].accepted() { fail("C10.history.independent", format!("new thread: {nm} untouched, validated {which} ({}) via=Strict when=T0", g[0].what), format!("the genuine message gives `{}`", trunc(&obs[k].show(), 160))) }
                    }
                    for (v, o) in g.iter().zip(obs[1..].iter()) {
                        *local.entry(match o { Verdict::Accept => "tampered validated", Verdict::Decode(_) => "tampered refused at decode", Verdict::Invalid(_) => "tampered rejected at validation", Verdict::Panic(_) => "panic" }).or_insert(0) += 1;
                        let wit = || format!("new thread, first: {nm} untouched ({} octets) validated under the peer key; then the copy with {} via=Strict when=T0", bytes.len(), v.what);
                        match o { Verdict::Accept => fail("C10.history.tamper.reject", wit(), "the tampered copy validated after the genuine message had validated on the same thread"), Verdict::Panic(p) => fail("C10.no_panic", wit(), p.clone()), _ => {} }
                    }
                    sp.evals(obs.len() as u64);
                }
            }
            let mut gl = oc.lock().unwrap(); for (k, v) in local { *gl.entry(k).or_insert(0) += v }
        });
        sp.nontrivial((n_flips + n_fold) as u64);
        sp.set(&format!("copies_{nm}"), serde_json::json!(format!("{n_flips} single-bit flips, {n_fold} fold-colliding changes over {} parts", tamper_fields(bytes).len())));
    }
    sp.merge_outcomes(&oc.lock().unwrap());
    sp.sample_str(|| "new thread: foreign-3-attrs validated; then the copy with bit 0 flipped in words #0 and #1 of 8 octet(s) of the EE certificate signature -> rejected; genuine again -> validated".to_string());
    sp.done(true, &format!("{} message(s): every single-bit flip + every fold-colliding change over 12 parts x 4 word sizes x 15 word pairs x ({} bits + 2 + 1), after a genuine success on a new thread", objs.len(), if thorough { "all" } else { "2" }));
}

//------------ main -------------------------------------------------------------------------------

//============ round 13: the number of earlier successful calls on ONE live signer =======================================
//
// Every other space makes a handful of messages per signer instance. Here one instance of the library's own
// `SoftSigner` lives through N creations in a row (and, in one instance, through N rounds of other signer calls in
// between), and every single message is judged by the ordinary oracle of the `created.*` spaces. Key generation costs
// ~0.1 s per message, so the instances run on background threads of their own from the start of the explorer to its end.

/// 0 and k-1, k, k+1 for every power of two k <= n: the call counts the scale rule singles out.
fn power_marks(n: usize) -> BTreeSet<usize> {
    let mut s = BTreeSet::new();
    s.insert(0);
    let mut k = 1usize;
    while k <= n { for m in [k - 1, k, k + 1] { if m <= n { s.insert(m); } } k *= 2; }
    s
}

#[derive(Clone, Copy, Debug, PartialEq, Eq)]
enum CcPlan { MessagesOnly, KindsRotating, Interleaved }

impl CcPlan {
    fn name(self) -> &'static str {
        match self { CcPlan::MessagesOnly => "messages-only", CcPlan::KindsRotating => "kinds-rotating", CcPlan::Interleaved => "interleaved" }
    }
    fn describe(self) -> &'static str {
        match self {
            CcPlan::MessagesOnly => "messages-only: identity key = handle #0 made by create_key (a second key made by create_key is never used); SignedMessage::create only, nothing else touches the signer",
            CcPlan::KindsRotating => "kinds-rotating: pool key 1 imported as handle #0, identity key = pool key 0 imported as handle #1; message #i is made by SignedMessage::create / ProvisioningCms::create / PublicationCms::create for i mod 3 = 1 / 2 / 0, nothing else touches the signer",
            CcPlan::Interleaved => "interleaved: pool keys 3 and 4 imported as handles #0 and #1, identity key = pool key 0 imported as handle #2, then #0 destroyed; before every message (ProvisioningCms::create / PublicationCms::create alternating) five other calls, their order rotating so that each of them is the call just before a message: import an unrelated key (key_from_pem + get_key_info), sign under the identity key, get_key_info of the identity key, sign under the newest unrelated key, destroy_key of the oldest unrelated key (then get_key_info / sign / destroy_key on it must fail); at the marked counts also create_key + get_key_info + sign under the generated key",
        }
    }
    /// The kind of the message made after `i` earlier ones.
    fn kind(self, i: usize) -> u8 {
        match self { CcPlan::MessagesOnly => 0, CcPlan::KindsRotating => (i % 3) as u8, CcPlan::Interleaved => 1 + (i % 2) as u8 }
    }
}

struct CcShared { pool_pub: Vec<PublicKey>, pool_p8: Vec<Vec<u8>>, timing: bool }

#[derive(Default)]
struct CcSummary {
    created: u64,
    after_earlier: u64,
    validations: u64,
    classes: BTreeMap<&'static str, u64>,
    ops: BTreeMap<&'static str, u64>,
    per_kind: [u64; 3],
    failing_messages: u64,
    first_failing: Option<usize>,
    key_generations: u64,
    handles_issued: usize,
    revalidated: u64,
    setup_failed: bool,
}

enum CcObj { Msg(SignedMessage), Prov(ProvisioningCms), Pubc(PublicationCms) }

impl CcObj {
    fn validate_at(&self, key: &PublicKey, t: Time) -> Result<(), String> {
        match self { CcObj::Msg(m) => m.validate_at(key, t).map_err(|e| e.to_string()), CcObj::Prov(m) => m.validate_at(key, t).map_err(|e| e.to_string()), CcObj::Pubc(m) => m.validate_at(key, t).map_err(|e| e.to_string()) }
    }
    fn bytes(&self) -> Vec<u8> {
        match self { CcObj::Msg(m) => m.to_captured().into_bytes().to_vec(), CcObj::Prov(m) => m.to_bytes().to_vec(), CcObj::Pubc(m) => m.to_bytes().to_vec() }
    }
}

/// The window handed to SignedMessage::create for the message made after `i` earlier ones: three in four use the same
/// window (whatever is remembered per window is found again), every fourth a window of its own.
fn cc_window(i: usize) -> (i64, i64) { if i % 4 == 3 { (T0 - W + i as i64, T0 + W + i as i64) } else { (T0 - W, T0 + W) } }

/// Makes the message that follows `i` earlier ones: (object as created, what it is, the window it was given if the caller chooses it).
fn cc_create(kind: u8, i: usize, key: &SoftKeyId, signer: &SoftSigner, sh: &CcShared) -> Result<(CcObj, String, Option<(i64, i64)>), String> {
    match kind {
        0 => {
            let data: Vec<u8> = (0..i).map(|j| b"<msg/>\n"[j % 7]).collect();
            let (nb, na) = cc_window(i);
            let m = SignedMessage::create(Bytes::from(data), Validity::new(pki::time(nb), pki::time(na)), key, signer).map_err(|e| e.to_string())?;
            Ok((CcObj::Msg(m), format!("SignedMessage::create content={i}B window=[{nb},{na}]"), Some((nb, na))))
        }
        1 => {
            let (sender, recipient) = (SenderHandle::from_str("child").unwrap(), RecipientHandle::from_str("parent").unwrap());
            let (msg, what) = if i % 4 < 2 { (provisioning::Message::list(sender, recipient), "ProvisioningCms::create(list)") }
                else { (provisioning::Message::revoke(sender, recipient, RevocationRequest::new("rc0".into(), sh.pool_pub[K_THIRD].key_identifier())), "ProvisioningCms::create(revoke)") };
            let m = ProvisioningCms::create(msg, key, signer).map_err(|e| e.to_string())?;
            Ok((CcObj::Prov(m), what.to_string(), None))
        }
        _ => {
            let (msg, what) = if i % 4 < 2 { (publication::Message::list_query(), "PublicationCms::create(list query)".to_string()) } else {
                let body: Vec<u8> = (0..i).map(|j| (j * 31 + 7) as u8).collect();
                let mut d = PublishDelta::empty();
                d.add_publish(Publish::new(Some(format!("tag-{i}")), pki::rsync(&format!("rsync://example.net/repo/ca/obj{i}.roa")), Base64::from_content(&body)));
                (publication::Message::delta(d), format!("PublicationCms::create(publish of {i} octets)"))
            };
            let m = PublicationCms::create(msg, key, signer).map_err(|e| e.to_string())?;
            Ok((CcObj::Pubc(m), what, None))
        }
    }
}

/// The ordinary oracle of the `created.*` spaces on one message: validates <=> identity key and instant inside the window.
/// The object as created at the 10 instants under every key; its encoding re-decoded (strict, relaxed) at notBefore, the
/// midpoint and notAfter and (typed decoder) at all 10 instants under every key. At most one failure per oracle is recorded.
/// Returns whether all held.
#[allow(clippy::too_many_arguments)]
fn cc_judge(wit: &dyn Fn(&str) -> String, obj: &CcObj, bytes: &[u8], via: Via, nb: i64, na: i64, identity: &PublicKey, others: &[(String, PublicKey)], sum: &mut CcSummary) -> bool {
    let mut failed: BTreeSet<&'static str> = BTreeSet::new();
    let mut judge = |v: Verdict, is_identity: bool, inside: bool, w: &dyn Fn() -> String, sum: &mut CcSummary| {
        sum.validations += 1;
        *sum.classes.entry(v.class()).or_insert(0) += 1;
        let want = is_identity && inside;
        let (oracle, detail) = match &v {
            Verdict::Panic(p) => ("C10.no_panic", p.clone()),
            _ if want && !v.accepted() => ("C10.signer.call_count.own_key", format!("the message does not validate under the identity key it was created for, at an instant inside its validity: {}", trunc(&v.show(), 200))),
            _ if !want && v.accepted() => if is_identity { ("C10.signer.call_count.outside_window", "the message validates at an instant outside its validity".to_string()) }
                else { ("C10.signer.call_count.other_key", "the message validates under a key it was not created for".to_string()) },
            _ => return,
        };
        if failed.insert(oracle) { fail(oracle, w(), detail) }
    };
    let keys: Vec<(&str, &PublicKey, bool)> = std::iter::once(("identity", identity, true)).chain(others.iter().map(|(n, k)| (n.as_str(), k, false))).collect();
    // The wall-clock kinds keep the sub-second part of the clock in the object as created and write whole seconds: the
    // two windows differ by less than a second at either end. The object as created is therefore not asked at the four
    // instants that fall into that difference (notBefore, +1ns; notAfter+1ns, +0.5s); its encoding is asked at all ten.
    let wall_clock = via != Via::Strict;
    // the midpoint first: it is the instant a reader of the witness expects
    let mut instants: Vec<(usize, (i64, u32))> = window_instants(nb, na).into_iter().enumerate().collect();
    let mid = instants.remove(MID);
    instants.insert(0, mid);
    for (ti, (t, ns)) in instants {
        let inside = (nb, 0) <= (t, ns) && (t, ns) <= (na, 0);
        for (kname, key, is_id) in &keys {
            if !(wall_clock && matches!(ti, 2 | 3 | 7 | 8)) {
                let v = match guard(|| obj.validate_at(key, at(t, ns))) { Ok(Ok(())) => Verdict::Accept, Ok(Err(e)) => Verdict::Invalid(e), Err(p) => Verdict::Panic(p) };
                judge(v, *is_id, inside, &|| wit(&format!("t=notBefore{:+}s+{ns}ns key={kname} route=as-created", t - nb)), sum);
            }
            let marked = ti == 2 || ti == MID || ti == 6;
            if marked || wall_clock {
                let mut routes = if marked { vec![Via::Strict, Via::Relaxed] } else { vec![] };
                if wall_clock { routes.insert(0, via) }
                for r in routes {
                    let v = run_ns(bytes, key, t, ns, r);
                    judge(v, *is_id, inside, &|| wit(&format!("t=notBefore{:+}s+{ns}ns key={kname} route=encoded-then-decoded-{r:?}", t - nb)), sum);
                }
            }
        }
    }
    failed.is_empty()
}

/// One signer instance living through `n` creations. Everything that calls the library is guarded.
fn cc_run(plan: CcPlan, n: usize, sh: &CcShared) -> CcSummary {
    let thread_cpu = || { let mut ts = libc::timespec { tv_sec: 0, tv_nsec: 0 }; unsafe { libc::clock_gettime(libc::CLOCK_THREAD_CPUTIME_ID, &mut ts); } ts.tv_sec as f64 + ts.tv_nsec as f64 / 1e9 };
    let t_wall = std::time::Instant::now();
    let mut sum = CcSummary::default();
    let signer = SoftSigner::new();
    let inst = format!("signer.call_count instance={}", plan.name());
    // --- set-up: handles in issue order; the model records the public key of each handle when it is issued
    let import = |j: usize| -> Result<(SoftKeyId, PublicKey), String> {
        let id = guard(|| signer.key_from_pem(&sh.pool_p8[j])).map_err(|p| format!("key_from_pem panicked: {p}"))?.map_err(|e| format!("key_from_pem(pool key {j}) fails: {e}"))?;
        let got = guard(|| signer.get_key_info(&id)).map_err(|p| format!("get_key_info panicked: {p}"))?.map_err(|e| format!("get_key_info on the handle just issued for pool key {j} fails: {e}"))?;
        if got != sh.pool_pub[j] { return Err(format!("get_key_info on the handle just issued for pool key {j} returns another key than the one handed in")) }
        Ok((id, got))
    };
    let generate = || -> Result<(SoftKeyId, PublicKey), String> {
        let id = guard(|| signer.create_key(PublicKeyFormat::Rsa)).map_err(|p| format!("create_key panicked: {p}"))?.map_err(|e| format!("create_key fails: {e}"))?;
        let got = guard(|| signer.get_key_info(&id)).map_err(|p| format!("get_key_info panicked: {p}"))?.map_err(|e| format!("get_key_info on the handle create_key just issued fails: {e}"))?;
        Ok((id, got))
    };
    // unrelated keys held by the signer: (handle, recorded public key, label), oldest first
    let mut live: std::collections::VecDeque<(SoftKeyId, PublicKey, String)> = Default::default();
    let mut last_destroyed: Option<(PublicKey, String)> = None;
    let setup: Result<(SoftKeyId, PublicKey), String> = (|| match plan {
        CcPlan::MessagesOnly => {
            let (id, pk) = generate()?;
            let (other, opk) = generate()?;
            sum.key_generations += 2; sum.handles_issued += 2;
            if opk == pk { return Err("the second create_key returns a handle for the key of the first".into()) }
            live.push_back((other, opk, "the second key made by create_key (handle #1)".into()));
            Ok((id, pk))
        }
        CcPlan::KindsRotating => {
            let (o, opk) = import(K_OTHER)?;
            live.push_back((o, opk, "pool key 1 (handle #0)".into()));
            sum.handles_issued += 2;
            import(K_PEER)
        }
        CcPlan::Interleaved => {
            let (u0, _) = import(3)?;
            let (u1, pk1) = import(4)?;
            let idk = import(K_PEER)?;
            sum.handles_issued += 3;
            guard(|| signer.destroy_key(&u0)).map_err(|p| format!("destroy_key panicked: {p}"))?.map_err(|e| format!("destroy_key on the live handle #0 fails: {e}"))?;
            last_destroyed = Some((sh.pool_pub[3].clone(), "pool key 3 (handle #0, destroyed)".into()));
            live.push_back((u1, pk1, "pool key 4 (handle #1)".into()));
            Ok(idk)
        }
    })();
    let (identity, identity_pub) = match setup {
        Ok(x) => x,
        Err(e) => { fail("C10.signer.key_info", format!("{inst} set-up"), e); sum.setup_failed = true; return sum }
    };
    let marks = power_marks(n);
    let mut kept: Vec<(Vec<u8>, Via, i64, usize)> = Vec::with_capacity(n);
    let alg = RpkiSignatureAlgorithm::default;
    for i in 0..n {
        let wit_msg = |what: &str, extra: &str| format!("{inst} message #{:04} on this signer ({i} earlier successful creations): {what} {extra}", i + 1);
        // --- the other calls of the interleaved instance
        if plan == CcPlan::Interleaved {
            let mut order: Vec<usize> = (0..5).map(|k| (k + i) % 5).collect();
            if marks.contains(&i) { order.insert(0, 5) }
            for op in order {
                let opname: &'static str = ["import-unrelated-key", "sign-under-identity-key", "get_key_info-of-identity-key", "sign-under-unrelated-key", "destroy-oldest-unrelated-key", "create_key"][op];
                let handles_before = sum.handles_issued;
                let wit_op = || format!("{inst} before message #{:04} ({i} earlier successful creations, {handles_before} handles issued so far): {opname}", i + 1);
                let r: Result<Result<(), (&'static str, String)>, String> = guard(|| match op {
                    0 => {
                        let j = 3 + i % 5;
                        let (id, pk) = import(j).map_err(|e| ("C10.signer.key_info", e))?;
                        if pk == identity_pub { return Err(("C10.signer.key_info", format!("the handle just issued for pool key {j} names the identity key"))) }
                        live.push_back((id, pk, format!("pool key {j} (handle #{})", sum.handles_issued)));
                        sum.handles_issued += 1;
                        Ok(())
                    }
                    1 => {
                        let data = format!("bare data signed under the identity key before message {i}");
                        let sig = signer.sign(&identity, alg(), data.as_bytes()).map_err(|e| ("C10.signer.sign", format!("sign under the live identity handle fails: {e}")))?;
                        if !verify_raw(&identity_pub, data.as_bytes(), sig.value().as_ref()) { return Err(("C10.signer.sign", "the signature made under the identity handle does not verify (aws-lc directly) under the public key recorded for it".into())) }
                        for (_, pk, label) in live.iter() { if *pk != identity_pub && verify_raw(pk, data.as_bytes(), sig.value().as_ref()) { return Err(("C10.signer.sign", format!("the signature made under the identity handle verifies under {label}"))) } }
                        Ok(())
                    }
                    2 => match signer.get_key_info(&identity) {
                        Ok(pk) if pk == identity_pub => Ok(()),
                        Ok(pk) => Err(("C10.signer.key_info", format!("get_key_info of the identity handle no longer returns the key recorded when the handle was issued{}", live.iter().find(|(_, k, _)| *k == pk).map(|(_, _, l)| format!(", but {l}")).unwrap_or_default()))),
                        Err(e) => Err(("C10.signer.key_info", format!("get_key_info of the live identity handle fails: {e}"))),
                    },
                    3 => {
                        let Some((id, pk, label)) = live.back() else { return Ok(()) };
                        let data = format!("bare data signed under an unrelated key before message {i}");
                        let sig = signer.sign(id, alg(), data.as_bytes()).map_err(|e| ("C10.signer.sign", format!("sign under the live handle of {label} fails: {e}")))?;
                        if !verify_raw(pk, data.as_bytes(), sig.value().as_ref()) { return Err(("C10.signer.sign", format!("the signature made under the handle of {label} does not verify under the public key recorded for it"))) }
                        if verify_raw(&identity_pub, data.as_bytes(), sig.value().as_ref()) { return Err(("C10.signer.sign", format!("the signature made under the handle of {label} verifies under the identity key"))) }
                        Ok(())
                    }
                    4 => {
                        if live.len() < 2 { return Ok(()) }
                        let (id, pk, label) = live.pop_front().unwrap();
                        signer.destroy_key(&id).map_err(|e| ("C10.signer.destroyed", format!("destroy_key on the live handle of {label} fails: {e}")))?;
                        last_destroyed = Some((pk, format!("{label}, destroyed")));
                        if signer.get_key_info(&id).is_ok() { return Err(("C10.signer.destroyed", format!("get_key_info on the destroyed handle of {label} returns a key"))) }
                        if signer.sign(&id, alg(), b"x".as_slice()).is_ok() { return Err(("C10.signer.destroyed", format!("sign under the destroyed handle of {label} succeeds"))) }
                        if signer.destroy_key(&id).is_ok() { return Err(("C10.signer.destroyed", format!("destroy_key on the already destroyed handle of {label} succeeds"))) }
                        Ok(())
                    }
                    _ => {
                        let (id, pk) = generate().map_err(|e| ("C10.signer.key_info", e))?;
                        sum.key_generations += 1;
                        let label = format!("a key made by create_key (handle #{})", sum.handles_issued);
                        sum.handles_issued += 1;
                        if pk == identity_pub || sh.pool_pub.contains(&pk) { return Err(("C10.signer.key_info", format!("the handle create_key just issued names a key the signer was given earlier ({label})"))) }
                        let data = format!("bare data signed under a generated key before message {i}");
                        let sig = signer.sign(&id, alg(), data.as_bytes()).map_err(|e| ("C10.signer.sign", format!("sign under the live handle of {label} fails: {e}")))?;
                        if !verify_raw(&pk, data.as_bytes(), sig.value().as_ref()) { return Err(("C10.signer.sign", format!("the signature made under the handle of {label} does not verify under the public key get_key_info returned for it"))) }
                        live.push_back((id, pk, label));
                        Ok(())
                    }
                });
                *sum.ops.entry(opname).or_insert(0) += 1;
                match r { Ok(Ok(())) => {} Ok(Err((o, d))) => fail(o, wit_op(), d), Err(p) => fail("C10.no_panic", wit_op(), p) }
            }
        }
        // --- the message
        let kind = plan.kind(i);
        let made = guard(|| cc_create(kind, i, &identity, &signer, sh).map(|(obj, what, given)| { let bytes = obj.bytes(); (obj, what, given, bytes) }));
        let (obj, what, given, bytes) = match made {
            Ok(Ok(x)) => x,
            Ok(Err(e)) => { fail("C10.signer.call_count.create", wit_msg(MSG_KINDS[kind as usize], ""), format!("creating a message under the live identity handle fails: {e}")); sum.failing_messages += 1; sum.first_failing.get_or_insert(i); continue }
            Err(p) => { fail("C10.no_panic", wit_msg(MSG_KINDS[kind as usize], "create"), p); sum.failing_messages += 1; sum.first_failing.get_or_insert(i); continue }
        };
        let via = match kind { 0 => Via::Strict, 1 => Via::Provisioning, _ => Via::Publication };
        // the window: the one handed in, or (wall-clock kinds) the one read back from the message: both embedded windows must hold
        let (nb, na) = match given {
            Some(w) => w,
            None => match guard(|| embedded_windows(&bytes)) {
                Ok(((nb, na), (tu, nu))) if nb.max(tu) <= na.min(nu) => (nb.max(tu), na.min(nu)),
                Ok(((nb, na), (tu, nu))) => { fail("C10.created.window", wit_msg(&what, ""), format!("EE window [{nb},{na}] and CRL window [{tu},{nu}] have no instant in common")); sum.failing_messages += 1; sum.first_failing.get_or_insert(i); continue }
                Err(p) => { fail("C10.signer.call_count.own_key", wit_msg(&what, ""), format!("the created message cannot be read by the independent TLV reader: {p}")); sum.failing_messages += 1; sum.first_failing.get_or_insert(i); continue }
            },
        };
        let mut others: Vec<(String, PublicKey)> = vec![("pool key 2 (never given to this signer)".to_string(), sh.pool_pub[K_THIRD].clone())];
        if let Some((_, pk, label)) = live.back() { others.push((format!("{label}, live in this signer"), pk.clone())) }
        if let Some((pk, label)) = &last_destroyed { others.push((label.clone(), pk.clone())) }
        others.retain(|(_, k)| *k != identity_pub);
        sum.created += 1; sum.per_kind[kind as usize] += 1;
        if i > 0 { sum.after_earlier += 1 }
        let ok = cc_judge(&|extra| wit_msg(&what, extra), &obj, &bytes, via, nb, na, &identity_pub, &others, &mut sum);
        if !ok { sum.failing_messages += 1; sum.first_failing.get_or_insert(i); }
        kept.push((bytes, via, nb + (na - nb) / 2, i));
    }
    // --- every message once more, after all the others were made
    for (bytes, via, mid, i) in &kept {
        let v = run(bytes, &identity_pub, *mid, *via);
        sum.revalidated += 1;
        if !v.accepted() && sum.first_failing.is_none_or(|f| f > *i) {
            fail("C10.signer.call_count.own_key", format!("{inst} message #{:04} validated once more after all {n} creations, t=middle of its window key=identity", i + 1), format!("the message no longer validates: {}", trunc(&v.show(), 200)));
        }
    }
    if sh.timing { eprintln!("timing: signer.call_count instance {} ({n} messages, {} key generations besides): {:.1} s thread CPU, {:.1} s wall", plan.name(), sum.key_generations, thread_cpu(), t_wall.elapsed().as_secs_f64()) }
    sum
}

fn main() {
    if std::env::args().any(|a| a == ENV_CHILD_ARG) { env_child() }
    let t_start = std::time::Instant::now();
    let ctx = Ctx::new("C10", "exploration");
    ctx.assume("aws-lc RSA PKCS#1 v1.5 / SHA-256 / SHA-1 are correct (used by both the library and the independent signer)");
    ctx.assume("keys are the 8 fixed pool keys; the library's one-off key is pool key 7");
    ctx.assume("ProvisioningCms::create / PublicationCms::create take their window from the wall clock; the evaluation instants are derived from the window read back out of the message");
    let s = PoolSigner::load();
    let peer = s.public(K_PEER);
    let fx = Fx { content: publication::Message::list_query().to_xml_bytes().to_vec(), peer: peer.clone(), s };
    let s = &fx.s;
    let thorough = ctx.tier.is_thorough();

    //--- (f) round 13: started first, joined last - one signer instance per background thread (see cc_run)
    let cc_space = ctx.space("signer.call_count",
        "the NUMBER OF EARLIER SUCCESSFUL CALLS on one live participant: N messages created in a row on ONE instance of the library's own rpki::crypto::softsigner::SoftSigner (sign_one_off generating a real RSA key per message), every prefix length 0, 1, 2, ... N-1 being one case (so every count up to the bound, in particular k-1, k, k+1 around every power of two), and EVERY message judged by the ordinary oracle of the created.* spaces: the object as created at 10 instants (notBefore-1s, -1ns, notBefore, +1ns, midpoint, notAfter-1ns, notAfter, +1ns, +0.5s, +1s; the wall-clock kinds keep the clock's sub-second part in memory and write whole seconds, so their object as created is not asked at the four instants inside that difference) and its encoding re-decoded (SignedMessage strict, relaxed at notBefore / midpoint / notAfter; the typed decoder at all 10 instants), under the identity key (public key recorded when the handle was issued; for imported keys known independently) and under 2-3 other keys (one never given to the signer, one live in the same signer, one destroyed in it): validates <=> identity key and instant inside the window (wall-clock kinds: the window read back from the message); at the end every message is validated once more. Three instances, each on an OS thread of its own for the whole run of the explorer: (1) messages-only: identity key = handle #0 made by create_key, SignedMessage::create only (content of i octets; three in four with the same window, every fourth with a window of its own), nothing else touches the signer; (2) kinds-rotating: identity key imported as handle #1, SignedMessage / ProvisioningCms (list, revoke) / PublicationCms (list query, publish of i octets) creation rotating on the one instance; (3) interleaved: identity key imported as handle #2 behind a destroyed handle, ProvisioningCms / PublicationCms alternating, and before every message five other signer calls (import an unrelated key with key_from_pem + get_key_info, sign under the identity key, get_key_info of the identity key, sign under the newest unrelated key, destroy_key of the oldest unrelated key followed by the three calls that must now fail) in an order rotating with the count, plus create_key + get_key_info + sign at the counts k-1, k, k+1 of every power of two - each judged against the model (handle -> public key recorded at issue, destroyed or not; signatures verified by aws-lc directly), so that the number of handles issued grows with the count too. quick: N = 260 per instance (crosses 256/257); thorough: N = 2050 for (1), 1026 for (2) and (3). evaluations = messages created and judged; non-trivial = messages created after at least one earlier message on the same instance");
    let cc_plans: Vec<(CcPlan, usize)> = vec![(CcPlan::MessagesOnly, ctx.tier.pick(260, 2050)), (CcPlan::KindsRotating, ctx.tier.pick(260, 1026)), (CcPlan::Interleaved, ctx.tier.pick(260, 1026))];
    let cc_threads: Vec<(CcPlan, usize, Option<std::thread::JoinHandle<CcSummary>>)> = {
        let pool_p8: Vec<Vec<u8>> = (0..8).map(|i| std::fs::read(format!("{}/keys/rsa-{i}.p8", verif_dir())).unwrap_or_default()).collect();
        if pool_p8.iter().any(|k| k.is_empty()) { ctx.machinery_error("signer.call_count: cannot read the pool keys") }
        let sh = std::sync::Arc::new(CcShared { pool_pub: (0..8).map(|i| s.public(i)).collect(), pool_p8, timing: std::env::var_os("C10_TIMING").is_some() });
        cc_plans.iter().map(|&(plan, n)| {
            let sh = sh.clone();
            (plan, n, std::thread::Builder::new().name(format!("call-count-{}", plan.name())).spawn(move || cc_run(plan, n, &sh)).ok())
        }).collect()
    };

    let perms: Vec<[usize; 3]> = permutations(3).into_iter().map(|p| [p[0], p[1], p[2]]).collect();
    let keys = [(K_PEER, "signing"), (K_OTHER, "other-1"), (K_THIRD, "other-2")];
    // the peer's identity certificate, as a relying party would hold it
    let peer_cert = IdCert::new_ta(Validity::new(pki::time(T0 - 86_400), pki::time(T0 + 86_400)), &s.kid(K_PEER), s).expect("id ta");
    if peer_cert.public_key() != &peer { ctx.machinery_error("peer IdCert does not carry pool key 0") }

    //--- (a1) SignedMessage::create --------------------------------------------------------------
    {
        let sp = ctx.space("created.signed_message",
            "SignedMessage::create for content sizes {0,1,1000,4095,4096,4097,65535,65536,65537,100000} x all validity windows (nb <= na) over 8 instants around the UTCTime/GeneralizedTime switches (1949/1950, 2049/2050), the epoch, T0, T0+600 and year 9999 x 10 evaluation instants (nb-1s, nb-1ns, nb, nb+1ns, midpoint, na-1ns, na, na+1ns, na+0.5s, na+1s) x 3 keys x {as created, re-decoded strict, re-decoded relaxed}: validates <=> signing key and nb <= t <= na; non-trivial = evaluations at a window boundary or under another key");
        let dom: Vec<i64> = vec![-631_152_001, -631_152_000, 0, T0, T0 + 600, 2_524_607_999, 2_524_608_000, 253_402_300_799];
        let sizes: Vec<usize> = vec![0, 1, 1000, 4095, 4096, 4097, 65_535, 65_536, 65_537, 100_000];
        let mut jobs = Vec::new();
        for (i, &nb) in dom.iter().enumerate() { for &na in &dom[i..] { for &n in &sizes { jobs.push((nb, na, n)) } } }
        let oc: Mutex<BTreeMap<&'static str, u64>> = Mutex::new(BTreeMap::new());
        let nt = Mutex::new(0u64);
        jobs.par_iter().for_each(|&(nb, na, n)| {
            let data: Vec<u8> = (0..n).map(|i| b"<msg/>\n"[i % 7]).collect();
            let w = |extra: &str| format!("SignedMessage::create content={n}B window=[{nb},{na}] (unix seconds) {extra}");
            let made = guard(|| SignedMessage::create(Bytes::from(data.clone()), Validity::new(pki::time(nb), pki::time(na)), &s.kid(K_PEER), s));
            let msg = match made {
                Ok(Ok(m)) => m,
                Ok(Err(e)) => { fail("C10.created.valid_within", w("create"), format!("create failed: {e}")); return }
                Err(p) => { fail("C10.no_panic", w("create"), p); return }
            };
            let bytes = match guard(|| msg.to_captured().into_bytes()) { Ok(b) => b, Err(p) => { fail("C10.no_panic", w("encode"), p); return } };
            for (ti, (t, ns)) in window_instants(nb, na).into_iter().enumerate() {
                for (k, kname) in keys {
                    let want = k == K_PEER && (nb, 0) <= (t, ns) && (t, ns) <= (na, 0);
                    let key = s.public(k);
                    let direct = match guard(|| msg.validate_at(&key, at(t, ns))) { Ok(Ok(())) => Verdict::Accept, Ok(Err(e)) => Verdict::Invalid(e.to_string()), Err(p) => Verdict::Panic(p) };
                    let results = [("as-created", direct), ("strict", run_ns(&bytes, &key, t, ns, Via::Strict)), ("relaxed", run_ns(&bytes, &key, t, ns, Via::Relaxed))];
                    for (how, v) in results {
                        sp.eval();
                        *oc.lock().unwrap().entry(v.class()).or_insert(0) += 1;
                        if ti != MID || k != K_PEER { *nt.lock().unwrap() += 1 }
                        let (oa, or) = ("C10.created.valid_within", if k != K_PEER { "C10.created.other_key" } else { "C10.created.invalid_outside" });
                        expect(&ctx, oa, or, want, &v, || w(&format!("t={t}s+{ns}ns key={kname} {how}")));
                    }
                }
            }
        });
        sp.merge_outcomes(&oc.lock().unwrap());
        sp.nontrivial(*nt.lock().unwrap());
        sp.set("instants", serde_json::json!(dom));
        sp.sample_str(|| "SignedMessage::create content=1000B window=[2524607999,2524608000] t=2524608000 key=signing strict -> validated".to_string());
        sp.done(true, "36 windows x 10 sizes x 10 instants x 3 keys x 3 routes");
    }

    //--- (a2) ProvisioningCms::create / PublicationCms::create ---------------------------------------
    {
        let sp = ctx.space("created.protocol_cms",
            "ProvisioningCms::create for {list, revoke} and PublicationCms::create for {list query, publish of 1 / 700 / 75000 octets, delta with publish + update + withdraw, empty delta, list reply with 0 / 2 elements, success} (XML content from ~100 to ~100000 octets); window read back from the embedded EE certificate; 10 instants (down to 1 ns around both bounds) x 3 keys through the typed decoder and SignedMessage::decode strict/relaxed; EE and CRL windows must coincide and span 10 minutes. For every message also the sibling sweep: validate(key) == validate_at(key, Time::now()) for the CMS and for the unpacked SignedMessage; decode().message() / into_message() / unpack() give back the message that went in, the unpacked SignedMessage carries exactly its XML and validates like the CMS; the message's accessors (sender, recipient, unpack, is_list_response, request key / class; as_query / as_reply, delta len / is_empty / elements, publish / update / withdraw / list element tag, uri, content, hash, unpack, into_elements, into_withdraw_delta, Base64 as_str / to_bytes / size_approx) return what was put in; non-trivial = evaluations at a boundary or under another key, and every sibling comparison");
        let sender = SenderHandle::from_str("child").unwrap();
        let recipient = RecipientHandle::from_str("parent").unwrap();
        #[derive(Clone)]
        enum Orig { Prov(provisioning::Message), Pub(publication::Message) }
        /// what went into a publication message: (kind, tag, uri, content, hash)
        type Elem = (&'static str, Option<String>, String, Vec<u8>, Vec<u8>);
        let mut made: Vec<(String, Via, Vec<u8>, usize, Orig, Vec<Elem>)> = Vec::new();
        let prov = vec![
            ("provisioning list", provisioning::Message::list(sender.clone(), recipient.clone())),
            ("provisioning revoke", provisioning::Message::revoke(sender.clone(), recipient.clone(), RevocationRequest::new("rc0".into(), s.ski(K_THIRD)))),
        ];
        for (nm, m) in prov {
            let n = m.to_xml_bytes().len();
            let orig = Orig::Prov(m.clone());
            match guard(|| ProvisioningCms::create(m, &s.kid(K_PEER), s).map(|c| c.to_bytes().to_vec())) {
                Ok(Ok(b)) => made.push((nm.to_string(), Via::Provisioning, b, n, orig, vec![])),
                Ok(Err(e)) => fail("C10.created.valid_within", nm, format!("create failed: {e}")),
                Err(p) => fail("C10.no_panic", nm, p),
            }
        }
        let body = |n: usize, k: usize| -> Vec<u8> { (0..n).map(|i| (i * 31 + 7 + k) as u8).collect() };
        let uri = |k: usize| format!("rsync://example.net/repo/ca/obj{k}.roa");
        let mut pubs: Vec<(String, publication::Message, Vec<Elem>)> = vec![("publication list query".to_string(), publication::Message::list_query(), vec![])];
        for n in [1usize, 700, 75_000] {
            let mut d = PublishDelta::empty();
            let c = body(n, 0);
            let p = Publish::with_hash_tag(pki::rsync(&uri(0)), Base64::from_content(&c));
            let tag = p.tag().cloned();
            d.add_publish(p);
            pubs.push((format!("publication publish {n}B"), publication::Message::delta(d), vec![("publish", tag, uri(0), c, vec![])]));
        }
        {
            let mut d = PublishDelta::empty();
            let (c1, c2, old, gone) = (body(10, 1), body(33, 2), body(5, 3), body(7, 4));
            d.add_publish(Publish::new(Some("tag-1".into()), pki::rsync(&uri(1)), Base64::from_content(&c1)));
            d.add_update(publication::Update::new(None, pki::rsync(&uri(2)), Base64::from_content(&c2), rpki::rrdp::Hash::from_data(&old)));
            d.add_withdraw(publication::Withdraw::new(Some("tag-3".into()), pki::rsync(&uri(3)), rpki::rrdp::Hash::from_data(&gone)));
            pubs.push(("publication delta publish+update+withdraw".into(), publication::Message::delta(d), vec![
                ("publish", Some("tag-1".into()), uri(1), c1, vec![]), ("update", None, uri(2), c2, sha256(&old)), ("withdraw", Some("tag-3".into()), uri(3), vec![], sha256(&gone))]));
            pubs.push(("publication empty delta".into(), publication::Message::delta(PublishDelta::empty()), vec![]));
            let els: Vec<Elem> = (5..7).map(|k| ("list", None, uri(k), vec![], sha256(&body(20, k)))).collect();
            let lr = publication::ListReply::new((5..7).map(|k| publication::ListElement::new(pki::rsync(&uri(k)), rpki::rrdp::Hash::from_data(&body(20, k)))).collect());
            pubs.push(("publication list reply 2".into(), publication::Message::list_reply(lr), els));
            pubs.push(("publication list reply 0".into(), publication::Message::list_reply(publication::ListReply::empty()), vec![]));
            pubs.push(("publication success".into(), publication::Message::success(), vec![]));
        }
        for (nm, m, els) in pubs {
            let n = m.to_xml_bytes().len();
            let orig = Orig::Pub(m.clone());
            match guard(|| PublicationCms::create(m, &s.kid(K_PEER), s).map(|c| c.to_bytes().to_vec())) {
                Ok(Ok(b)) => made.push((nm, Via::Publication, b, n, orig, els)),
                Ok(Err(e)) => fail("C10.created.valid_within", nm, format!("create failed: {e}")),
                Err(p) => fail("C10.no_panic", nm, p),
            }
        }
        let mut sizes = Vec::new();
        for (nm, via, bytes, n, orig, els) in &made {
            sizes.push(format!("{nm}: {n}B"));
            let ((nb, na), (tu, nu)) = embedded_windows(bytes);
            // the two bounds come from two clock reads: 601 s when a second boundary falls between them
            if (nb, na) != (tu, nu) || !(600..=601).contains(&(na - nb)) {
                fail("C10.created.window", nm.clone(), format!("EE window [{nb},{na}] (relative: {} s), CRL window [{tu},{nu}]", na - nb));
            }
            for (ti, (t, ns)) in window_instants(nb, na).into_iter().enumerate() {
                for (k, kname) in keys {
                    let want = k == K_PEER && (nb, 0) <= (t, ns) && (t, ns) <= (na, 0);
                    for v in [*via, Via::Strict, Via::Relaxed] {
                        let r = run_ns(bytes, &s.public(k), t, ns, v);
                        sp.eval(); sp.outcome(r.class());
                        if ti != MID || k != K_PEER { sp.nontrivial(1) }
                        let or = if k != K_PEER { "C10.created.other_key" } else { "C10.created.invalid_outside" };
                        expect(&ctx, "C10.created.valid_within", or, want, &r, || format!("{nm} ({n}B XML) t=notBefore{:+}s+{ns}ns key={kname} via={v:?}", t - nb));
                    }
                }
            }
            // sibling sweep
            let mid = pki::time(nb + 300);
            let bad: Result<Vec<String>, String> = guard(|| {
                let mut bad: Vec<String> = Vec::new();
                let mut chk = |ok: bool, what: &str| if !ok { bad.push(what.to_string()) };
                match orig {
                    Orig::Prov(m) => {
                        let cms = match ProvisioningCms::decode(bytes) { Ok(c) => c, Err(e) => return vec![format!("typed decode failed: {e}")] };
                        chk(cms.message() == m, "decode().message() != message given to create");
                        chk(&cms.clone().into_message() == m, "into_message() != message given to create");
                        let (signed, msg) = cms.clone().unpack();
                        chk(&msg == m, "unpack().1 != message given to create");
                        chk(signed.content().to_bytes() == m.to_xml_bytes(), "unpack().0 does not carry the message's XML");
                        for (k, _) in keys {
                            let key = s.public(k);
                            chk(cms.validate(&key).is_ok() == cms.validate_at(&key, Time::now()).is_ok(), "ProvisioningCms::validate != validate_at(now)");
                            chk(signed.validate(&key).is_ok() == signed.validate_at(&key, Time::now()).is_ok(), "SignedMessage::validate != validate_at(now)");
                            chk(signed.validate_at(&key, mid).is_ok() == cms.validate_at(&key, mid).is_ok(), "unpacked SignedMessage validates differently from the CMS");
                            chk(cms.validate_at(&key, mid).is_ok() == (k == K_PEER), "typed CMS verdict at mid-window");
                        }
                        chk(msg.sender() == &sender && msg.recipient() == &recipient, "sender() / recipient() differ from what was put in");
                        chk(msg.is_list_response() == matches!(msg.payload(), provisioning::Payload::ListResponse(_)), "is_list_response() disagrees with payload()");
                        let payload = msg.payload().clone();
                        let (us, ur, up) = msg.clone().unpack();
                        chk(us == sender && ur == recipient && up == payload, "Message::unpack() disagrees with the accessors");
                        if let provisioning::Payload::Revoke(req) = &payload {
                            chk(req.key() == s.ski(K_THIRD) && req.class_name().as_ref() == "rc0", "RevocationRequest key() / class_name() differ from what was put in");
                            let (c, k) = req.clone().unpack();
                            chk(k == req.key() && &c == req.class_name(), "RevocationRequest::unpack() disagrees with the accessors");
                        }
                    }
                    Orig::Pub(m) => {
                        let cms = match PublicationCms::decode(bytes) { Ok(c) => c, Err(e) => return vec![format!("typed decode failed: {e}")] };
                        chk(&cms.clone().into_message() == m, "into_message() != message given to create");
                        let (signed, msg) = cms.clone().unpack();
                        chk(&msg == m, "unpack().1 != message given to create");
                        chk(signed.content().to_bytes() == m.to_xml_bytes(), "unpack().0 does not carry the message's XML");
                        for (k, _) in keys {
                            let key = s.public(k);
                            chk(cms.validate(&key).is_ok() == cms.validate_at(&key, Time::now()).is_ok(), "PublicationCms::validate != validate_at(now)");
                            chk(signed.validate(&key).is_ok() == signed.validate_at(&key, Time::now()).is_ok(), "SignedMessage::validate != validate_at(now)");
                            chk(signed.validate_at(&key, mid).is_ok() == cms.validate_at(&key, mid).is_ok(), "unpacked SignedMessage validates differently from the CMS");
                            chk(cms.validate_at(&key, mid).is_ok() == (k == K_PEER), "typed CMS verdict at mid-window");
                        }
                        let is_query = matches!(msg, publication::Message::Query(_));
                        chk(msg.clone().as_query().is_ok() == is_query && msg.clone().as_reply().is_ok() == !is_query, "as_query() / as_reply() disagree with the variant");
                        let b64 = |c: &Base64, want: &[u8]| -> bool {
                            use base64::Engine;
                            c.as_str() == base64::engine::general_purpose::STANDARD.encode(want) && c.to_bytes().as_ref() == want
                                && (c.size_approx() as i64 - want.len() as i64).abs() <= 3 && c.to_hash().as_slice() == sha256(want).as_slice()
                        };
                        match msg.clone() {
                            publication::Message::Query(publication::Query::Delta(d)) => {
                                chk(d.len() == els.len() && d.is_empty() == els.is_empty(), "PublishDelta len() / is_empty() differ from the number of elements added");
                                let got = d.clone().into_elements();
                                chk(got.len() == d.len(), "into_elements().len() != len()");
                                for (g, (kind, tag, u, content, hash)) in got.into_iter().zip(els.iter()) {
                                    match g {
                                        publication::PublishDeltaElement::Publish(p) => {
                                            chk(*kind == "publish" && p.tag() == tag.as_ref() && p.uri().to_string() == *u && b64(p.content(), content), "Publish accessors differ from what was put in");
                                            let (t, uu, c) = p.clone().unpack();
                                            chk(t.as_ref() == p.tag() && &uu == p.uri() && &c == p.content(), "Publish::unpack() disagrees with the accessors");
                                        }
                                        publication::PublishDeltaElement::Update(p) => {
                                            chk(*kind == "update" && p.tag() == tag.as_ref() && p.uri().to_string() == *u && b64(p.content(), content) && p.hash().as_slice() == hash.as_slice(), "Update accessors differ from what was put in");
                                            let (t, uu, c, h) = p.clone().unpack();
                                            chk(t.as_ref() == p.tag() && &uu == p.uri() && &c == p.content() && &h == p.hash(), "Update::unpack() disagrees with the accessors");
                                        }
                                        publication::PublishDeltaElement::Withdraw(p) => {
                                            chk(*kind == "withdraw" && p.tag() == tag.as_ref() && p.uri().to_string() == *u && p.hash().as_slice() == hash.as_slice(), "Withdraw accessors differ from what was put in");
                                            let (t, uu, h) = p.clone().unpack();
                                            chk(t.as_ref() == p.tag() && &uu == p.uri() && &h == p.hash(), "Withdraw::unpack() disagrees with the accessors");
                                        }
                                    }
                                }
                            }
                            publication::Message::Reply(publication::Reply::List(l)) => {
                                chk(l.elements().len() == els.len() && l.clone().into_elements() == *l.elements(), "ListReply elements() / into_elements() differ");
                                for (e, (_, _, u, _, hash)) in l.elements().iter().zip(els.iter()) {
                                    chk(e.uri().to_string() == *u && e.hash().as_slice() == hash.as_slice(), "ListElement uri() / hash() differ from what was put in");
                                    let (uu, h) = e.clone().unpack();
                                    chk(&uu == e.uri() && &h == e.hash(), "ListElement::unpack() disagrees with the accessors");
                                }
                                let wd = l.clone().into_withdraw_delta();
                                chk(wd.len() == l.elements().len(), "into_withdraw_delta() has another number of elements");
                                for (w, e) in wd.into_elements().into_iter().zip(l.elements().iter()) {
                                    chk(matches!(&w, publication::PublishDeltaElement::Withdraw(x) if x.uri() == e.uri() && x.hash() == e.hash()), "into_withdraw_delta() element differs from the list element");
                                }
                            }
                            _ => {}
                        }
                    }
                }
                bad
            });
            sp.eval(); sp.nontrivial(1);
            match bad {
                Err(p) => fail("C10.no_panic", format!("{nm} sibling sweep"), p),
                Ok(list) => { sp.outcome(if list.is_empty() { "siblings-agree" } else { "siblings-differ" }); for b in list { fail("C10.api.siblings", format!("{nm} ({n}B XML)"), b) } }
            }
        }
        sp.set("content_sizes", serde_json::json!(sizes));
        sp.sample_str(|| sizes.join("; "));
        sp.done(true, &format!("{} messages x 10 instants x 3 keys x 3 routes + one sibling sweep each", made.len()));
    }

    //--- (b1) foreign: benign variations must validate -------------------------------------------------
    let cache = Cache::new();
    {
        let sp = ctx.space("foreign.accept",
            "independent encoder: 6 orders of the mandatory attributes x every set of 0-3 extra signed attributes out of {binary-signing-time, unknown OID with 1 / 100 / 200-octet value} placed after or before x UTCTime/GeneralizedTime x every benign EE spelling (AKI present/absent, basicConstraints absent/empty, critical keyUsage, notBefore = now, notAfter = now, 20-octet serial) x every benign CRL spelling (revoked list empty/absent/other serials with and without entry extensions, AKI absent, CRL number absent, unknown and critical extensions, thisUpdate = now, nextUpdate = now); each dimension crossed with orders x extras, EE x CRL crossed at order ct,md,st; all must validate; non-trivial = distinct total lengths of the signed attributes x distinct (EE, CRL) spellings");
        let ee_ok = [EeV::Plain, EeV::NoAki, EeV::BasicNotCa, EeV::KeyUsage, EeV::NbEqualsNow, EeV::NaEqualsNow, EeV::BigSerial];
        let crl_ok = [CrlV::Plain, CrlV::RevokedAbsent, CrlV::ListsOthers, CrlV::ListsOthersWithExt, CrlV::NoAki, CrlV::NoNumber, CrlV::UnknownExt, CrlV::ThisEqualsNow, CrlV::NextEqualsNow];
        let subsets = extras_subsets();
        let mut jobs: Vec<Plan> = Vec::new();
        for o in &perms { for ex in &subsets { for first in [false, true] { for st_gen in [false, true] {
            if ex.is_empty() && first { continue }
            let mut p = Plan::base(); p.order = *o; p.extras = ex.clone(); p.extras_first = first; p.st_gen = st_gen;
            jobs.push(p.clone());
            if !st_gen && !first {
                for e in ee_ok { if e != EeV::Plain { let mut q = p.clone(); q.ee = e; jobs.push(q) } }
                for c in crl_ok { if c != CrlV::Plain { let mut q = p.clone(); q.crl = c; jobs.push(q) } }
            }
        }}}}
        for e in ee_ok { for c in crl_ok { for ex in [vec![], vec![Extra::Bst, Extra::Unk200]] {
            let mut p = Plan::base(); p.ee = e; p.crl = c; p.extras = ex; jobs.push(p);
        }}}
        let oc: Mutex<BTreeMap<&'static str, u64>> = Mutex::new(BTreeMap::new());
        let lens: Mutex<BTreeSet<usize>> = Mutex::new(BTreeSet::new());
        let spell: Mutex<BTreeSet<(EeV, CrlV)>> = Mutex::new(BTreeSet::new());
        jobs.par_iter().for_each(|p| {
            let bytes = cache.build(&fx, p);
            let alen = der::cat(&plan_attrs(&fx, p).0).len();
            lens.lock().unwrap().insert(alen);
            spell.lock().unwrap().insert((p.ee, p.crl));
            for via in [Via::Strict, Via::Relaxed, Via::Publication] {
                let v = run(&bytes, &fx.peer, T0, via);
                sp.eval(); *oc.lock().unwrap().entry(v.class()).or_insert(0) += 1;
                expect(&ctx, "C10.foreign.accept", "-", true, &v, || format!("{} attrs_len={alen}", p.witness(via)));
            }
        });
        // the same messages under another key and one second outside: the negative twin of the space
        for (k, t, label) in [(K_OTHER, T0, "other key"), (K_PEER, T0 + W + 1, "after notAfter"), (K_PEER, T0 - W - 1, "before notBefore")] {
            let p = Plan::base();
            let v = run(&cache.build(&fx, &p), &s.public(k), t, Via::Strict);
            sp.eval(); sp.outcome(v.class());
            expect(&ctx, "-", "C10.foreign.single.reject", false, &v, || format!("{} evaluated: {label}", p.witness(Via::Strict)));
        }
        let lens = lens.into_inner().unwrap();
        sp.merge_outcomes(&oc.lock().unwrap());
        sp.nontrivial(lens.len() as u64 * spell.lock().unwrap().len() as u64);
        sp.set("attrs_lengths", serde_json::json!(lens));
        if !(lens.iter().any(|&l| l < 128) && lens.iter().any(|&l| (128..256).contains(&l)) && lens.iter().any(|&l| l >= 256)) {
            ctx.machinery_error("foreign.accept does not cross 128 and 256 octets of signed attributes");
        }
        let mut p = Plan::base(); p.extras = vec![Extra::Bst, Extra::Unk100];
        sp.sample_str(|| format!("{} -> signed attributes ({} octets) {}", p.witness(Via::Strict), der::cat(&plan_attrs(&fx, &p).0).len(), trunc(&hex(&der::cat(&plan_attrs(&fx, &p).0)), 160)));
        sp.sample_str(|| format!("signed-attribute lengths reached: {:?}", lens));
        sp.done(true, "6 orders x 15 extra sets x 2 placements x 2 time forms; x 7 EE + 9 CRL spellings; 7 x 9 EE x CRL");
    }

    //--- (b1b) total size of the signed attributes, every length ------------------------------------------------------
    {
        let sp = ctx.space("attrs.size",
            "foreign message with the three mandatory attributes plus one unknown attribute whose value is sized so that the signed attributes total exactly L octets: every L reachable in 100..=300 (two signing-time forms, with / without a second small unknown attribute), order ct,md,st; all 6 orders x sized attribute first / last for L in {127,128,129,255,256,257}; L in {65534, 65535}; correctly signed over the DER SET OF encoding: must validate (strict, relaxed, PublicationCms). Twins signed over the [0]-tagged encoding for the boundary lengths: rejected. L in {65536, 65537}: beyond the documented 65535 limit, the outcome is counted, not judged - except that nothing may panic; non-trivial = distinct total lengths reached (gaps in 100..=300 reported)");
        // candidate settings -> total length
        let total = |p: &Plan| der::cat(&plan_attrs(&fx, p).0).len();
        let mut by_len: BTreeMap<usize, Plan> = BTreeMap::new();
        for with_small in [false, true] { for st_gen in [false, true] { for n in 0..=260usize {
            let mut p = Plan::base(); p.st_gen = st_gen; p.sized_extra = Some((n, false));
            if with_small { p.extras = vec![Extra::Unk1] }
            let l = total(&p);
            if (100..=300).contains(&l) { by_len.entry(l).or_insert(p); }
        }}}
        for st_gen in [false, true] { let mut p = Plan::base(); p.st_gen = st_gen; by_len.entry(total(&p)).or_insert(p); }
        let gaps: Vec<usize> = (100..=300).filter(|l| !by_len.contains_key(l)).collect();
        // (plan, expectation: Some(valid) / None = counted only)
        let mut jobs: Vec<(Plan, Option<bool>)> = by_len.values().map(|p| (p.clone(), Some(true))).collect();
        for l in [127usize, 128, 129, 255, 256, 257] {
            let Some(b) = by_len.get(&l) else { ctx.machinery_error(format!("attrs.size cannot reach {l} octets")); continue };
            for o in &perms { for first in [false, true] {
                let mut p = b.clone(); p.order = *o; if let Some((n, _)) = p.sized_extra { p.sized_extra = Some((n, first)) }
                jobs.push((p.clone(), Some(true)));
                if !first { p.sig = SigV::OverImplicitTag; jobs.push((p, Some(false))) }
            }}
        }
        for target in [65534usize, 65535, 65536, 65537] {
            let mut found = None;
            for n in (target - 200)..target { let mut p = Plan::base(); p.sized_extra = Some((n, false)); if total(&p) == target { found = Some(p); break } }
            match found { Some(p) => jobs.push((p, if target <= 65535 { Some(true) } else { None })), None => ctx.machinery_error(format!("attrs.size cannot reach {target} octets")) }
        }
        let oc: Mutex<BTreeMap<&'static str, u64>> = Mutex::new(BTreeMap::new());
        let lens: Mutex<BTreeSet<usize>> = Mutex::new(BTreeSet::new());
        let ee = cache.ee(&fx, &Plan::base());
        let crl_der = cache.crl(&fx, &Plan::base());
        jobs.par_iter().for_each(|(p, want)| {
            let l = total(p);
            let bytes = assemble(&fx, p, &ee, &crl_der);
            lens.lock().unwrap().insert(l);
            for via in [Via::Strict, Via::Relaxed, Via::Publication] {
                let v = run(&bytes, &fx.peer, T0, via);
                sp.eval();
                let wit = || format!("foreign attrs_len={l} order={} sized-unknown-attribute={:?} extras={:?} st={} signed-over={} via={via:?} when=T0", p.order.iter().map(|&i| ATTR_NAMES[i]).collect::<Vec<_>>().join(","),
                    p.sized_extra, p.extras, if p.st_gen { "generalized" } else { "utc" }, if p.sig == SigV::Ok { "SET OF" } else { "[0]-tagged" });
                match want {
                    Some(w) => { *oc.lock().unwrap().entry(v.class()).or_insert(0) += 1; expect(&ctx, "C10.attrs.size.accept", "C10.attrs.size.reject", *w, &v, wit) }
                    None => {
                        *oc.lock().unwrap().entry(match &v { Verdict::Accept => "over-limit-validated", Verdict::Panic(_) => "panic", _ => "over-limit-rejected" }).or_insert(0) += 1;
                        if let Verdict::Panic(pn) = &v { fail("C10.no_panic", wit(), pn.clone()) }
                    }
                }
            }
        });
        let lens = lens.into_inner().unwrap();
        sp.merge_outcomes(&oc.lock().unwrap());
        sp.nontrivial(lens.len() as u64);
        sp.set("unreached_lengths_100_300", serde_json::json!(gaps));
        sp.set("lengths", serde_json::json!(format!("{} distinct, {}..={}", lens.len(), lens.iter().next().unwrap(), lens.iter().last().unwrap())));
        sp.sample_str(|| format!("{} distinct lengths, unreached in 100..=300: {:?}", lens.len(), gaps));
        for l in [127usize, 128, 129, 255, 256, 257, 65534, 65535] { if !lens.contains(&l) { ctx.machinery_error(format!("attrs.size does not reach {l}")) } }
        sp.done(true, "every reachable total in 100..=300; 6 orders x 2 placements at 127/128/129/255/256/257 (+ twins); 65534..=65537; x 3 decoders");
    }

    //--- (b2) foreign: violations ---------------------------------------------------------------------------
    {
        let sp = ctx.space("foreign.violations",
            "every single violation (digest 4, signature 4, EE 4, CRL 7, profile 6 variants) x 6 orders x extras {none, bst+unk100 (>=128), bst+unk100+unk200 (>=256)}; all pairs of violations of two different conditions x 6 orders x the three extras settings; strict, relaxed and typed decoders; none may validate; non-trivial = distinct messages");
        let viols = all_violations();
        let ex_menu: Vec<Vec<Extra>> = vec![vec![], vec![Extra::Bst, Extra::Unk100], vec![Extra::Bst, Extra::Unk100, Extra::Unk200]];
        let mut jobs: Vec<(Plan, usize)> = Vec::new();
        for v in &viols { for o in &perms { for ex in &ex_menu {
            // "signed over the mandatory attributes only" differs from a correct signature only when there are extras
            if matches!(v, Viol::S(SigV::OverMandatoryOnly)) && ex.is_empty() { continue }
            let mut p = Plan::base(); p.order = *o; p.extras = ex.clone(); v.apply(&mut p); jobs.push((p, 1));
        }}}
        let pair_orders: Vec<[usize; 3]> = perms.clone();
        let mut npairs = 0;
        for (i, a) in viols.iter().enumerate() { for b in viols.iter().skip(i + 1) {
            if a.cond() == b.cond() || a.field() == b.field() { continue }
            npairs += 1;
            for o in &pair_orders { for ex in &ex_menu {
                if (matches!(a, Viol::S(SigV::OverMandatoryOnly)) || matches!(b, Viol::S(SigV::OverMandatoryOnly))) && ex.is_empty() { continue }
                let mut p = Plan::base(); p.order = *o; p.extras = ex.clone(); a.apply(&mut p); b.apply(&mut p); jobs.push((p, 2));
            }}
        }}
        // pairs inside one plan field (EE issuer + EE validity, ...) need combined spellings; covered by dedicated certificates below
        let oc: Mutex<BTreeMap<&'static str, u64>> = Mutex::new(BTreeMap::new());
        let distinct: Mutex<BTreeSet<[u8; 8]>> = Mutex::new(BTreeSet::new());
        jobs.par_iter().for_each(|(p, n)| {
            let bytes = cache.build(&fx, p);
            { let h = sha256(&bytes); let mut k = [0u8; 8]; k.copy_from_slice(&h[..8]); distinct.lock().unwrap().insert(k); }
            for via in [Via::Strict, Via::Relaxed, Via::Publication] {
                let v = run(&bytes, &fx.peer, T0, via);
                sp.eval(); *oc.lock().unwrap().entry(v.class()).or_insert(0) += 1;
                let or = if *n == 2 { "C10.foreign.pair.reject" } else if p.stated_ok() { "C10.foreign.profile.reject" } else { "C10.foreign.single.reject" };
                expect(&ctx, "-", or, false, &v, || p.witness(via));
            }
        });
        // same-field pairs: EE signed by other key AND expired / cA; CRL by other key AND stale / listing
        {
            let base_ee = EeSpec { serial: EE_SERIAL.to_vec(), nb: T0 - W, na: T0 + W, subject_key: K_EE, sign_key: K_PEER, ski: None, aki: Some(s.key(K_PEER).ski.to_vec()), basic: Basic::Absent, key_usage_ext: false, issuer: 0, subject: 0 };
            let base_crl = CrlSpec { this: T0 - W, next: T0 + W, sign_key: K_PEER, revoked: Some(vec![]), aki: Some(s.key(K_PEER).ski.to_vec()), number: Some(1), unknown_ext: false, ext_block: true, ign: CrlIgn::DEFAULT, ee_serial: EE_SERIAL.to_vec() };
            let mut combos: Vec<(String, EeSpec, CrlSpec)> = Vec::new();
            let mut e = base_ee.clone(); e.sign_key = K_OTHER; e.na = T0 - 1; combos.push(("ee: other key + expired".into(), e, base_crl.clone()));
            let mut e = base_ee.clone(); e.sign_key = K_OTHER; e.basic = Basic::CaTrue; combos.push(("ee: other key + cA".into(), e, base_crl.clone()));
            let mut e = base_ee.clone(); e.nb = T0 + 1; e.basic = Basic::CaTrue; combos.push(("ee: not yet valid + cA".into(), e, base_crl.clone()));
            let mut c = base_crl.clone(); c.sign_key = K_OTHER; c.next = T0 - 1; combos.push(("crl: other key + stale".into(), base_ee.clone(), c));
            let mut c = base_crl.clone(); c.sign_key = K_OTHER; c.revoked = Some(vec![(EE_SERIAL.to_vec(), false)]); combos.push(("crl: other key + lists ee".into(), base_ee.clone(), c));
            let mut c = base_crl.clone(); c.this = T0 + 1; c.revoked = Some(vec![(EE_SERIAL.to_vec(), false)]); combos.push(("crl: future + lists ee".into(), base_ee.clone(), c));
            for (label, e, c) in combos {
                let bytes = assemble(&fx, &Plan::base(), &ee_cert(s, &e), &crl(s, &c));
                for via in [Via::Strict, Via::Relaxed] {
                    let v = run(&bytes, &fx.peer, T0, via);
                    sp.eval(); *oc.lock().unwrap().entry(v.class()).or_insert(0) += 1;
                    expect(&ctx, "-", "C10.foreign.pair.reject", false, &v, || format!("foreign order=ct,md,st extras=[] {label} via={via:?} when=T0"));
                }
            }
        }
        // informational only (no oracle): a CRL without any crlExtensions block
        {
            let c = CrlSpec { this: T0 - W, next: T0 + W, sign_key: K_PEER, revoked: None, aki: None, number: None, unknown_ext: false, ext_block: false, ign: CrlIgn::DEFAULT, ee_serial: EE_SERIAL.to_vec() };
            let bytes = assemble(&fx, &Plan::base(), &cache.ee(&fx, &Plan::base()), &crl(s, &c));
            let v = run(&bytes, &fx.peer, T0, Via::Relaxed);
            if let Verdict::Panic(pn) = &v { fail("C10.no_panic", "foreign order=ct,md,st extras=[] crl without crlExtensions via=Relaxed when=T0", pn.clone()) }
            sp.set("crl_without_extension_block", serde_json::json!(v.show()));
        }
        // BER spelling inside the revoked list (non-minimal length of the revocation date): DER decoding must refuse it,
        // relaxed decoding may do either, nothing may panic
        {
            let ser = |b: &[u8]| der::seq(&[der::int_bytes(b), { let t = x509_time(T0 - 1000); let mut v = vec![t[0], 0x81, t[1]]; v.extend_from_slice(&t[2..]); v }]);
            for (label, listed) in [("other serial", vec![0x01u8]), ("ee serial", EE_SERIAL.to_vec())] {
                let tbs = der::seq(&[der::int_u(1), der::alg_sha256_with_rsa(), name("peer-ta"), x509_time(T0 - W), x509_time(T0 + W),
                    der::seq(&[ser(&[0x55]), ser(&listed)]),
                    der::ctx(0, true, &der::seq(&[ext(OID_CRL_NUMBER, false, &der::int_u(9))]))]);
                let bytes = assemble(&fx, &Plan::base(), &cache.ee(&fx, &Plan::base()), &pki::sign_tbs(s, K_PEER, &tbs));
                for via in [Via::Strict, Via::Relaxed, Via::Provisioning] {
                    let v = run(&bytes, &fx.peer, T0, via);
                    sp.eval(); *oc.lock().unwrap().entry(v.class()).or_insert(0) += 1;
                    let w = || format!("foreign order=ct,md,st extras=[] crl revoked list with BER long-form length on revocationDate, lists {label} via={via:?} when=T0");
                    match &v {
                        Verdict::Panic(pn) => fail("C10.no_panic", w(), pn.clone()),
                        Verdict::Accept if via == Via::Strict || label == "ee serial" => fail("C10.foreign.single.reject", w(), "validated"),
                        _ => {}
                    }
                }
            }
        }
        // the all-satisfied twin
        let v = run(&cache.build(&fx, &Plan::base()), &fx.peer, T0, Via::Strict);
        sp.eval(); *oc.lock().unwrap().entry(v.class()).or_insert(0) += 1;
        expect(&ctx, "C10.foreign.accept", "-", true, &v, || Plan::base().witness(Via::Strict));
        sp.merge_outcomes(&oc.lock().unwrap());
        sp.nontrivial(distinct.lock().unwrap().len() as u64);
        sp.set("single_variants", serde_json::json!(viols.len()));
        sp.set("pairs", serde_json::json!(npairs));
        let mut p = Plan::base(); p.crl = CrlV::ListsEeMiddle; p.sig = SigV::OverMandatoryOnly; p.extras = vec![Extra::Bst, Extra::Unk100];
        sp.sample_str(|| p.witness(Via::Relaxed));
        sp.done(true, &format!("{} single variants x 6 orders x 3 extras settings + {} pairs x {} orders x 3 + 6 same-field pairs, x 3 decoders", viols.len(), npairs, pair_orders.len()));
    }

    //--- (b3) foreign: product of composable spellings and violations ----------------------------------------------
    {
        let sp = ctx.space("foreign.product",
            "EE certificate options {AKI right/absent/wrong, basicConstraints absent/empty/cA, critical keyUsage, 20-octet serial, signed by peer/other key, window T0+-300 / T0+-1000 s, SKI extension right/other} (288) and CRL options {AKI right/absent/wrong, CRL number, unknown extensions, 8 revoked-list shapes (4 without, 4 with the EE serial), signed by peer/other key, window T0+-300 / T0+-1000 s} (384), benign spellings and violations alike: quick = (all EE x CRL base-and-single-deviations) + (EE base-and-single-deviations x all CRL), thorough = all EE x all CRL; each message evaluated at T0 + {-1001,-1000,-301,-300,0,300,301,1000,1001} s (inside one window and outside the other included), strict and relaxed. Second part: 6 orders x 3 extras settings x 2 time forms x {no, each digest, each signature, sid, content-type violation} x EE and CRL base-and-single-deviations at T0. Third part: 10 benign EE x 10 benign CRL spellings (each window narrow or wide) x 20 instants at -1 ns, 0, +1 ns, +0.5 s, +0.999999999 s around each of the four window bounds, compared exactly. Model: validates <=> every condition holds (signature, digest; EE signed by peer, not a CA, window contains t; CRL signed by peer, window contains t, EE serial not listed; profile: key identifiers, sid, content type); non-trivial = cases where at least one condition is violated");
        let offsets: [i64; 9] = [-1001, -1000, -301, -300, 0, 300, 301, 1000, 1001];
        let (ee_all, crl_all, ee_red, crl_red) = (ee_full(), crl_full(), ee_reduced(), crl_reduced());
        let ee_certs: BTreeMap<EeO, Vec<u8>> = ee_all.par_iter().map(|o| (*o, ee_from(s, o))).collect();
        let crl_keys: Vec<(CrlO, bool)> = crl_all.iter().flat_map(|o| [(*o, false), (*o, true)]).collect();
        let crls: BTreeMap<(CrlO, bool), Vec<u8>> = crl_keys.par_iter().map(|k| (*k, crl_from(s, &k.0, k.1))).collect();
        let mut pairs: BTreeSet<(EeO, CrlO)> = BTreeSet::new();
        if thorough { for e in &ee_all { for c in &crl_all { pairs.insert((*e, *c)); } } }
        else {
            for e in &ee_all { for c in &crl_red { pairs.insert((*e, *c)); } }
            for e in &ee_red { for c in &crl_all { pairs.insert((*e, *c)); } }
        }
        let pairs: Vec<(EeO, CrlO)> = pairs.into_iter().collect();
        let base = Plan::base();
        let base_signed = presign(&fx, &base);
        let oc: Mutex<BTreeMap<&'static str, u64>> = Mutex::new(BTreeMap::new());
        let nt = Mutex::new(0u64);
        let judge = |e: &EeO, c: &CrlO, off: i64, attrs_stated: bool, attrs_prof: bool| -> (bool, bool) {
            let stated = attrs_stated && !e.other_key && e.basic != 2 && within(e.wide, off) && !c.other_key && within(c.wide, off) && c.revoked < 4;
            let prof = attrs_prof && e.aki != 2 && c.aki != 2 && !e.ski_other;
            (stated, prof)
        };
        pairs.par_iter().for_each(|(e, c)| {
            let bytes = wrap(&fx, &base, &base_signed, e.ski_other, &ee_certs[e], &crls[&(*c, e.big_serial)]);
            let mut local: BTreeMap<&'static str, u64> = BTreeMap::new();
            let mut n = 0u64;
            for off in offsets { for via in [Via::Strict, Via::Relaxed] {
                let v = run(&bytes, &fx.peer, T0 + off, via);
                *local.entry(v.class()).or_insert(0) += 1;
                let (stated, prof) = judge(e, c, off, true, true);
                if !(stated && prof) { n += 1 }
                let or = if stated { "C10.foreign.profile.reject" } else { "C10.foreign.product.reject" };
                expect(&ctx, "C10.foreign.accept", or, stated && prof, &v, || format!("foreign order=ct,md,st extras=[] {} {} via={via:?} when=T0{off:+}s (narrow=T0+-300s wide=T0+-1000s)", show_ee(e), show_crl(c)));
            }}
            sp.evals(18);
            *nt.lock().unwrap() += n;
            let mut g = oc.lock().unwrap(); for (k, v) in local { *g.entry(k).or_insert(0) += v }
        });
        // second part: attribute settings x reduced certificate / CRL menus at T0
        let mut aplans: Vec<Plan> = Vec::new();
        let ex_menu: Vec<Vec<Extra>> = vec![vec![], vec![Extra::Bst, Extra::Unk100], vec![Extra::Bst, Extra::Unk100, Extra::Unk200]];
        let mut aviols: Vec<Option<Viol>> = vec![None];
        aviols.extend([DigestV::FlipFirst, DigestV::FlipLast, DigestV::Short31, DigestV::OfOtherContent].map(|x| Some(Viol::D(x))));
        aviols.extend([SigV::OtherKey, SigV::OverImplicitTag, SigV::OverMandatoryOnly, SigV::FlipLastBit].map(|x| Some(Viol::S(x))));
        aviols.extend([ProfV::SidOther, ProfV::CtAttrOther, ProfV::CtBothOther].map(|x| Some(Viol::P(x))));
        for o in &perms { for ex in &ex_menu { for st_gen in [false, true] { for av in &aviols {
            if matches!(av, Some(Viol::S(SigV::OverMandatoryOnly))) && ex.is_empty() { continue }
            let mut p = Plan::base(); p.order = *o; p.extras = ex.clone(); p.st_gen = st_gen;
            if let Some(v) = av { v.apply(&mut p) }
            aplans.push(p);
        }}}}
        let asigned: Vec<Presigned> = aplans.par_iter().map(|p| presign(&fx, p)).collect();
        (0..aplans.len()).into_par_iter().for_each(|ai| {
            let p = &aplans[ai];
            let mut local: BTreeMap<&'static str, u64> = BTreeMap::new();
            let mut n = 0u64;
            for e in &ee_red { for c in &crl_red {
                let bytes = wrap(&fx, p, &asigned[ai], e.ski_other, &ee_certs[e], &crls[&(*c, e.big_serial)]);
                for via in [Via::Strict, Via::Relaxed] {
                    let v = run(&bytes, &fx.peer, T0, via);
                    *local.entry(v.class()).or_insert(0) += 1;
                    let (stated, prof) = judge(e, c, 0, p.digest == DigestV::Ok && p.sig == SigV::Ok, p.prof == ProfV::Ok);
                    if !(stated && prof) { n += 1 }
                    let or = if stated { "C10.foreign.profile.reject" } else { "C10.foreign.product.reject" };
                    expect(&ctx, "C10.foreign.accept", or, stated && prof, &v, || format!("foreign order={} extras={:?} st={} attrs-violated=[{}] {} {} via={via:?} when=T0",
                        p.order.iter().map(|&i| ATTR_NAMES[i]).collect::<Vec<_>>().join(","), p.extras, if p.st_gen { "generalized" } else { "utc" }, p.violated().join(" "), show_ee(e), show_crl(c)));
                }
            }}
            sp.evals((ee_red.len() * crl_red.len() * 2) as u64);
            *nt.lock().unwrap() += n;
            let mut g = oc.lock().unwrap(); for (k, v) in local { *g.entry(k).or_insert(0) += v }
        });
        // third part: instants a fraction of a second around every window bound, one window at a time narrower than the other
        let ns_menu: [(i64, u32); 5] = [(-1, 999_999_999), (0, 0), (0, 1), (0, 500_000_000), (0, 999_999_999)];
        let mut sub: Vec<(i64, u32)> = Vec::new();
        for b in [-WIDE, -NARROW, NARROW, WIDE] { for (ds, ns) in ns_menu { sub.push((b + ds, ns)) } }
        let within_ns = |wide: bool, off: i64, ns: u32| { let w = if wide { WIDE } else { NARROW }; (-w, 0) <= (off, ns) && (off, ns) <= (w, 0) };
        let mut ee_sub: Vec<EeO> = Vec::new();
        for wide in [false, true] { for b in [EE_BASE, EeO { aki: 1, ..EE_BASE }, EeO { basic: 1, ..EE_BASE }, EeO { key_usage: true, ..EE_BASE }, EeO { big_serial: true, ..EE_BASE }] { ee_sub.push(EeO { wide, ..b }) } }
        let mut crl_sub: Vec<CrlO> = Vec::new();
        for wide in [false, true] { for b in [CRL_BASE, CrlO { aki: 1, ..CRL_BASE }, CrlO { number: false, ..CRL_BASE }, CrlO { unknown_ext: true, ..CRL_BASE }, CrlO { revoked: 2, ..CRL_BASE }] { crl_sub.push(CrlO { wide, ..b }) } }
        let sub_pairs: Vec<(EeO, CrlO)> = ee_sub.iter().flat_map(|e| crl_sub.iter().map(move |c| (*e, *c))).collect();
        sub_pairs.par_iter().for_each(|(e, c)| {
            let bytes = wrap(&fx, &base, &base_signed, false, &ee_certs[e], &crls[&(*c, e.big_serial)]);
            let mut local: BTreeMap<&'static str, u64> = BTreeMap::new();
            let mut n = 0u64;
            for &(off, ns) in &sub { for via in [Via::Strict, Via::Relaxed] {
                let v = run_ns(&bytes, &fx.peer, T0 + off, ns, via);
                *local.entry(v.class()).or_insert(0) += 1;
                let want = within_ns(e.wide, off, ns) && within_ns(c.wide, off, ns);
                if !want { n += 1 }
                expect(&ctx, "C10.foreign.accept", "C10.foreign.product.reject", want, &v, || format!("foreign order=ct,md,st extras=[] {} {} via={via:?} when=T0{off:+}s+{ns}ns (narrow=T0+-300s wide=T0+-1000s, compared exactly)", show_ee(e), show_crl(c)));
            }}
            sp.evals((sub.len() * 2) as u64);
            *nt.lock().unwrap() += n;
            let mut g = oc.lock().unwrap(); for (k, v) in local { *g.entry(k).or_insert(0) += v }
        });
        sp.merge_outcomes(&oc.lock().unwrap());
        sp.nontrivial(*nt.lock().unwrap());
        sp.set("sub_second_instants", serde_json::json!(sub.iter().map(|(o, n)| format!("T0{o:+}s+{n}ns")).collect::<Vec<_>>()));
        sp.set("ee_option_sets", serde_json::json!(ee_all.len()));
        sp.set("crl_option_sets", serde_json::json!(crl_all.len()));
        sp.set("certificate_crl_pairs", serde_json::json!(pairs.len()));
        sp.set("attribute_settings", serde_json::json!(aplans.len()));
        sp.sample_str(|| format!("foreign order=ct,md,st extras=[] {} {} via=Strict when=T0+301s -> rejected (CRL stale, EE certificate still valid)", show_ee(&EeO { wide: true, ..EE_BASE }), show_crl(&CrlO { aki: 1, ..CRL_BASE })));
        sp.done(true, &format!("{} (EE, CRL) option pairs x 9 instants x 2 decoders; {} attribute settings x {} x {} reduced menus x 2 decoders; {} benign (EE, CRL) pairs x {} sub-second instants x 2 decoders", pairs.len(), aplans.len(), ee_red.len(), crl_red.len(), sub_pairs.len(), sub.len()));
    }

    //--- (b4) foreign: fields the acceptance predicate must ignore -------------------------------------------------
    {
        let sp = ctx.space("foreign.ignored",
            "fields that must not influence the verdict, varied against listing state, windows and evaluation instants. Part A: revocation date of the entry listing the EE serial x revocation date of all other entries, each in {long before thisUpdate, = thisUpdate, T0+150 s (inside the window, after the earlier instants), = nextUpdate, a day after nextUpdate, year 2052 (GeneralizedTime), year 1949 (GeneralizedTime)} x revoked-list shape {others, others+ext, ee-only, ee-first, ee-middle, ee-last, ee-only with a leading-zero INTEGER} x CRL window narrow/wide x EE window narrow/wide x 9 instants x strict/relaxed. Part B: base and every single deviation (thorough: every pair) of {entry extensions 2, CRL number value 3, CRL issuer name 2, EE issuer name 2, EE subject name 2, signing-time value 3 (future, epoch, 2052), binary-signing-time value 2, signature-algorithm spelling 3, digest-algorithm NULL parameters in SignedData only / SignerInfo only / both} x shape {empty, others, others+ext, ee-only, ee-middle, ee-last} x CRL AKI right/absent x the 10 EE base-and-single-deviation options x 9 instants x 2 decoders. Model: exactly the product-space model, blind to all of these fields (the leading-zero spelling may be refused at decode but must never validate); non-trivial = cases in which a listed EE serial carries a revocation date after the evaluation instant, or an ignored field deviates");
        let offsets: [i64; 9] = [-1001, -1000, -301, -300, 0, 300, 301, 1000, 1001];
        let judge = |e: &EeO, c: &CrlO, off: i64| -> (bool, bool) {
            let stated = !e.other_key && e.basic != 2 && within(e.wide, off) && !c.other_key && within(c.wide, off) && c.revoked < 4;
            let prof = e.aki != 2 && c.aki != 2 && !e.ski_other;
            (stated, prof)
        };
        let oc: Mutex<BTreeMap<&'static str, u64>> = Mutex::new(BTreeMap::new());
        let nt = Mutex::new(0u64);
        let base = Plan::base();
        let base_signed = presign(&fx, &base);
        // Part A
        let mut a_jobs: Vec<(CrlO, CrlIgn)> = Vec::new();
        for wide in [false, true] { for shape in [2u8, 3, 4, 5, 6, 7, 8] { for ee_date in 0..N_DATES { for other_date in 0..N_DATES {
            if shape < 4 && ee_date != 0 { continue }          // no EE entry: its date does not exist
            if (shape == 4 || shape == 8) && other_date != 0 { continue } // no other entries
            let c = CrlO { revoked: if shape == 8 { 4 } else { shape }, wide, ..CRL_BASE };
            a_jobs.push((c, CrlIgn { ee_date, other_date, ee_leading_zero: shape == 8, ..CrlIgn::DEFAULT }));
        }}}}
        let ee_narrow = ee_from(s, &EE_BASE);
        let ee_wide = ee_from(s, &EeO { wide: true, ..EE_BASE });
        a_jobs.par_iter().for_each(|(c, ign)| {
            let crl_der = crl_from_ign(s, c, false, *ign);
            let mut local: BTreeMap<&'static str, u64> = BTreeMap::new();
            let mut n = 0u64;
            for (e, ee_der) in [(EE_BASE, &ee_narrow), (EeO { wide: true, ..EE_BASE }, &ee_wide)] {
                let bytes = wrap(&fx, &base, &base_signed, false, ee_der, &crl_der);
                for off in offsets { for via in [Via::Strict, Via::Relaxed] {
                    let v = run(&bytes, &fx.peer, T0 + off, via);
                    *local.entry(v.class()).or_insert(0) += 1;
                    let (stated, prof) = judge(&e, c, off);
                    let w = if c.wide { WIDE } else { NARROW };
                    if c.revoked >= 4 && entry_date(ign.ee_date, T0 - w, T0 + w) > T0 + off { n += 1 }
                    let wit = || format!("foreign order=ct,md,st extras=[] {} {} ee-entry-date={} other-entries-date={} ee-serial-leading-zero={} via={via:?} when=T0{off:+}s (dates: 0 thisUpdate-1000s, 1 thisUpdate, 2 T0+150s, 3 nextUpdate, 4 nextUpdate+1d, 5 year 2052, 6 year 1949)",
                        show_ee(&e), show_crl(c), ign.ee_date, ign.other_date, ign.ee_leading_zero);
                    // the non-minimal INTEGER may be refused outright; demanding acceptance of an unrelated-date CRL stays in force otherwise
                    if ign.ee_leading_zero { expect(&ctx, "-", "C10.foreign.ignored.reject", false, &v, wit) }
                    else { expect(&ctx, "C10.foreign.ignored.accept", "C10.foreign.ignored.reject", stated && prof, &v, wit) }
                }}
            }
            sp.evals(36);
            *nt.lock().unwrap() += n;
            let mut g = oc.lock().unwrap(); for (k, v) in local { *g.entry(k).or_insert(0) += v }
        });
        // Part B
        #[derive(Clone, Copy, Debug, PartialEq, Eq)]
        struct Ign { crl: CrlIgn, ee_issuer: u8, ee_subject: u8, st: u8, bst: u8, sig_alg: u8, digest_null: u8 }
        let ign0 = Ign { crl: CrlIgn::DEFAULT, ee_issuer: 0, ee_subject: 0, st: 0, bst: 0, sig_alg: 0, digest_null: 0 };
        // (field number, setter)
        let mut devs: Vec<(u8, Box<dyn Fn(&mut Ign) + Sync>)> = Vec::new();
        for v in 1..3u8 { devs.push((0, Box::new(move |i: &mut Ign| i.crl.entry_ext = v))) }
        for v in 1..4u8 { devs.push((1, Box::new(move |i: &mut Ign| i.crl.number = v))) }
        for v in 1..3u8 { devs.push((2, Box::new(move |i: &mut Ign| i.crl.issuer = v))) }
        for v in 1..3u8 { devs.push((3, Box::new(move |i: &mut Ign| i.ee_issuer = v))) }
        for v in 1..3u8 { devs.push((4, Box::new(move |i: &mut Ign| i.ee_subject = v))) }
        for v in 1..4u8 { devs.push((5, Box::new(move |i: &mut Ign| i.st = v))) }
        for v in 1..3u8 { devs.push((6, Box::new(move |i: &mut Ign| i.bst = v))) }
        for v in 1..4u8 { devs.push((7, Box::new(move |i: &mut Ign| i.sig_alg = v))) }
        for v in 1..4u8 { devs.push((8, Box::new(move |i: &mut Ign| i.digest_null = v))) }
        let mut igns: Vec<Ign> = vec![ign0];
        for (_, f) in &devs { let mut i = ign0; f(&mut i); igns.push(i) }
        if thorough {
            for (a, (fa, f)) in devs.iter().enumerate() { for (fb, g) in devs.iter().skip(a + 1) { if fa != fb { let mut i = ign0; f(&mut i); g(&mut i); igns.push(i) } } }
        }
        let ee_red = ee_reduced();
        let mut b_jobs: Vec<(Ign, CrlO, EeO)> = Vec::new();
        for i in &igns { for shape in [0u8, 2, 3, 4, 6, 7] { for aki in [0u8, 1] { for e in &ee_red {
            b_jobs.push((*i, CrlO { revoked: shape, aki, ..CRL_BASE }, *e));
        }}}}
        let st_value = |v: u8| match v { 0 => T0 - 60, 1 => T0 + 1_000_000, 2 => 0, _ => 2_600_000_000i64 };
        b_jobs.par_iter().for_each(|(ign, c, e)| {
            let mut p = Plan::base();
            p.st_secs = st_value(ign.st); p.sig_alg = ign.sig_alg; p.digest_null = ign.digest_null;
            if ign.bst != 0 { p.extras = vec![Extra::Bst]; p.bst_secs = if ign.bst == 1 { T0 + 1_000_000 } else { 1 } }
            let ps = presign(&fx, &p);
            let w = if e.wide { WIDE } else { NARROW };
            let ee_der = ee_cert(s, &EeSpec { serial: big_or_small_serial(e.big_serial), nb: T0 - w, na: T0 + w, subject_key: K_EE, sign_key: if e.other_key { K_OTHER } else { K_PEER },
                ski: if e.ski_other { Some(s.key(K_EE2).ski.to_vec()) } else { None }, aki: aki_value(s, e.aki),
                basic: match e.basic { 0 => Basic::Absent, 1 => Basic::EmptySeq, _ => Basic::CaTrue }, key_usage_ext: e.key_usage, issuer: ign.ee_issuer, subject: ign.ee_subject });
            let crl_der = crl_from_ign(s, c, e.big_serial, ign.crl);
            let bytes = wrap(&fx, &p, &ps, e.ski_other, &ee_der, &crl_der);
            let mut local: BTreeMap<&'static str, u64> = BTreeMap::new();
            for off in offsets { for via in [Via::Strict, Via::Relaxed] {
                let v = run(&bytes, &fx.peer, T0 + off, via);
                *local.entry(v.class()).or_insert(0) += 1;
                let (stated, prof) = judge(e, c, off);
                expect(&ctx, "C10.foreign.ignored.accept", "C10.foreign.ignored.reject", stated && prof, &v,
                    || format!("foreign order=ct,md,st {} {} ignored-fields={{entry-ext={} crl-number={} crl-issuer={} ee-issuer={} ee-subject={} signing-time={} binary-signing-time={} sig-alg={} digest-null={}}} via={via:?} when=T0{off:+}s",
                        show_ee(e), show_crl(c), ign.crl.entry_ext, ign.crl.number, ign.crl.issuer, ign.ee_issuer, ign.ee_subject, ign.st, ign.bst, ign.sig_alg, ign.digest_null));
            }}
            sp.evals(18);
            if *ign != ign0 { *nt.lock().unwrap() += 18 }
            let mut g = oc.lock().unwrap(); for (k, v) in local { *g.entry(k).or_insert(0) += v }
        });
        sp.merge_outcomes(&oc.lock().unwrap());
        sp.nontrivial(*nt.lock().unwrap());
        sp.set("date_crls", serde_json::json!(a_jobs.len()));
        sp.set("ignored_field_settings", serde_json::json!(igns.len()));
        sp.sample_str(|| format!("{} ee-entry-date=2 (T0+150s) when=T0-300s -> rejected: the EE serial is listed, whatever the entry's date", show_crl(&CrlO { revoked: 6, ..CRL_BASE })));
        sp.done(true, &format!("{} dated CRLs x 2 EE windows x 9 instants x 2 decoders; {} ignored-field settings x 6 shapes x 2 x 10 EE options x 9 instants x 2 decoders", a_jobs.len(), igns.len()));
    }

    //--- (b5) history independence: repeated validation of one decoded value -------------------------------------------
    {
        let sp = ctx.space("history.independence",
            "16 foreign messages (EE AKI right/absent x CRL AKI right/absent x {EE narrow + CRL wide, EE wide + CRL narrow} x revoked list {empty, lists the EE}) and one library-created message; each decoded ONCE (SignedMessage strict, relaxed, PublicationCms; the created message also as created) and validate_at called on that same value over all ordered pairs and triples of the 6 settings {peer key, other key} x {T0, T0+301 s, T0-1001 s}: every verdict must equal that of a freshly decoded value under the same setting, which must equal the model; non-trivial = steps that follow a step with a different verdict");
        let settings: Vec<(usize, i64)> = [K_PEER, K_OTHER].into_iter().flat_map(|k| [0i64, 301, -1001].into_iter().map(move |o| (k, o))).collect();
        let mut seqs: Vec<Vec<usize>> = Vec::new();
        for a in 0..settings.len() { for b in 0..settings.len() { seqs.push(vec![a, b]); for c in 0..settings.len() { seqs.push(vec![a, b, c]) } } }
        // (label, bytes, model per setting)
        let mut msgs: Vec<(String, Vec<u8>, Vec<bool>)> = Vec::new();
        let base = Plan::base();
        let ps = presign(&fx, &base);
        for eaki in [0u8, 1] { for caki in [0u8, 1] { for ee_wide in [false, true] { for revoked in [0u8, 4] {
            let e = EeO { aki: eaki, wide: ee_wide, ..EE_BASE };
            let c = CrlO { aki: caki, wide: !ee_wide, revoked, ..CRL_BASE };
            let bytes = wrap(&fx, &base, &ps, false, &ee_from(s, &e), &crl_from(s, &c, false));
            let model = settings.iter().map(|&(k, off)| k == K_PEER && within(e.wide, off) && within(c.wide, off) && revoked < 4).collect();
            msgs.push((format!("foreign {} {}", show_ee(&e), show_crl(&c)), bytes, model));
        }}}}
        let created = guard(|| SignedMessage::create(Bytes::from(fx.content.clone()), Validity::new(pki::time(T0 - NARROW), pki::time(T0 + NARROW)), &s.kid(K_PEER), s));
        let created = match created { Ok(Ok(m)) => Some(m), Ok(Err(e)) => { fail("C10.created.valid_within", "history seed", format!("create failed: {e}")); None } Err(p) => { fail("C10.no_panic", "history seed", p); None } };
        if let Some(m) = &created {
            let model = settings.iter().map(|&(k, off)| k == K_PEER && within(false, off)).collect();
            msgs.push(("library-created window=T0+-300s".to_string(), m.to_captured().into_bytes().to_vec(), model));
        }
        enum Dec { Msg(SignedMessage), Pub(PublicationCms) }
        let oc: Mutex<BTreeMap<&'static str, u64>> = Mutex::new(BTreeMap::new());
        let show = |si: usize| format!("({}, T0{:+}s)", if settings[si].0 == K_PEER { "peer key" } else { "other key" }, settings[si].1);
        msgs.par_iter().enumerate().for_each(|(mi, (label, bytes, model))| {
            let mut routes: Vec<&str> = vec!["strict", "relaxed", "publication-cms"];
            if mi == msgs.len() - 1 && created.is_some() { routes.push("as-created") }
            for route in routes {
                let decode = || -> Option<Dec> {
                    match route {
                        "strict" => SignedMessage::decode(Bytes::copy_from_slice(bytes), true).ok().map(Dec::Msg),
                        "relaxed" => SignedMessage::decode(Bytes::copy_from_slice(bytes), false).ok().map(Dec::Msg),
                        "publication-cms" => PublicationCms::decode(bytes).ok().map(Dec::Pub),
                        _ => created.clone().map(Dec::Msg),
                    }
                };
                let step = |d: &Dec, si: usize| -> Result<bool, String> {
                    let key = s.public(settings[si].0);
                    let t = pki::time(T0 + settings[si].1);
                    guard(|| match d { Dec::Msg(m) => m.validate_at(&key, t).is_ok(), Dec::Pub(m) => m.validate_at(&key, t).is_ok() })
                };
                let mut local: BTreeMap<&'static str, u64> = BTreeMap::new();
                let mut fresh = Vec::new();
                let mut ok = true;
                for si in 0..settings.len() {
                    let Some(d) = decode() else { fail("C10.history.fresh", format!("{label} route={route}"), "valid message does not decode"); ok = false; break };
                    sp.eval();
                    match step(&d, si) {
                        Err(pn) => { fail("C10.no_panic", format!("{label} route={route} fresh {}", show(si)), pn); fresh.push(false) }
                        Ok(a) => {
                            *local.entry(if a { "validated" } else { "rejected" }).or_insert(0) += 1;
                            if a != model[si] { fail("C10.history.fresh", format!("{label} route={route} fresh {}", show(si)), format!("validated={a}, model says {}", model[si])) }
                            fresh.push(a)
                        }
                    }
                }
                if !ok { continue }
                let Some(shared) = decode() else { continue };
                for sq in &seqs {
                    let mut prev: Option<bool> = None;
                    for (pos, &si) in sq.iter().enumerate() {
                        sp.eval();
                        let a = match step(&shared, si) { Ok(a) => a, Err(pn) => { fail("C10.no_panic", format!("{label} route={route} sequence {}", sq.iter().map(|&i| show(i)).collect::<Vec<_>>().join(" -> ")), pn); break } };
                        *local.entry(if a { "validated" } else { "rejected" }).or_insert(0) += 1;
                        if prev.is_some() && prev != Some(fresh[si]) { sp.nontrivial(1) }
                        if a != fresh[si] {
                            fail("C10.history.independent", format!("{label} route={route} same decoded value, sequence {} (step {})", sq.iter().map(|&i| show(i)).collect::<Vec<_>>().join(" -> "), pos + 1),
                                format!("step {} gave validated={a}, a freshly decoded value gives validated={}", pos + 1, fresh[si]));
                        }
                        prev = Some(a);
                    }
                }
                let mut g = oc.lock().unwrap(); for (k, v) in local { *g.entry(k).or_insert(0) += v }
            }
        });
        sp.merge_outcomes(&oc.lock().unwrap());
        sp.set("messages", serde_json::json!(msgs.len()));
        sp.set("sequences_per_value", serde_json::json!(seqs.len()));
        sp.sample_str(|| "foreign ee{aki=absent ...} crl{aki=absent ...} sequence (peer key, T0+0s) -> (other key, T0+0s): validated, rejected".to_string());
        sp.done(true, &format!("{} messages x 3-4 decoded values x {} sequences (all ordered pairs and triples of 6 settings)", msgs.len(), seqs.len()));
    }

    //--- (b6) wall-clock variants against their timed siblings ------------------------------------------------------
    {
        let sp = ctx.space("api.wallclock",
            "windows decades wide around the real now: {2000..2100 current, 2000..2001 expired, 2100..2101 future}. IdCert::validate_ee(key) against validate_ee_at(key, Time::now()) for the 144 EE option sets x 3 windows x {peer, other key}; IdCert::validate_ta() against validate_ta_at(Time::now()) for new_ta certificates (3 keys x 3 windows) and own-encoder self-issued certificates (basicConstraints absent/empty/cA x AKI right/absent/wrong x signed by own/other key x 3 windows); SignedMessage::validate, PublicationCms::validate, ProvisioningCms::validate against validate_at(Time::now()) for EE window x CRL window (9) x EE AKI x CRL AKI x revoked {empty, lists EE} x cA x {peer, other key}: the two verdicts of a pair must be equal; non-trivial = all");
        const CUR: (i64, i64) = (946_684_800, 4_102_444_800);
        const EXP: (i64, i64) = (946_684_800, 978_307_200);
        const FUT: (i64, i64) = (4_102_444_800, 4_133_980_800);
        let wins = [("2000..2100", CUR), ("2000..2001", EXP), ("2100..2101", FUT)];
        let ee_spec = |o: &EeO, w: (i64, i64)| EeSpec { serial: big_or_small_serial(o.big_serial), nb: w.0, na: w.1, subject_key: K_EE, sign_key: if o.other_key { K_OTHER } else { K_PEER },
            ski: if o.ski_other { Some(s.key(K_EE2).ski.to_vec()) } else { None }, aki: aki_value(s, o.aki),
            basic: match o.basic { 0 => Basic::Absent, 1 => Basic::EmptySeq, _ => Basic::CaTrue }, key_usage_ext: o.key_usage, issuer: 0, subject: 0 };
        let oc: Mutex<BTreeMap<&'static str, u64>> = Mutex::new(BTreeMap::new());
        let tally = |k: &'static str| *oc.lock().unwrap().entry(k).or_insert(0) += 1;
        // IdCert as EE
        let ee_opts: Vec<EeO> = ee_full().into_iter().filter(|o| !o.wide).collect();
        ee_opts.par_iter().for_each(|o| { for (wn, w) in wins {
            let der = ee_cert(s, &ee_spec(o, w));
            for k in [K_PEER, K_OTHER] {
                sp.eval(); sp.nontrivial(1);
                let key = s.public(k);
                let wit = || format!("IdCert {} window={wn} key={}", show_ee(o), if k == K_PEER { "peer" } else { "other" });
                match guard(|| IdCert::decode(Bytes::copy_from_slice(&der)).map(|c| (c.validate_ee(&key).is_ok(), c.validate_ee_at(&key, Time::now()).is_ok()))) {
                    Err(p) => fail("C10.no_panic", wit(), p),
                    Ok(Err(e)) => fail("C10.api.wallclock", wit(), format!("certificate of the independent encoder does not decode: {e}")),
                    Ok(Ok((wall, at))) => { tally(if wall { "validated" } else { "rejected" }); if wall != at { fail("C10.api.wallclock", wit(), format!("validate_ee() ok={wall}, validate_ee_at(Time::now()) ok={at}")) } }
                }
            }
        }});
        // IdCert as TA
        let mut tas: Vec<(String, Vec<u8>)> = Vec::new();
        for (wn, w) in wins {
            for k in 0..3usize {
                match guard(|| IdCert::new_ta(Validity::new(pki::time(w.0), pki::time(w.1)), &s.kid(k), s).map(|c| c.to_bytes().to_vec())) {
                    Ok(Ok(b)) => tas.push((format!("IdCert::new_ta key={k} window={wn}"), b)),
                    Ok(Err(e)) => fail("C10.api.wallclock", format!("new_ta key={k} window={wn}"), format!("new_ta failed: {e}")),
                    Err(p) => fail("C10.no_panic", format!("new_ta key={k} window={wn}"), p),
                }
            }
            for basic in 0..3u8 { for aki in 0..3u8 { for other in [false, true] {
                let e = EeSpec { serial: vec![1], nb: w.0, na: w.1, subject_key: K_PEER, sign_key: if other { K_OTHER } else { K_PEER }, ski: None, aki: aki_value(s, aki),
                    basic: match basic { 0 => Basic::Absent, 1 => Basic::EmptySeq, _ => Basic::CaTrue }, key_usage_ext: false, issuer: 0, subject: 0 };
                tas.push((format!("self-issued basic={} aki={} signed-by={} window={wn}", ["absent", "empty", "cA"][basic as usize], ["own", "absent", "other"][aki as usize], if other { "other" } else { "own" }), ee_cert(s, &e)));
            }}}
        }
        for (label, der) in &tas {
            sp.eval(); sp.nontrivial(1);
            match guard(|| IdCert::decode(Bytes::copy_from_slice(der)).map(|c| (c.validate_ta().is_ok(), c.validate_ta_at(Time::now()).is_ok()))) {
                Err(p) => fail("C10.no_panic", label.clone(), p),
                Ok(Err(e)) => fail("C10.api.wallclock", label.clone(), format!("certificate does not decode: {e}")),
                Ok(Ok((wall, at))) => { tally(if wall { "validated" } else { "rejected" }); if wall != at { fail("C10.api.wallclock", label.clone(), format!("validate_ta() ok={wall}, validate_ta_at(Time::now()) ok={at}")) } }
            }
        }
        // messages
        let prov_xml = provisioning::Message::list(SenderHandle::from_str("child").unwrap(), RecipientHandle::from_str("parent").unwrap()).to_xml_bytes().to_vec();
        let fx_prov = Fx { s: PoolSigner::load(), content: prov_xml, peer: fx.peer.clone() };
        let base = Plan::base();
        let (ps_pub, ps_prov) = (presign(&fx, &base), presign(&fx_prov, &base));
        let mut jobs = Vec::new();
        for (en, ew) in wins { for (cn, cw) in wins { for eaki in [0u8, 1] { for caki in [0u8, 1] { for revoked in [0u8, 4] { for basic in [0u8, 2] { jobs.push((en, ew, cn, cw, eaki, caki, revoked, basic)) } } } } } }
        jobs.par_iter().for_each(|&(en, ew, cn, cw, eaki, caki, revoked, basic)| {
            let eo = EeO { aki: eaki, basic, ..EE_BASE };
            let ee_der = ee_cert(s, &ee_spec(&eo, ew));
            let list = if revoked == 4 { Some(vec![(EE_SERIAL.to_vec(), false)]) } else { Some(vec![]) };
            let crl_der = crl(s, &CrlSpec { this: cw.0, next: cw.1, sign_key: K_PEER, revoked: list, aki: aki_value(s, caki), number: Some(7), unknown_ext: false, ext_block: true, ign: CrlIgn::DEFAULT, ee_serial: EE_SERIAL.to_vec() });
            let (m_pub, m_prov) = (wrap(&fx, &base, &ps_pub, false, &ee_der, &crl_der), wrap(&fx_prov, &base, &ps_prov, false, &ee_der, &crl_der));
            for k in [K_PEER, K_OTHER] {
                let key = s.public(k);
                for route in ["strict", "relaxed", "publication-cms", "provisioning-cms"] {
                    sp.eval(); sp.nontrivial(1);
                    let wit = || format!("foreign {} ee-window={en} crl-window={cn} crl-aki={} revoked={} key={} route={route}", show_ee(&eo), ["right", "absent"][caki as usize], if revoked == 4 { "ee-only" } else { "empty" }, if k == K_PEER { "peer" } else { "other" });
                    let r = guard(|| -> Result<(bool, bool), String> { Ok(match route {
                        "strict" => { let m = SignedMessage::decode(Bytes::copy_from_slice(&m_pub), true).map_err(|e| e.to_string())?; (m.validate(&key).is_ok(), m.validate_at(&key, Time::now()).is_ok()) }
                        "relaxed" => { let m = SignedMessage::decode(Bytes::copy_from_slice(&m_pub), false).map_err(|e| e.to_string())?; (m.validate(&key).is_ok(), m.validate_at(&key, Time::now()).is_ok()) }
                        "publication-cms" => { let m = PublicationCms::decode(&m_pub).map_err(|e| e.to_string())?; (m.validate(&key).is_ok(), m.validate_at(&key, Time::now()).is_ok()) }
                        _ => { let m = ProvisioningCms::decode(&m_prov).map_err(|e| e.to_string())?; (m.validate(&key).is_ok(), m.validate_at(&key, Time::now()).is_ok()) }
                    })});
                    match r {
                        Err(p) => fail("C10.no_panic", wit(), p),
                        Ok(Err(e)) => fail("C10.api.wallclock", wit(), format!("message of the independent encoder does not decode: {e}")),
                        Ok(Ok((wall, at))) => {
                            tally(if wall { "validated" } else { "rejected" });
                            if wall != at { fail("C10.api.wallclock", wit(), format!("validate() ok={wall}, validate_at(Time::now()) ok={at}")) }
                            let model = k == K_PEER && en == "2000..2100" && cn == "2000..2100" && revoked == 0 && basic == 0;
                            if at != model { fail("C10.api.wallclock", wit(), format!("validate_at(Time::now()) ok={at}, the conditions say {model}")) }
                        }
                    }
                }
            }
        });
        sp.merge_outcomes(&oc.lock().unwrap());
        sp.sample_str(|| "foreign ee-window=2000..2100 crl-window=2000..2001 key=peer: validate() and validate_at(now) both reject".to_string());
        sp.done(true, &format!("{} EE option sets x 3 windows x 2 keys; {} TA certificates; {} messages x 2 keys x 4 routes", ee_opts.len(), tas.len(), jobs.len()));
    }

    //--- (b7) BER respellings of the CMS wrapper --------------------------------------------------------------------
    {
        let sp = ctx.space("ber.respelling",
            "every field of the CMS wrapper of a DER message re-written in another BER spelling, one field at a time: non-minimal length, 4-octet length, indefinite length at ContentInfo, content [0], SignedData, version, digestAlgorithms, its member, encapContentInfo, eContentType, eContent [0], certificates [0], Certificate, crls [1], CertificateList, signerInfos, SignerInfo, its version, digestAlgorithm, signedAttrs [0], signatureAlgorithm; eContent and signature as constructed OCTET STRINGs of 1,2,3,4,16/17,256 segments; sid [0] constructed in every split into 1..=4 segments and in 20 segments (all-satisfied messages; a selection for violated ones). Messages: {all satisfied (3 and 6 signed attributes), every single violation}. Relaxed decoding: if the decoder admits the spelling the verdict must be the condition vector's (a validation error on an all-satisfied message is a violation, a decode error is counted per field); strict decoding: nothing with a violated condition may validate; nothing may panic; non-trivial = admitted respellings");
        let mut plans: Vec<Plan> = vec![Plan::base()];
        { let mut p = Plan::base(); p.extras = vec![Extra::Bst, Extra::Unk100, Extra::Unk200]; p.order = [2, 0, 1]; plans.push(p) }
        for v in all_violations() { let mut p = Plan::base(); v.apply(&mut p); if p.sig == SigV::OverMandatoryOnly { p.extras = vec![Extra::Bst] } plans.push(p) }
        let admitted: Mutex<BTreeMap<String, (u64, u64)>> = Mutex::new(BTreeMap::new());
        let oc: Mutex<BTreeMap<&'static str, u64>> = Mutex::new(BTreeMap::new());
        let nt = Mutex::new(0u64);
        plans.par_iter().for_each(|p| {
            let bytes = cache.build(&fx, p);
            let Some(root) = der::parse_one(&bytes, false) else { return };
            let mut local: BTreeMap<String, (u64, u64)> = BTreeMap::new();
            let mut lo: BTreeMap<&'static str, u64> = BTreeMap::new();
            let mut n_adm = 0u64;
            for (fname, path, spells) in cms_fields(&bytes, p.all_ok()) { for spl in &spells {
                let m = respell(&bytes, &root, &mut Vec::new(), &path, spl);
                for via in [Via::Relaxed, Via::Strict] {
                    let v = run(&m, &fx.peer, T0, via);
                    sp.eval();
                    let strict = via == Via::Strict;
                    *lo.entry(match (&v, strict) { (Verdict::Accept, _) => "validated", (Verdict::Decode(_), false) => "not-admitted-relaxed", (Verdict::Decode(_), true) => "refused-strict", (Verdict::Panic(_), _) => "panic", _ => "rejected-at-validation" }).or_insert(0) += 1;
                    let wit = || format!("{} field={fname} spelling={} (message of {} octets -> {})", p.witness(via), spl.name(), bytes.len(), m.len());
                    match &v {
                        Verdict::Panic(pn) => fail("C10.no_panic", wit(), pn.clone()),
                        Verdict::Accept if !p.all_ok() => fail("C10.ber.reject", wit(), "a condition is violated but the respelled message validated"),
                        Verdict::Invalid(e) if p.all_ok() && !strict => fail("C10.ber.accept", wit(), format!("all conditions hold and the decoder admitted the spelling, yet validation failed: {}", trunc(e, 160))),
                        _ => {}
                    }
                    if !strict && p.all_ok() {
                        let e = local.entry(fname.to_string()).or_insert((0, 0));
                        if matches!(v, Verdict::Decode(_)) { e.1 += 1 } else { e.0 += 1; n_adm += 1 }
                    }
                }
            }}
            *nt.lock().unwrap() += n_adm;
            let mut g = admitted.lock().unwrap();
            for (k, (a, r)) in local { let e = g.entry(k).or_insert((0, 0)); e.0 += a; e.1 += r }
            let mut g = oc.lock().unwrap(); for (k, v) in lo { *g.entry(k).or_insert(0) += v }
        });
        sp.merge_outcomes(&oc.lock().unwrap());
        sp.nontrivial(*nt.lock().unwrap());
        let adm = admitted.into_inner().unwrap();
        sp.set("all_satisfied_relaxed_admitted_vs_refused_per_field", serde_json::json!(adm.iter().map(|(k, (a, r))| format!("{k}: {a} admitted, {r} refused at decode")).collect::<Vec<_>>()));
        sp.sample_str(|| "all satisfied field=sid[0] spelling=constructed-3-segments-cut-at-[5, 10] relaxed -> validated".to_string());
        sp.done(true, &format!("{} messages x 24 fields x their spellings (sid: 1162 splits for all-satisfied messages) x 2 decoders", plans.len()));
    }

    //--- (b8) the scale dimension: counts ----------------------------------------------------------------------------------
    {
        let sp = ctx.space("scale.counts",
            "CRLs with N revoked entries (distinct serials 1000, 1001, ...; every third entry with extensions), N in 0..=40 and the neighbourhoods of 64, 128, 256, 1024, 4096, with the EE serial absent / first / in the middle / last: validates <=> absent; messages with K further unknown signed attributes, K in 0..=40, 63..=65, 127..=129, 255..=257 (attributes from 107 to ~5000 octets): validate, and with a wrong digest do not; strict and relaxed; non-trivial = all");
        let counts: Vec<usize> = { let mut v: Vec<usize> = (0..=40).collect(); for p in [64usize, 128, 256, 1024, 4096] { v.extend([p - 1, p, p + 1]) } v };
        let oc: Mutex<BTreeMap<&'static str, u64>> = Mutex::new(BTreeMap::new());
        let base = Plan::base();
        let ps = presign(&fx, &base);
        let ee = cache.ee(&fx, &base);
        let mut jobs: Vec<(usize, Option<usize>)> = Vec::new();
        for &n in &counts { jobs.push((n, None)); for pos in [0, n / 2, n] { jobs.push((n, Some(pos))) } }
        jobs.sort(); jobs.dedup();
        jobs.par_iter().for_each(|&(n, ee_pos)| {
            let mut list: Vec<(Vec<u8>, bool)> = (0..n).map(|i| (((1000 + i) as u32).to_be_bytes()[1..].to_vec(), i % 3 == 0)).collect();
            if let Some(pos) = ee_pos { list.insert(pos, (EE_SERIAL.to_vec(), false)) }
            let c = CrlSpec { this: T0 - W, next: T0 + W, sign_key: K_PEER, revoked: Some(list), aki: Some(s.key(K_PEER).ski.to_vec()), number: Some(3), unknown_ext: false, ext_block: true, ign: CrlIgn::DEFAULT, ee_serial: EE_SERIAL.to_vec() };
            let bytes = wrap(&fx, &base, &ps, false, &ee, &crl(s, &c));
            for via in [Via::Strict, Via::Relaxed] {
                let v = run(&bytes, &fx.peer, T0, via);
                sp.eval(); sp.nontrivial(1); *oc.lock().unwrap().entry(v.class()).or_insert(0) += 1;
                expect(&ctx, "C10.foreign.accept", "C10.foreign.product.reject", ee_pos.is_none(), &v, || format!("foreign order=ct,md,st extras=[] crl with {n} other revoked entries (serials 1000..), EE serial {} via={via:?} when=T0",
                    ee_pos.map(|p| format!("inserted at position {p}")).unwrap_or("absent".into())));
            }
        });
        let mut kjobs: Vec<(usize, bool)> = Vec::new();
        for k in (0..=40usize).chain([63, 64, 65, 127, 128, 129, 255, 256, 257]) { kjobs.push((k, true)); kjobs.push((k, false)) }
        let crl_der = cache.crl(&fx, &base);
        kjobs.par_iter().for_each(|&(k, good)| {
            let mut p = Plan::base(); p.many_extras = k; if !good { p.digest = DigestV::FlipLast }
            let bytes = assemble(&fx, &p, &ee, &crl_der);
            for via in [Via::Strict, Via::Relaxed] {
                let v = run(&bytes, &fx.peer, T0, via);
                sp.eval(); sp.nontrivial(1); *oc.lock().unwrap().entry(v.class()).or_insert(0) += 1;
                expect(&ctx, "C10.attrs.size.accept", "C10.foreign.single.reject", good, &v, || format!("{} with {k} further unknown signed attributes", p.witness(via)));
            }
        });
        sp.merge_outcomes(&oc.lock().unwrap());
        sp.set("revoked_entry_counts", serde_json::json!(counts));
        sp.sample_str(|| "crl with 17 other revoked entries, EE serial inserted at position 17 -> rejected".to_string());
        sp.done(true, &format!("{} list lengths x 4 placements x 2 decoders; 50 attribute counts x 2 x 2 decoders", counts.len()));
    }

    //--- (c) every single-bit flip -------------------------------------------------------------------------------
    {
        let sp = ctx.space("tamper.bitflip",
            "one library-created message (SignedMessage::create, window T0 +- 300 s), one foreign message with the three mandatory attributes and one with 3 extra attributes (> 256 octets) (thorough: two more foreign spellings): every single-bit flip, decoded strict and relaxed, validated at T0 under the peer key: never validates; the untouched message validates; non-trivial = flips");
        let mut objs: Vec<(String, Vec<u8>)> = Vec::new();
        match guard(|| SignedMessage::create(Bytes::from(fx.content.clone()), Validity::new(pki::time(T0 - W), pki::time(T0 + W)), &s.kid(K_PEER), s).map(|m| m.to_captured().into_bytes().to_vec())) {
            Ok(Ok(b)) => objs.push(("library-created".into(), b)),
            Ok(Err(e)) => fail("C10.created.valid_within", "tamper seed", format!("create failed: {e}")),
            Err(p) => fail("C10.no_panic", "tamper seed", p),
        }
        objs.push(("foreign-3-attrs".into(), cache.build(&fx, &Plan::base())));
        if thorough {
            // big serial, revoked list with entries and extensions, GeneralizedTime signing time, other attribute order
            let mut p = Plan::base(); p.ee = EeV::BigSerial; p.crl = CrlV::ListsOthers; p.order = [2, 1, 0]; p.st_gen = true; p.extras = vec![Extra::Unk1]; p.extras_first = true;
            objs.push(("foreign-4-attrs-big-serial".into(), cache.build(&fx, &p)));
            let mut p = Plan::base(); p.ee = EeV::NoAki; p.crl = CrlV::NoAki; p.extras = vec![Extra::Unk100];
            objs.push(("foreign-4-attrs-no-aki".into(), cache.build(&fx, &p)));
        }
        let mut p = Plan::base(); p.extras = vec![Extra::Bst, Extra::Unk100, Extra::Unk200]; p.crl = CrlV::ListsOthersWithExt; p.ee = EeV::KeyUsage;
        objs.push(("foreign-6-attrs".into(), cache.build(&fx, &p)));
        for (nm, bytes) in &objs {
            let mut base_ok = true;
            for via in [Via::Strict, Via::Relaxed] {
                let v = run(bytes, &fx.peer, T0, via);
                sp.eval(); sp.outcome(v.class());
                base_ok &= v.accepted();
                expect(&ctx, "C10.tamper.base.accept", "-", true, &v, || format!("{nm} untouched via={via:?}"));
            }
            if !base_ok { sp.set(&format!("skipped_{nm}"), serde_json::json!("untouched message did not validate; flips not meaningful")); continue }
            let nbits = bytes.len() * 8;
            let oc: Mutex<BTreeMap<&'static str, u64>> = Mutex::new(BTreeMap::new());
            let acc: Mutex<Vec<String>> = Mutex::new(Vec::new());
            (0..nbits * 2).into_par_iter().for_each(|i| {
                let via = if i < nbits { Via::Strict } else { Via::Relaxed };
                let bit = i % nbits;
                let mut m = bytes.clone();
                m[bit / 8] ^= 0x80 >> (bit % 8);
                let v = run(&m, &fx.peer, T0, via);
                *oc.lock().unwrap().entry(v.class()).or_insert(0) += 1;
                let w = || format!("{nm} via={via:?} octet={} mask={:#04x} (message of {} octets, original octet {:#04x})", bit / 8, 0x80u8 >> (bit % 8), bytes.len(), bytes[bit / 8]);
                match &v {
                    Verdict::Accept => { acc.lock().unwrap().push(format!("via={via:?} octet={} mask={:#04x}", bit / 8, 0x80u8 >> (bit % 8))); fail("C10.tamper.bitflip.reject", w(), "message with one flipped bit validated") }
                    Verdict::Panic(pn) => fail("C10.no_panic", w(), pn.clone()),
                    _ => {}
                }
            });
            let mut acc = acc.into_inner().unwrap(); acc.sort();
            sp.set(&format!("accepted_flips_{nm}"), serde_json::json!(acc));
            sp.evals(nbits as u64 * 2); sp.nontrivial(nbits as u64 * 2);
            sp.merge_outcomes(&oc.lock().unwrap());
            sp.sample_str(|| format!("{nm}: {} octets {}", bytes.len(), trunc(&hex(bytes), 100)));
        }
        sp.done(true, &format!("all single-bit flips of {} messages x 2 decoders", objs.len()));
    }

    //--- (d) round 8: the signer as a participant, predecessors on the same thread, environment, time interactions
    let timing = std::env::var_os("C10_TIMING").is_some();
    let t = t_start;
    let cpu = || { let mut ts = libc::timespec { tv_sec: 0, tv_nsec: 0 }; unsafe { libc::clock_gettime(libc::CLOCK_PROCESS_CPUTIME_ID, &mut ts); } ts.tv_sec as f64 + ts.tv_nsec as f64 / 1e9 };
    let lap = |what: &str| if timing { eprintln!("timing: {what} done at {:.1} s wall, {:.1} s process CPU", t.elapsed().as_secs_f64(), cpu()) };
    lap("earlier spaces");
    let subj = subjects(&fx);
    space_signer_sequences(&ctx, &fx); lap("signer.sequences");
    space_history_predecessors(&ctx, &fx, &subj); lap("history.predecessors");
    space_history_parts(&ctx, &fx); lap("history.parts");
    space_history_tamper(&ctx, &fx); lap("history.tamper");
    space_attrs_relation(&ctx, &fx); lap("attrs.oid_relation");
    space_environment(&ctx, &fx, &subj); lap("environment");
    space_time_interactions(&ctx, &fx); lap("interactions.time");

    // join the long-lived signer instances
    {
        let sp = cc_space;
        let mut completed = true;
        let mut lines: Vec<String> = Vec::new();
        let (mut ops, mut keygens, mut reval) = (BTreeMap::<&'static str, u64>::new(), 0u64, 0u64);
        for (plan, n, h) in cc_threads {
            let sum = match h.map(|h| h.join()) {
                Some(Ok(sum)) => sum,
                _ => { ctx.machinery_error(format!("signer.call_count: the thread of instance {} could not be started or died outside the guards", plan.name())); completed = false; continue }
            };
            sp.evals(sum.created); sp.nontrivial(sum.after_earlier);
            sp.merge_outcomes(&sum.classes);
            for (k, v) in &sum.ops { *ops.entry(k).or_insert(0) += v }
            keygens += sum.key_generations + sum.created; reval += sum.revalidated;
            if sum.setup_failed || sum.created + sum.failing_messages < n as u64 { completed = false }
            lines.push(format!("{}: {} of {n} messages created and judged ({} SignedMessage, {} ProvisioningCms, {} PublicationCms), {} validations, {} handles issued, {} messages failing{}", plan.name(), sum.created, sum.per_kind[0], sum.per_kind[1], sum.per_kind[2], sum.validations, sum.handles_issued,
                sum.failing_messages, sum.first_failing.map(|f| format!(" (the first one after {f} earlier creations)")).unwrap_or_default()));
        }
        sp.set("instances", serde_json::json!(cc_plans.iter().map(|(p, _)| p.describe()).collect::<Vec<_>>()));
        sp.set("per_instance", serde_json::json!(lines));
        sp.set("other_signer_calls_interleaved", serde_json::json!(ops));
        sp.set("rsa_key_generations", serde_json::json!(keygens));
        sp.set("messages_validated_once_more_at_the_end", serde_json::json!(reval));
        sp.set("marked_counts", serde_json::json!(power_marks(cc_plans[0].1).into_iter().collect::<Vec<_>>()));
        sp.sample_str(|| "signer.call_count instance=messages-only message #0257 on this signer (256 earlier successful creations): SignedMessage::create content=256B window=[1699999700,1700000300] t=notBefore+300s+0ns key=identity route=as-created -> validated".to_string());
        sp.sample_str(|| "signer.call_count instance=interleaved before message #0129 (128 earlier successful creations, 139 handles issued so far): destroy-oldest-unrelated-key -> destroyed, the handle is refused afterwards".to_string());
        sp.done(completed, &format!("every count of earlier creations 0..{} on instance (1), 0..{} on (2) and (3); one instance each", cc_plans[0].1 - 1, cc_plans[1].1 - 1));
        lap("signer.call_count joined");
    }

    flush_fails(&ctx);
    ctx.finish();
}
