//! C14 — manifest entries cannot name anything outside the publication point.
//!
//! Every case is a manifest eContent written by the independent encoder
//! (`der::manifest_content`), decoded by the real `ManifestContent::take_from`
//! in DER and BER mode; every K-th name of the name enumeration (stated below,
//! nothing random) is also wrapped into a complete, correctly signed CMS
//! object and decoded by `Manifest::decode` strict and relaxed.
//!
//! Spaces (each enumerated completely):
//!  * names.alphabet — all strings of length 0..=L over {a Z 0 - _ . /}, each
//!    placed at every position of 1-, 2- and 3-entry file lists;
//!  * names.octets — every octet value 0..=255 substituted at every position
//!    and inserted at every gap of five valid base names;
//!  * names.length — stems of every length 1..=300 and around 512, 1024, 4096
//!    and 65 536 octets in every character class, valid and nearly valid,
//!    resolved against 16 base URIs near the same limits (deep, long segments,
//!    long totals): the manifest name check against the URI join check;
//!  * econtent.fragments — the eContent as a BER constructed OCTET STRING with a
//!    fragment boundary at every offset (definite, indefinite, nested, empty
//!    fragments, three fragments) for valid names and invalid names with a
//!    valid prefix / suffix, through `Manifest::decode` relaxed and strict;
//!  * source.pieces — `take_from` over an own `Source` that buffers the data
//!    piecemeal (pieces of 1, 2, 3, 7, 16 octets; a split at every offset);
//!  * content.ber_spellings — every TLV of a valid eContent in every BER
//!    spelling (indefinite / non-minimal length, constructed strings), singly
//!    and in pairs, through `take_from` in BER and DER mode;
//!  * entries.count — lists of 0..=40 entries and around every power of two up
//!    to 4096 (thorough: 2^20), valid and with one bad name first/middle/last;
//!  * cms.names — the K-th subset of names.alphabet through `Manifest::decode`;
//!  * hash.bitstring — hash lengths {0,1,31,32,33} x unused bits {0,1,7,8} x
//!    last-octet patterns x two data values, and all 256 one-bit changes of a
//!    correct hash;
//!  * times — all ordered pairs over a boundary domain of calendar times in
//!    both encodings (equal and inverted included);
//!  * header.len — version absent/0/1/2 x manifest-number sizes x algorithm x
//!    0..=3 entries, and 1000-entry lists for `len()`.
//!
//! Reference model: an own matcher for the RFC 9286 name shape, string
//! concatenation for "the URI directly inside the directory", tuple order on
//! (y,m,d,h,m,s) for times, `engine::signer::sha256` (aws-lc directly) for the
//! hash. The property is one-directional (it speaks about manifests the
//! library decodes), so only acceptance of something bad is a violation;
//! rejections of manifests the model regards as fine are counted, not failed.

use std::collections::BTreeMap;
use std::str::FromStr;
use base64::Engine as _;
use serde::Deserialize as _;
use serde::de::IntoDeserializer as _;
use bcder::Mode;
use bcder::encode::Values;
use bytes::Bytes;
use rayon::prelude::*;
use rpki::repository::cert::{Overclaim, ResourceCert};
use chrono::{Datelike, Timelike};
use rpki::crypto::DigestAlgorithm;
use rpki::repository::manifest::{FileAndHash, Manifest, ManifestContent, ManifestHash};
use rpki::repository::x509::{Time, Validity};
use rpki::uri;
use rpki_verif::engine::der::{self, Civil, MftEntry};
use rpki_verif::engine::enumerate::{seq_at, seq_count};
use rpki_verif::engine::pki::{self, Claim, Kind, Res, Spec};
use rpki_verif::engine::report::Space;
use rpki_verif::engine::signer::{sha256, PoolSigner};
use rpki_verif::{guard, hex, trunc, Ctx};

//------------ reference model ------------------------------------------------

/// RFC 9286 section 4.2.2: one or more of a-z A-Z 0-9 - _ , one dot, three letters.
fn rfc9286_name(n: &[u8]) -> bool {
    if n.len() < 5 { return false }
    let (stem, tail) = n.split_at(n.len() - 4);
    tail[0] == b'.'
        && tail[1..].iter().all(|c| c.is_ascii_alphabetic())
        && stem.iter().all(|&c| c.is_ascii_alphanumeric() || c == b'-' || c == b'_')
}

fn leap(y: i32) -> bool { (y % 4 == 0 && y % 100 != 0) || y % 400 == 0 }

fn valid_civil(c: Civil) -> bool {
    let dim = match c.mo { 1 | 3 | 5 | 7 | 8 | 10 | 12 => 31, 4 | 6 | 9 | 11 => 30, 2 => if leap(c.y) { 29 } else { 28 }, _ => 0 };
    (1..=9999).contains(&c.y) && c.d >= 1 && c.d <= dim && c.h < 24 && c.mi < 60 && c.s < 60
}

/// Is this BIT STRING content acceptable (X.690: unused <= 7, no unused bits
/// without octets; DER additionally: unused bits are zero)?
fn bitstring_ok(unused: u8, octets: &[u8], der_mode: bool) -> bool {
    if unused > 7 { return false }
    match octets.last() {
        None => unused == 0,
        Some(l) => !der_mode || l & ((1u16 << unused) - 1) as u8 == 0,
    }
}

//------------ cases ------------------------------------------------------------

#[derive(Clone, Copy)]
struct TimeEnc { civ: Civil, utc: bool }

impl TimeEnc {
    fn der(self) -> Vec<u8> { if self.utc { der::utctime(self.civ) } else { der::gentime(self.civ) } }
    fn show(self) -> String {
        let c = self.civ;
        format!("{}{:04}{:02}{:02}{:02}{:02}{:02}Z", if self.utc { "utc:" } else { "gen:" }, c.y, c.mo, c.d, c.h, c.mi, c.s)
    }
}

const fn civ(y: i32, mo: u32, d: u32, h: u32, mi: u32, s: u32) -> Civil { Civil { y, mo, d, h, mi, s } }
const THIS: TimeEnc = TimeEnc { civ: civ(2023, 11, 14, 22, 13, 20), utc: false };
const NEXT: TimeEnc = TimeEnc { civ: civ(2023, 11, 15, 22, 13, 20), utc: false };
const OID_SHA1: &[u64] = &[1, 3, 14, 3, 2, 26];

struct Case {
    version: Option<u128>,
    number: Vec<u8>,
    this: TimeEnc,
    next: TimeEnc,
    sha256_alg: bool,
    entries: Vec<MftEntry>,
}

impl Case {
    fn plain(entries: Vec<MftEntry>) -> Case {
        Case { version: None, number: vec![0x12, 0x34], this: THIS, next: NEXT, sha256_alg: true, entries }
    }
    fn econtent(&self) -> Vec<u8> {
        der::manifest_content(self.version, &self.number, self.this.der(), self.next.der(),
            if self.sha256_alg { der::OID_SHA256 } else { OID_SHA1 }, &self.entries)
    }
    fn names_ok(&self) -> bool { self.entries.iter().all(|e| rfc9286_name(&e.name)) }
    /// Everything the model knows about acceptability (used for statistics only).
    fn model_accepts(&self, der_mode: bool) -> bool {
        self.names_ok()
            && matches!(self.version, None | Some(0))
            && { // RFC 9286 4.2.1: the INTEGER fits 20 octets (magnitude below 2^159)
                let m: Vec<u8> = self.number.iter().copied().skip_while(|b| *b == 0).collect();
                m.len() + usize::from(m.first().is_some_and(|b| b & 0x80 != 0)) <= 20 }
            && self.sha256_alg
            && valid_civil(self.this.civ) && valid_civil(self.next.civ) && self.this.civ <= self.next.civ
            && self.entries.iter().all(|e| bitstring_ok(e.hash_unused, &e.hash, der_mode))
    }
}

fn esc1(c: u8) -> String {
    if (0x21..=0x7e).contains(&c) && !b"\\\",{}".contains(&c) { (c as char).to_string() } else { format!("\\x{c:02x}") }
}

/// Octets rendered printably; a run of 8 or more equal octets is written
/// `c{xN}` (so a 65 535-octet name stays a short, exact witness).
fn esc(b: &[u8]) -> String {
    let mut s = String::new();
    let mut i = 0;
    while i < b.len() {
        let mut j = i;
        while j < b.len() && b[j] == b[i] { j += 1 }
        let one = esc1(b[i]);
        if j - i >= 8 { s.push_str(&format!("{one}{{x{}}}", j - i)) } else { for _ in i..j { s.push_str(&one) } }
        i = j;
    }
    s
}

/// Canonical rendering of a case: enough to rebuild the eContent by hand.
fn witness(how: &str, c: &Case, econtent: &[u8]) -> String {
    let n = c.entries.len();
    let ent = |e: &MftEntry| format!("\"{}\"/u{}/{}", esc(&e.name), e.hash_unused,
        if e.hash.len() <= 2 { hex(&e.hash) } else { format!("{}B:{}..", e.hash.len(), hex(&e.hash[..2])) });
    let list = if n <= 4 { c.entries.iter().map(ent).collect::<Vec<_>>().join(",") }
        else { format!("{} entries: {},..,{}", n, ent(&c.entries[0]), ent(&c.entries[n - 1])) };
    format!("{how} ver={} num={} this={} next={} alg={} files=[{}] econtent={}",
        match c.version { None => "absent".into(), Some(v) => v.to_string() }, hex(&c.number), c.this.show(), c.next.show(),
        if c.sha256_alg { "sha256" } else { "sha1" }, list,
        if econtent.len() <= 160 { hex(econtent) } else { format!("{}B,sha256={}", econtent.len(), hex(&sha256(econtent)[..8])) })
}

//------------ local bookkeeping (merged in enumeration order => deterministic output) --

#[derive(Default)]
struct Tally {
    evals: u64,
    nontrivial: u64,
    outcomes: BTreeMap<&'static str, u64>,
    stats: BTreeMap<&'static str, u64>,
    fails: Vec<(&'static str, String, String)>,
    kept: BTreeMap<&'static str, u64>,
    overflow: BTreeMap<&'static str, u64>,
    samples: Vec<String>,
}

const KEEP_PER_CHUNK: u64 = 8;

impl Tally {
    fn outcome(&mut self, k: &'static str) { *self.outcomes.entry(k).or_insert(0) += 1 }
    fn stat(&mut self, k: &'static str) { *self.stats.entry(k).or_insert(0) += 1 }
    fn fail(&mut self, oracle: &'static str, witness: impl FnOnce() -> String, detail: String) {
        let k = self.kept.entry(oracle).or_insert(0);
        if *k < KEEP_PER_CHUNK { *k += 1; self.fails.push((oracle, witness(), trunc(&detail, 700))) }
        else { *self.overflow.entry(oracle).or_insert(0) += 1 }
    }
    fn sample(&mut self, f: impl FnOnce() -> String) { if self.samples.len() < 2 { self.samples.push(f()) } }
    fn absorb(&mut self, o: Tally) {
        self.evals += o.evals; self.nontrivial += o.nontrivial;
        for (k, v) in o.outcomes { *self.outcomes.entry(k).or_insert(0) += v }
        for (k, v) in o.stats { *self.stats.entry(k).or_insert(0) += v }
        for (k, v) in o.overflow { *self.overflow.entry(k).or_insert(0) += v }
        self.fails.extend(o.fails);
        for s in o.samples { if self.samples.len() < 4 { self.samples.push(s) } }
    }
    /// Hands everything to the shared report, sequentially.
    fn flush(self, ctx: &Ctx, sp: &Space) {
        sp.evals(self.evals); sp.nontrivial(self.nontrivial);
        sp.merge_outcomes(&self.outcomes);
        for s in self.samples { sp.sample_str(|| s) }
        sp.set("statistics", serde_json::json!(self.stats));
        for (o, w, d) in self.fails { ctx.fail(o, w, d) }
        let mut not_itemised = 0;
        for (o, n) in &self.overflow {
            not_itemised += n;
            for _ in 0..*n { ctx.fail(o, "(further case of the same oracle in the same enumeration chunk; witness not kept)", "") }
        }
        if not_itemised > 0 { sp.set("failures_without_kept_witness", serde_json::json!(not_itemised)) }
    }
}

//------------ fixed material -----------------------------------------------------

struct Fixed {
    /// (base URI, its directory as a string)
    bases: Vec<(uri::Rsync, String)>,
    /// data values with their SHA-256 (own computation via aws-lc)
    data: Vec<(Vec<u8>, Vec<u8>)>,
    /// hash of data[0], used for all "good" entries
    h0: Vec<u8>,
}

impl Fixed {
    fn new() -> Fixed {
        let mk = |s: &str, dir: &str| (uri::Rsync::from_str(s).expect("base URI"), dir.to_string());
        let bases = vec![
            mk("rsync://host/module/", "rsync://host/module/"),
            mk("rsync://host/module/dir/sub/", "rsync://host/module/dir/sub/"),
            mk("rsync://host/module/dir", "rsync://host/module/dir/"),
        ];
        let d0 = b"C14 manifest entry data 0".to_vec();
        let mut d1 = d0.clone(); d1[0] ^= 0x80;            // first bit differs
        let mut d2 = d0.clone(); *d2.last_mut().unwrap() ^= 1; // last bit differs
        let data: Vec<(Vec<u8>, Vec<u8>)> = [d0, d1, d2, Vec::new()].into_iter().map(|d| { let h = sha256(&d); (d, h) }).collect();
        let h0 = data[0].1.clone();
        Fixed { bases, data, h0 }
    }
    fn good(&self, name: &str) -> MftEntry { MftEntry { name: name.as_bytes().to_vec(), hash_unused: 0, hash: self.h0.clone() } }
}

fn clone_entry(e: &MftEntry) -> MftEntry { MftEntry { name: e.name.clone(), hash_unused: e.hash_unused, hash: e.hash.clone() } }

//------------ the oracles on one accepted manifest -----------------------------------

/// Everything the property says about a manifest the library decoded.
fn examine(t: &mut Tally, fx: &Fixed, c: &Case, mc: &ManifestContent, content_der: bool, wit: &dyn Fn() -> String) {
    // each listed name is a single RFC 9286 segment
    let mut bad_listed = false;
    for e in &c.entries {
        if !rfc9286_name(&e.name) {
            t.fail("C14.name.rfc9286", wit, format!("decoded although the listed name \"{}\" is not [A-Za-z0-9_-]+.[A-Za-z]{{3}}", esc(&e.name)));
            bad_listed = true;
            break;
        }
    }
    // this-update is not after next-update (calendar order of what was written)
    if valid_civil(c.this.civ) && valid_civil(c.next.civ) && c.this.civ > c.next.civ {
        t.fail("C14.time.order", wit, format!("decoded although thisUpdate {} is after nextUpdate {}", c.this.show(), c.next.show()));
    }
    if mc.this_update() > mc.next_update() {
        t.fail("C14.time.order", wit, format!("this_update() {} > next_update() {}", mc.this_update().to_rfc3339(), mc.next_update().to_rfc3339()));
    }
    // the iterator
    let items = match guard(|| mc.iter().map(|f| f.into_pair()).collect::<Vec<(Bytes, Bytes)>>()) {
        Ok(v) => v,
        Err(p) => { t.fail("C14.iter.no_panic", wit, format!("iter() panicked: {p}")); return }
    };
    if mc.len() != items.len() {
        t.fail("C14.len.iter_count", wit, format!("len() = {} but iter() yields {} entries", mc.len(), items.len()));
    }
    if mc.is_empty() != items.is_empty() {
        t.fail("C14.len.is_empty", wit, format!("is_empty() = {} but iter() yields {} entries", mc.is_empty(), items.len()));
    }
    // "each listed file name": what the iterator yields is what was listed
    let same = items.len() == c.entries.len()
        && items.iter().zip(&c.entries).all(|((n, h), e)| n.as_ref() == e.name.as_slice() && h.as_ref() == e.hash.as_slice());
    if !same {
        t.fail("C14.iter.faithful", wit, format!("iter() yields {:?}, listed were {} entries",
            items.iter().map(|(n, h)| format!("{}:{}", esc(n), hex(h))).collect::<Vec<_>>(), c.entries.len()));
    }
    for (n, _) in &items {
        // (reported once per case: a bad listed name is already on record)
        if !bad_listed && !rfc9286_name(n) {
            t.fail("C14.name.rfc9286", wit, format!("iter() yields the name \"{}\" which is not [A-Za-z0-9_-]+.[A-Za-z]{{3}}", esc(n)));
            break;
        }
    }
    content_api(t, c, mc, &items, content_der, wit);
    // resolving against a base directory
    for (base, dir) in &fx.bases {
        let uris = match guard(|| mc.iter_uris(base).collect::<Vec<_>>()) {
            Ok(v) => v,
            Err(p) => { t.fail("C14.uris.no_panic", wit, format!("iter_uris({}) panicked: {p}", esc(base.as_slice()))); continue }
        };
        if uris.len() != mc.len() {
            t.fail("C14.len.iter_count", wit, format!("len() = {} but iter_uris({}) yields {}", mc.len(), esc(base.as_slice()), uris.len()));
        }
        let Ok(dir_uri) = uri::Rsync::from_str(dir) else { t.stat("directory_of_base_not_a_uri"); continue };
        for (i, (u, h)) in uris.iter().enumerate() {
            let s = u.as_str();
            // directly inside: the directory, then exactly one non-empty segment
            let rest = s.strip_prefix(dir.as_str());
            let inside = matches!(rest, Some(r) if !r.is_empty() && !r.contains('/') && r != "." && r != "..");
            let listed = items.get(i).map(|(n, _)| n.as_ref());
            let expected = listed.map(|n| [dir.as_bytes(), n].concat());
            if !inside || expected.as_deref() != Some(s.as_bytes()) {
                t.fail("C14.uris.inside", wit, format!("iter_uris({}) entry {i} = {}, expected {}<name {}>", esc(base.as_slice()), esc(s.as_bytes()), esc(dir.as_bytes()), listed.map(esc).unwrap_or_default()));
                continue;
            }
            match uri::Rsync::from_str(s) {
                Ok(r) if r == *u => {}
                _ => t.fail("C14.uris.inside", wit, format!("iter_uris({}) entry {i} = {} is not a well-formed rsync URI", esc(base.as_slice()), esc(s.as_bytes()))),
            }
            if u.parent().as_ref() != Some(&dir_uri) {
                t.fail("C14.uris.parent", wit, format!("{}.parent() = {:?}, expected {}", esc(s.as_bytes()), u.parent().map(|p| esc(p.as_slice())), esc(dir.as_bytes())));
            }
            if !base.is_parent_of(u) {
                t.fail("C14.uris.parent", wit, format!("{}.is_parent_of({}) is false", esc(base.as_slice()), esc(s.as_bytes())));
            }
            if let Some(n) = listed { uri_api(t, base, dir, &dir_uri, u, n, wit) }
            // a listed hash verifies exactly when it equals SHA-256(data)
            let listed_hash = items.get(i).map(|(_, h)| h.as_ref()).unwrap_or(&[]);
            if h.as_slice() != listed_hash {
                t.fail("C14.iter.faithful", wit, format!("iter_uris hash {} differs from listed {}", hex(h.as_slice()), hex(listed_hash)));
            }
            // ManifestHash built by hand from what iter() gave is the one iter_uris() gives
            let by_hand = ManifestHash::new(Bytes::copy_from_slice(listed_hash), mc.file_hash_alg());
            if by_hand != *h || h.algorithm() != mc.file_hash_alg() || by_hand.as_slice() != h.as_slice()
                || fx.data.iter().any(|(d, _)| by_hand.verify(d).is_ok() != h.verify(d).is_ok()) {
                t.fail("C14.api.manifest_hash", wit, format!("entry {i}: ManifestHash::new(iter() hash, file_hash_alg()) and the iter_uris() hash differ (==, algorithm(), as_slice() or verify())"));
            }
            if std::ptr::eq(base, &fx.bases[0].0) {
                let unused = c.entries.get(i).map(|e| e.hash_unused).unwrap_or(0);
                for (k, (d, sha)) in fx.data.iter().enumerate() {
                    let got = h.verify(d).is_ok();
                    let want = listed_hash == sha.as_slice();
                    if got != want {
                        t.fail("C14.hash.verify", wit, format!("entry {i} hash {} verify(data[{k}]) = {got}, SHA-256(data[{k}]) = {}", hex(listed_hash), hex(sha)));
                    }
                    if got { t.stat(if unused == 0 { "verify_ok" } else { "verify_ok_with_unused_bits_declared" }) } else { t.stat("verify_mismatch") }
                }
            }
        }
    }
}

/// Accessors and by-value / by-reference siblings of the content: each must say
/// what `iter()` and the encoder input already say (differential, no new facts).
fn content_api(t: &mut Tally, c: &Case, mc: &ManifestContent, items: &[(Bytes, Bytes)], content_der: bool, wit: &dyn Fn() -> String) {
    // FileAndHash: file(), hash(), into_pair(), AsRef
    let fhs: Vec<FileAndHash<Bytes, Bytes>> = match guard(|| mc.iter().collect()) { Ok(v) => v, Err(_) => return };
    for (i, fh) in fhs.iter().enumerate() {
        let by_value = fh.clone().into_pair();
        let same_ref: &FileAndHash<Bytes, Bytes> = fh.as_ref();
        if items.get(i).map(|(n, h)| (n, h)) != Some((fh.file(), fh.hash())) || items.get(i) != Some(&by_value) || !std::ptr::eq(same_ref, fh) {
            t.fail("C14.api.file_and_hash", wit, format!("entry {i}: file()/hash() = {}:{} , into_pair() = {}:{}, first iter() pass gave {:?}",
                esc(fh.file()), hex(fh.hash()), esc(&by_value.0), hex(&by_value.1), items.get(i).map(|(n, h)| format!("{}:{}", esc(n), hex(h)))));
        }
    }
    if fhs.len() != items.len() { t.fail("C14.api.file_and_hash", wit, format!("second iter() pass yields {} entries, first {}", fhs.len(), items.len())) }
    // manifest_number(), this_update(), next_update(), file_hash_alg(): what was written
    let mag: Vec<u8> = c.number.iter().copied().skip_while(|b| *b == 0).collect();
    let mut want_no = [0u8; 20];
    if mag.len() <= 20 { want_no[20 - mag.len()..].copy_from_slice(&mag) }
    if mag.len() > 20 || mc.manifest_number().into_array() != want_no {
        t.fail("C14.api.content_accessors", wit, format!("manifest_number() = {}, written magnitude {}", mc.manifest_number(), hex(&c.number)));
    }
    for (what, got, put) in [("this_update()", mc.this_update(), c.this), ("next_update()", mc.next_update(), c.next)] {
        let g = civ(got.year(), got.month(), got.day(), got.hour(), got.minute(), got.second());
        if valid_civil(put.civ) && (g != put.civ || got.nanosecond() != 0) {
            t.fail("C14.api.content_accessors", wit, format!("{what} = {}, written {}", got.to_rfc3339(), put.show()));
        }
    }
    if mc.file_hash_alg() != DigestAlgorithm::sha256() || !c.sha256_alg {
        t.fail("C14.api.content_accessors", wit, "file_hash_alg() is not SHA-256 or a manifest with another algorithm was decoded".into());
    }
    // is_stale() is next_update() < now (the instants of the domain are years away from the real now)
    let (before, stale, after) = (Time::now(), mc.is_stale(), Time::now());
    if stale != (mc.next_update() < before) && stale != (mc.next_update() < after) {
        t.fail("C14.api.is_stale", wit, format!("is_stale() = {stale}, next_update() = {}, now = {}", mc.next_update().to_rfc3339(), after.to_rfc3339()));
    }
    t.stat(if stale { "is_stale_true" } else { "is_stale_false" });
    // encode_ref() and ManifestContent::new(): the value rebuilt from the accessors encodes like the decoded one,
    // and what is encoded decodes to the same accessors (only for DER-captured content; re-encoding BER captures is C04's finding)
    if content_der {
        let enc = |m: &ManifestContent| guard(|| m.encode_ref().to_captured(Mode::Der).into_bytes());
        let rebuilt = guard(|| ManifestContent::new(mc.manifest_number(), mc.this_update(), mc.next_update(), mc.file_hash_alg(), fhs.iter()));
        match (enc(mc), rebuilt) {
            (Ok(a), Ok(r)) => {
                // octet-for-octet when no hash declares unused bits (the decoded value keeps the list as captured,
                // the accessors hand out whole octets); in every case both encodings decode to the same accessors
                let b = enc(&r);
                let plain = c.entries.iter().all(|e| e.hash_unused == 0);
                if b.is_err() || (plain && b.as_ref().ok() != Some(&a)) || r.len() != mc.len() || r.is_empty() != mc.is_empty() {
                    t.fail("C14.api.reencode", wit, format!("ManifestContent::new(accessors of the decoded value) encodes to {:?}, the decoded value to {}", b.as_ref().map(|x| trunc(&hex(x), 200)), trunc(&hex(&a), 200)));
                }
                for (what, bytes) in [("the decoded value", Some(a.clone())), ("the value rebuilt with ManifestContent::new", b.ok())] {
                    let Some(bytes) = bytes else { continue };
                    match guard(|| Mode::Der.decode(bytes.clone(), ManifestContent::take_from)) {
                        Ok(Ok(again)) => {
                            let pairs: Vec<(Bytes, Bytes)> = guard(|| again.iter().map(|f| f.into_pair()).collect()).unwrap_or_default();
                            if pairs != items || again.len() != mc.len() || again.manifest_number() != mc.manifest_number()
                                || again.this_update() != mc.this_update() || again.next_update() != mc.next_update() {
                                t.fail("C14.api.reencode", wit, format!("encode_ref() of {what} decodes to different accessors: {}", trunc(&hex(&bytes), 200)));
                            }
                        }
                        other => t.fail("C14.api.reencode", wit, format!("encode_ref() of {what} does not decode again ({}): {}",
                            match other { Err(p) => p, Ok(Err(e)) => e.to_string(), _ => String::new() }, trunc(&hex(&bytes), 200))),
                    }
                }
            }
            (a, r) => t.fail("C14.api.reencode", wit, format!("encode_ref() / ManifestContent::new panicked: {:?} {:?}", a.err(), r.err())),
        }
    }
}

/// The parts of `uri::Rsync` the oracles lean on, on every URI that
/// `iter_uris` yields: each is compared with the string model or a sibling.
fn uri_api(t: &mut Tally, base: &uri::Rsync, dir: &str, dir_uri: &uri::Rsync, u: &uri::Rsync, name: &[u8], wit: &dyn Fn() -> String) {
    let s = u.as_str();
    let name_str = std::str::from_utf8(name).unwrap_or("");
    let mut bad: Vec<&'static str> = Vec::new();
    // constructors that are siblings of from_str
    let same = |r: Result<uri::Rsync, uri::Error>| matches!(r, Ok(x) if x == *u && x.as_str() == s);
    if !same(uri::Rsync::from_slice(s.as_bytes())) { bad.push("from_slice") }
    if !same(uri::Rsync::from_bytes(Bytes::copy_from_slice(s.as_bytes()))) { bad.push("from_bytes") }
    if !same(uri::Rsync::from_string(s.to_string())) { bad.push("from_string") }
    if !same(uri::Rsync::try_from(s.to_string())) { bad.push("try_from") }
    // views of the same octets
    if u.as_slice() != s.as_bytes() || u.to_bytes().as_ref() != s.as_bytes() || u.to_string() != s
        || <uri::Rsync as AsRef<str>>::as_ref(u) != s || <uri::Rsync as AsRef<[u8]>>::as_ref(u) != s.as_bytes() { bad.push("as_slice/to_bytes/Display/AsRef") }
    // parts: those of the base, then the directory path and the name
    let module_len = base.module().len();
    if u.authority() != base.authority() || u.module_name() != base.module_name() || u.module() != base.module()
        || u.canonical_authority() != base.canonical_authority() || u.canonical_module() != base.canonical_module()
        || u.canonical_authority() != u.authority().to_ascii_lowercase() { bad.push("authority/module") }
    let want_path = format!("{}{}", &dir[module_len.min(dir.len())..], name_str);
    if u.path() != want_path || u.path_bytes() != want_path.as_bytes() || u.path_is_dir() { bad.push("path/path_bytes/path_is_dir") }
    // ends_with(): what the path string says
    let ext = &name_str[name_str.len().saturating_sub(4)..];
    for x in [ext, ".roa", ".cer", ".CER", name_str, "/", ""] {
        if u.ends_with(x) != want_path.ends_with(x) { bad.push("ends_with") }
    }
    if !u.ends_with(ext) { bad.push("ends_with(extension of the listed name)") }
    // relative_to() is the inverse of join(), from the base and from its directory
    for from in [base, dir_uri] {
        match u.relative_to(from) {
            Some(rel) if rel == name_str => if !matches!(from.join(rel.as_bytes()), Ok(j) if j == *u) { bad.push("join(relative_to)") },
            _ => bad.push("relative_to"),
        }
    }
    if !matches!(u.parent().map(|p| p.join(name)), Some(Ok(j)) if j == *u) { bad.push("parent().join(name)") }
    if !dir_uri.is_parent_of(u) || u.is_parent_of(u) || u.is_parent_of(base) { bad.push("is_parent_of") }
    // mutators on a copy
    let mut d = u.clone(); d.path_into_dir();
    if d.as_str().strip_suffix('/') != Some(s) || !d.path_is_dir() { bad.push("path_into_dir") }
    let mut d2 = d.clone(); d2.path_into_dir();
    if d2 != d { bad.push("path_into_dir (idempotent)") }
    let mut sh = u.clone(); sh.unshare();
    if sh != *u || sh.as_str() != s || sh.path() != u.path() { bad.push("unshare") }
    if !bad.is_empty() {
        bad.dedup();
        t.fail("C14.api.uri", wit, format!("{} (from iter_uris({})): disagreement in {}", esc(s.as_bytes()), esc(base.as_slice()), bad.join(", ")));
    }
}

/// Decodes one eContent in one mode and applies the oracles.
fn run_content(t: &mut Tally, fx: &Fixed, c: &Case, econtent: &Bytes, der_mode: bool) -> bool {
    let mode = if der_mode { Mode::Der } else { Mode::Ber };
    let how = if der_mode { "take_from/der" } else { "take_from/ber" };
    let wit = || witness(how, c, econtent);
    let res = guard(|| mode.decode(econtent.clone(), ManifestContent::take_from).map_err(|_| ()));
    judge_content(t, fx, c, der_mode, res, &wit, true)
}

/// Applies the oracles to the result of one `take_from` call.
fn judge_content(t: &mut Tally, fx: &Fixed, c: &Case, der_mode: bool, res: Result<Result<ManifestContent, ()>, String>,
                 wit: &dyn Fn() -> String, sample_rejections: bool) -> bool {
    t.evals += 1;
    match res {
        Err(p) => { t.outcome("panic"); t.fail("C14.decode.no_panic", wit, format!("take_from panicked: {p}")); false }
        Ok(Err(_)) => {
            if c.model_accepts(der_mode) {
                t.outcome("rejected (model: nothing wrong)");
                if sample_rejections { t.sample(|| format!("rejected though the model has no objection: {}", wit())) }
            } else { t.outcome("rejected (model: something wrong)") }
            false
        }
        Ok(Ok(mc)) => {
            t.outcome(if c.model_accepts(der_mode) { "accepted (model: nothing wrong)" } else { "accepted (model: something wrong)" });
            examine(t, fx, c, &mc, der_mode, wit);
            true
        }
    }
}

//------------ a source that has only part of the data buffered ---------------------

/// Where the buffered window of a `PieceSource` may end.
#[derive(Clone, Debug)]
enum Cuts { Every(usize), At(Vec<usize>) }

impl Cuts {
    fn show(&self) -> String {
        match self { Cuts::Every(k) => format!("pieces-of-{k}"), Cuts::At(v) => format!("cut-at-{}", v.iter().map(|x| x.to_string()).collect::<Vec<_>>().join("+")) }
    }
    /// The first permitted window end that is >= `need`.
    fn next(&self, need: usize, len: usize) -> usize {
        match self {
            Cuts::Every(k) => (need.div_ceil(*k) * k).min(len),
            Cuts::At(v) => v.iter().copied().filter(|x| *x >= need).min().unwrap_or(len).min(len),
        }
    }
}

/// An own `bcder::decode::Source`: the data arrives in pieces; `slice()` shows
/// only what has arrived, `request(n)` lets exactly as many further pieces
/// arrive as are needed for n octets (the contract of the trait).
struct PieceSource { data: Bytes, pos: usize, avail: usize, cuts: Cuts }

impl PieceSource {
    fn new(data: Bytes, cuts: Cuts) -> Self { PieceSource { data, pos: 0, avail: 0, cuts } }
}

impl bcder::decode::Source for PieceSource {
    type Error = std::convert::Infallible;
    fn pos(&self) -> bcder::decode::Pos { self.pos.into() }
    fn request(&mut self, len: usize) -> Result<usize, Self::Error> {
        let need = (self.pos + len).min(self.data.len());
        if self.avail < need { self.avail = self.cuts.next(need, self.data.len()) }
        Ok(self.avail - self.pos)
    }
    fn slice(&self) -> &[u8] { &self.data[self.pos..self.avail] }
    fn bytes(&self, start: usize, end: usize) -> Bytes {
        assert!(self.pos + end <= self.avail && start <= end, "bytes() beyond the requested window");
        self.data.slice(self.pos + start..self.pos + end)
    }
    fn advance(&mut self, len: usize) {
        assert!(self.pos + len <= self.avail, "advance() beyond the requested window");
        self.pos += len;
    }
}

/// `take_from` over a `PieceSource`.
fn run_pieces(t: &mut Tally, fx: &Fixed, c: &Case, econtent: &Bytes, der_mode: bool, cuts: &Cuts) -> bool {
    let mode = if der_mode { Mode::Der } else { Mode::Ber };
    let wit = || witness(&format!("take_from/{}/{}", if der_mode { "der" } else { "ber" }, cuts.show()), c, econtent);
    let res = guard(|| mode.decode(PieceSource::new(econtent.clone(), cuts.clone()), ManifestContent::take_from).map_err(|_| ()));
    judge_content(t, fx, c, der_mode, res, &wit, false)
}

/// (start, end) of the content octets of every file name in an eContent, by
/// the engine's own TLV reader.
fn name_spans(econtent: &[u8]) -> Vec<(usize, usize)> {
    let root = der::parse_one(econtent, false).expect("own eContent parses");
    let list = root.children.last().expect("fileList");
    list.children.iter().map(|e| { let n = &e.children[0]; (n.start + n.hdr, n.end()) }).collect()
}

fn run_both(t: &mut Tally, fx: &Fixed, c: &Case) -> (bool, bool) {
    let ec = Bytes::from(c.econtent());
    (run_content(t, fx, c, &ec, true), run_content(t, fx, c, &ec, false))
}

//------------ CMS wrapping ---------------------------------------------------------

struct Cms {
    signer: PoolSigner,
    /// EE certificate valid 2000..2100 (used everywhere)
    ee_der: Vec<u8>,
    /// the same EE certificate with the windows 2000..2001 (expired) and 2100..2101 (not yet valid)
    ee_alt: [Vec<u8>; 2],
    ca: ResourceCert,
    /// a second CA (other key) under the same TA, for "not issued by this CA"
    ca_other: ResourceCert,
    /// which base64 flavour `impl Serialize for Manifest` writes (found out by serialising a valid manifest)
    b64: usize,
}

const EE_KEY: usize = 2;

fn b64_encode(flavour: usize, data: &[u8]) -> String {
    use base64::engine::general_purpose::{STANDARD, STANDARD_NO_PAD, URL_SAFE, URL_SAFE_NO_PAD};
    match flavour { 0 => STANDARD.encode(data), 1 => STANDARD_NO_PAD.encode(data), 2 => URL_SAFE.encode(data), _ => URL_SAFE_NO_PAD.encode(data) }
}

impl Cms {
    fn new() -> Cms {
        let signer = PoolSigner::load();
        // windows decades wide around the real now, so that the wall-clock entry points can be compared
        let window = |from: i32, to: i32| Validity::new(Time::utc(from, 1, 1, 0, 0, 0), Time::utc(to, 1, 1, 0, 0, 0));
        let mut ta_spec = Spec::ta(0, Res::all());
        ta_spec.validity = window(2000, 2100);
        let ta = pki::build_cert(&signer, &ta_spec).validate_ta_at(pki::tal(), true, pki::time(pki::T0)).expect("TA validates");
        let mut ca_spec = Spec::issued(Kind::Ca, 1, 0, ta.subject_key_identifier(), Res::all(), Overclaim::Refuse);
        ca_spec.validity = window(2000, 2100);
        let ca = pki::build_cert(&signer, &ca_spec).validate_ca_at(&ta, true, pki::time(pki::T0)).expect("CA validates");
        let ee = |from: i32, to: i32| {
            let inherit = Res { v4: Claim::Inherit, v6: Claim::Inherit, asn: Claim::Inherit };
            let mut spec = Spec::issued(Kind::Ee, EE_KEY, 1, ca.subject_key_identifier(), inherit, Overclaim::Refuse);
            spec.validity = window(from, to);
            pki::build_cert_der(&signer, &spec)
        };
        let (ee_der, ee_alt) = (ee(2000, 2100), [ee(2000, 2001), ee(2100, 2101)]);
        let mut other_spec = Spec::issued(Kind::Ca, 3, 0, ta.subject_key_identifier(), Res::all(), Overclaim::Refuse);
        other_spec.validity = window(2000, 2100);
        let ca_other = pki::build_cert(&signer, &other_spec).validate_ca_at(&ta, true, pki::time(pki::T0)).expect("second CA validates");
        let mut cms = Cms { signer, ee_der, ee_alt, ca, ca_other, b64: usize::MAX };
        // the serialised form: serialise a valid manifest and see which base64 flavour reproduces it
        let ec = der::manifest_content(None, &[1], THIS.der(), NEXT.der(), der::OID_SHA256, &[]);
        let obj = cms.wrap(&ec, &cms.sign(&ec));
        if let Ok(m) = Manifest::decode(obj.as_slice(), true) {
            if let Ok(Ok(json)) = guard(|| serde_json::to_string(&m)) {
                cms.b64 = (0..4).find(|f| json == format!("\"{}\"", b64_encode(*f, &obj))).unwrap_or(usize::MAX);
            }
        }
        cms
    }
    /// What `Serialize for Manifest` (serde_json) would write for these octets.
    fn serde_form(&self, obj: &[u8]) -> String { format!("\"{}\"", b64_encode(self.b64, obj)) }
    /// Signed attributes with a message digest that is not the digest of the content, correctly signed.
    fn sign_wrong_digest(&self, econtent: &[u8]) -> Signed {
        let mut d = sha256(econtent); d[0] ^= 1;
        let attrs = vec![
            der::attr_content_type(der::OID_CT_MANIFEST),
            der::attr_signing_time(der::utctime(civ(2023, 11, 14, 22, 13, 20))),
            der::attr_message_digest(&d),
        ];
        let signature = self.signer.sign_raw(EE_KEY, &der::signed_attrs_tbs(&attrs));
        Signed { attrs, signature }
    }
    /// Signed attributes and signature for `econtent` (they do not depend on
    /// how the eContent OCTET STRING is encoded).
    fn sign(&self, econtent: &[u8]) -> Signed {
        let attrs = vec![
            der::attr_content_type(der::OID_CT_MANIFEST),
            der::attr_signing_time(der::utctime(civ(2023, 11, 14, 22, 13, 20))),
            der::attr_message_digest(&sha256(econtent)),
        ];
        let signature = self.signer.sign_raw(EE_KEY, &der::signed_attrs_tbs(&attrs));
        Signed { attrs, signature }
    }
    /// A complete RFC 6488 signed object around `econtent`, signed by the EE key
    /// over the DER SET OF signed attributes (all written by the independent encoder).
    fn wrap(&self, econtent: &[u8], s: &Signed) -> Vec<u8> {
        let (attrs, signature) = (s.attrs.clone(), s.signature.clone());
        der::signed_data(&der::SignedDataParts {
            version: 3,
            digest_alg_set: der::set_of(&[der::alg_sha256(false)]),
            econtent_type: der::OID_CT_MANIFEST.to_vec(),
            econtent: econtent.to_vec(),
            certificates: vec![self.ee_der.clone()],
            crls: vec![],
            si_version: 3,
            sid: self.signer.ski(EE_KEY).as_slice().to_vec(),
            si_digest_alg: der::alg_sha256(false),
            signed_attrs: attrs,
            sig_alg: der::alg_rsa_encryption(),
            signature,
        })
    }
    /// The same object with the eContent OCTET STRING given as a ready TLV
    /// (so that it can be a BER constructed string); `outer_indef` also writes
    /// the [0] wrapper and the EncapsulatedContentInfo with indefinite length.
    fn assemble(&self, s: &Signed, econtent_tlv: &[u8], outer_indef: bool, ee: usize) -> Vec<u8> {
        let ee_der = if ee == 0 { &self.ee_der } else { &self.ee_alt[ee - 1] };
        let eci_body = der::cat(&[der::oid(der::OID_CT_MANIFEST),
            if outer_indef { indefinite(0xa0, econtent_tlv) } else { der::ctx(0, true, econtent_tlv) }]);
        let eci = if outer_indef { indefinite(der::T_SEQ, &eci_body) } else { der::tlv(der::T_SEQ, &eci_body) };
        let si = der::seq(&[
            der::int_u(3), der::ctx(0, false, self.signer.ski(EE_KEY).as_slice()), der::alg_sha256(false),
            der::ctx(0, true, &der::cat(&s.attrs)), der::alg_rsa_encryption(), der::octets(&s.signature),
        ]);
        let sd = der::seq(&[
            der::int_u(3), der::set_of(&[der::alg_sha256(false)]), eci, der::ctx(0, true, ee_der), der::set_unsorted(&[si]),
        ]);
        der::seq(&[der::oid(der::OID_SIGNED_DATA), der::ctx(0, true, &sd)])
    }
}

struct Signed { attrs: Vec<Vec<u8>>, signature: Vec<u8> }

fn indefinite(tag: u8, content: &[u8]) -> Vec<u8> { [&[tag, 0x80][..], content, &[0, 0]].concat() }

/// One BER encoding of the eContent OCTET STRING.
#[derive(Clone, Debug)]
struct Enc { cuts: Vec<usize>, indef: bool, outer_indef: bool, nested: bool }

impl Enc {
    fn show(&self) -> String {
        format!("econtent=constructed[fragments cut at {}{}{}{}]", self.cuts.iter().map(|x| x.to_string()).collect::<Vec<_>>().join("+"),
            if self.indef { ";indefinite length" } else { "" }, if self.outer_indef { ";[0] and EncapsulatedContentInfo indefinite" } else { "" },
            if self.nested { ";first fragment itself constructed" } else { "" })
    }
    /// Constructed OCTET STRING whose primitive fragments are the pieces of `e`.
    fn tlv(&self, e: &[u8]) -> Vec<u8> {
        let mut frags = Vec::new();
        let mut from = 0;
        for &c in self.cuts.iter().chain([e.len()].iter()) {
            let mut f = der::octets(&e[from..c]);
            if self.nested && frags.is_empty() { f = der::tlv(0x24, &f) }
            frags.push(f);
            from = c;
        }
        let body = der::cat(&frags);
        if self.indef { indefinite(0x24, &body) } else { der::tlv(0x24, &body) }
    }
}

/// Wraps, decodes strict and relaxed, applies the same oracles to `content()`.
fn run_cms(t: &mut Tally, fx: &Fixed, cms: &Cms, c: &Case, econtent: &[u8], content_der_accepted: bool) -> Signed {
    let signed = cms.sign(econtent);
    let obj = Bytes::from(cms.wrap(econtent, &signed));
    let tlv = der::octets(econtent);
    for strict in [true, false] {
        run_object(t, fx, cms, c, econtent, &obj, strict, "", Some(content_der_accepted), &|ee| cms.assemble(&signed, &tlv, false, ee));
    }
    signed
}

/// Decodes one signed object in one mode; `enc` names a non-DER eContent encoding.
#[allow(clippy::too_many_arguments)]
fn run_object(t: &mut Tally, fx: &Fixed, cms: &Cms, c: &Case, econtent: &[u8], obj: &Bytes, strict: bool, enc: &str,
              content_der_accepted: Option<bool>, alt: &dyn Fn(usize) -> Vec<u8>) {
    {
        t.evals += 1;
        let wit = || witness(&format!("Manifest::decode/{}{}{enc}", if strict { "strict" } else { "relaxed" }, if enc.is_empty() { "" } else { " " }), c, econtent);
        // a constructed eContent is not DER: the strict decoder may refuse it whatever it holds
        let model_ok = c.model_accepts(true) && (enc.is_empty() || !strict);
        let decoded = guard(|| Manifest::decode(obj.clone(), strict));
        if strict { serde_route(t, fx, cms, c, econtent, obj, enc, matches!(decoded, Ok(Ok(_))), alt) }
        match decoded {
            Err(p) => { t.outcome("panic"); t.fail("C14.decode.no_panic", wit, format!("Manifest::decode panicked: {p}")) }
            Ok(Err(_)) => {
                t.outcome(if model_ok { "rejected (model: nothing wrong)" } else { "rejected (model: something wrong)" });
                // the eContent of a signed object is always decoded in DER mode
                if content_der_accepted == Some(true) { t.stat("cms_rejected_but_econtent_alone_accepted") }
            }
            Ok(Ok(m)) => {
                t.outcome(if model_ok { "accepted (model: nothing wrong)" } else { "accepted (model: something wrong)" });
                if content_der_accepted == Some(false) { t.stat("cms_accepted_but_econtent_alone_rejected") }
                // (the eContent of a signed object is decoded in DER mode whatever `strict` says)
                examine(t, fx, c, m.content(), true, &wit);
                manifest_views(t, cms, c, &m, obj, strict, alt, &wit);
                // the wrapping is a real signed object: it validates under the CA
                match guard(|| m.validate_at(&cms.ca, strict, pki::time(pki::T0))) {
                    Ok(Ok(_)) => t.stat("cms_validated_under_ca"),
                    Ok(Err(e)) => { t.stat("cms_validation_failed"); t.sample(|| format!("validation failed: {e}: {}", wit())) }
                    Err(p) => { t.stat("cms_validation_panicked"); t.sample(|| format!("validation panicked: {p}")) }
                }
            }
        }
    }
}

/// The serde decode routes for the same octets: the JSON string `Serialize`
/// would write, through serde_json (str, slice, Value) and serde's own string
/// deserializers. Whatever they accept is a decoded manifest like any other;
/// `Deserialize` is documented as a strict decode, so the verdict is the
/// strict decode's.
#[allow(clippy::too_many_arguments)]
fn serde_route(t: &mut Tally, fx: &Fixed, cms: &Cms, c: &Case, econtent: &[u8], obj: &Bytes, enc: &str, strict_accepted: bool, alt: &dyn Fn(usize) -> Vec<u8>) {
    if cms.b64 > 3 { return }
    t.evals += 1;
    let json = cms.serde_form(obj);
    let wit = || witness(&format!("serde_json::from_str::<Manifest>(base64 of the object){}{enc}", if enc.is_empty() { "" } else { " " }), c, econtent);
    let first = guard(|| serde_json::from_str::<Manifest>(&json).map_err(|e| e.to_string()));
    let accepted = match &first {
        Err(p) => { t.outcome("panic"); t.fail("C14.decode.no_panic", wit, format!("Deserialize for Manifest panicked: {p}")); return }
        Ok(Err(_)) => false,
        Ok(Ok(m)) => {
            examine(t, fx, c, m.content(), true, &wit);
            manifest_views(t, cms, c, m, obj, true, alt, &wit);
            if !matches!(guard(|| serde_json::to_string(m)), Ok(Ok(back)) if back == json) { t.stat("serde_accepted_but_serialises_differently") }
            true
        }
    };
    t.outcome(match (accepted, strict_accepted) {
        (true, true) => "serde accepted (as the strict decode)", (false, false) => "serde rejected (as the strict decode)",
        (true, false) => "serde accepted (strict decode rejected)", (false, true) => "serde rejected (strict decode accepted)",
    });
    if accepted != strict_accepted {
        t.fail("C14.route.serde_verdict", wit, format!("Deserialize {} what Manifest::decode(.., strict = true) {}",
            if accepted { "accepts" } else { "rejects" }, if strict_accepted { "accepts" } else { "rejects" }));
    }
    // the other serde routes (for primitive eContent and for everything the first one accepted)
    if enc.is_empty() || accepted {
        let b64 = &json[1..json.len() - 1];
        let others: [(&str, Result<Result<Manifest, String>, String>); 4] = [
            ("serde_json::from_slice", guard(|| serde_json::from_slice::<Manifest>(json.as_bytes()).map_err(|e| e.to_string()))),
            ("serde_json::from_value", guard(|| serde_json::from_value::<Manifest>(serde_json::Value::String(b64.to_string())).map_err(|e| e.to_string()))),
            ("Manifest::deserialize(&str deserializer)", guard(|| { let d: serde::de::value::StrDeserializer<serde::de::value::Error> = b64.into_deserializer(); Manifest::deserialize(d).map_err(|e| e.to_string()) })),
            ("Manifest::deserialize(String deserializer)", guard(|| { let d: serde::de::value::StringDeserializer<serde::de::value::Error> = b64.to_string().into_deserializer(); Manifest::deserialize(d).map_err(|e| e.to_string()) })),
        ];
        for (route, r) in others {
            t.evals += 1;
            let same = match (&r, &first) {
                (Ok(Err(_)), Ok(Err(_))) => true,
                (Ok(Ok(a)), Ok(Ok(b))) => a.len() == b.len() && guard(|| a.iter().map(|f| f.into_pair()).collect::<Vec<_>>()) == guard(|| b.iter().map(|f| f.into_pair()).collect::<Vec<_>>())
                    && a.manifest_number() == b.manifest_number() && a.this_update() == b.this_update() && a.next_update() == b.next_update(),
                _ => false,
            };
            if !same { t.fail("C14.route.serde_verdict", wit, format!("{route} gives {}, serde_json::from_str {}",
                match &r { Ok(Ok(_)) => "a manifest".to_string(), Ok(Err(e)) => format!("error {e}"), Err(p) => p.clone() }, if accepted { "a manifest (or a different one)" } else { "an error" })) }
        }
    }
}

/// The views and wall-clock siblings of one decoded `Manifest`.
#[allow(clippy::too_many_arguments)]
fn manifest_views(t: &mut Tally, cms: &Cms, c: &Case, m: &Manifest, obj: &Bytes, strict: bool, alt: &dyn Fn(usize) -> Vec<u8>, wit: &dyn Fn() -> String) {
    use std::borrow::Borrow;
    // content(), Deref, AsRef, Borrow: one and the same content; cert(): the EE certificate that was put in
    let content: &ManifestContent = m.content();
    let views: [&ManifestContent; 3] = [m, m.as_ref(), m.borrow()];
    let me: &Manifest = m.as_ref();
    if views.iter().any(|v| !std::ptr::eq(*v, content)) || !std::ptr::eq(me, m) || m.len() != content.len()
        || m.cert().subject_key_identifier() != cms.signer.ski(EE_KEY) {
        t.fail("C14.api.manifest_views", wit, "content() / Deref / AsRef / Borrow / cert() disagree".into());
    }
    let pairs = |mc: &ManifestContent| guard(|| mc.iter().map(|f| f.into_pair()).collect::<Vec<(Bytes, Bytes)>>());
    let same_content = |a: &ManifestContent, b: &ManifestContent| a.len() == b.len() && a.manifest_number() == b.manifest_number()
        && a.this_update() == b.this_update() && a.next_update() == b.next_update() && a.file_hash_alg() == b.file_hash_alg() && pairs(a) == pairs(b);
    // validate() is validate_at(Time::now()); the by-value content it returns is the by-reference one
    let wall_clock = |m: &Manifest, which: &'static str, t: &mut Tally| {
        let at_now = guard(|| m.clone().validate_at(&cms.ca, strict, Time::now()));
        let wall = guard(|| m.clone().validate(&cms.ca, strict));
        let verdict = |r: &Result<Result<(ResourceCert, ManifestContent), rpki::repository::error::ValidationError>, String>| match r { Ok(Ok(_)) => "valid", Ok(Err(_)) => "invalid", Err(_) => "panic" };
        if verdict(&at_now) != verdict(&wall) || verdict(&wall) == "panic" {
            t.fail("C14.api.validate_now", wit, format!("EE window {which}: validate() = {}, validate_at(Time::now()) = {}", verdict(&wall), verdict(&at_now)));
        }
        if let (Ok(Ok((cert_a, ca))), Ok(Ok((cert_b, cb)))) = (&at_now, &wall) {
            if !same_content(ca, m.content()) || !same_content(cb, m.content()) || cert_a.subject_key_identifier() != cert_b.subject_key_identifier() {
                t.fail("C14.api.validate_now", wit, format!("EE window {which}: the content returned by validate()/validate_at() differs from content()"));
            }
        }
        t.stat(match (which, verdict(&wall)) {
            ("2000..2100", "valid") => "validate_now_current_valid", ("2000..2100", _) => "validate_now_current_invalid",
            ("2000..2001", "valid") => "validate_now_expired_valid", ("2000..2001", _) => "validate_now_expired_invalid",
            (_, "valid") => "validate_now_future_valid", _ => "validate_now_future_invalid",
        });
    };
    wall_clock(m, "2000..2100", t);
    for (i, which) in [(1usize, "2000..2001"), (2, "2100..2101")] {
        match guard(|| Manifest::decode(Bytes::from(alt(i)), strict)) {
            Ok(Ok(other)) => {
                if !same_content(other.content(), m.content()) { t.fail("C14.api.validate_now", wit, format!("EE window {which}: same eContent, different content()")) }
                wall_clock(&other, which, t)
            }
            _ => t.stat("object_with_other_ee_window_not_decoded"),
        }
    }
    // encode_ref()/to_captured(): a strictly decoded object written out again decodes to the same manifest
    // (objects decoded in relaxed mode cannot be re-encoded: C04's finding)
    if strict {
        match guard(|| m.to_captured().into_bytes()) {
            Ok(again) => match guard(|| Manifest::decode(again.clone(), true)) {
                Ok(Ok(m2)) if same_content(m2.content(), m.content()) => if again == *obj { t.stat("to_captured_identical_to_input") } else { t.stat("to_captured_differs_from_input_but_same_manifest") },
                _ => t.fail("C14.api.reencode", wit, format!("to_captured() of a strictly decoded manifest does not decode to the same manifest: {}", trunc(&hex(&again), 300))),
            },
            Err(p) => t.fail("C14.api.reencode", wit, format!("to_captured() of a strictly decoded manifest panicked: {p}")),
        }
    }
    let _ = c;
}

//------------ spaces -------------------------------------------------------------------

const ALPHABET: &[u8] = b"aZ0-_./";
const CMS_EVERY: u64 = 5;

/// The six placements of one name under test in lists of 1..=3 entries.
fn arrangement(fx: &Fixed, a: usize, name: &[u8]) -> Vec<MftEntry> {
    let x = MftEntry { name: name.to_vec(), hash_unused: 0, hash: fx.h0.clone() };
    let (g0, g1) = (fx.good("a-b_C1.roa"), fx.good("X0.cer"));
    match a {
        0 => vec![x],
        1 => vec![x, g0],
        2 => vec![g0, x],
        3 => vec![x, g0, g1],
        4 => vec![g0, x, g1],
        _ => vec![g0, g1, x],
    }
}

fn names_alphabet(ctx: &Ctx, fx: &Fixed, cms: &Cms) {
    let max_len: u32 = ctx.tier.pick(6, 7);
    let k = ALPHABET.len() as u64;
    let total = seq_count(k, max_len);
    let sp = ctx.space("names.alphabet", &format!(
        "every string of length 0..={max_len} over the alphabet {{a Z 0 - _ . /}} as a file name, at each of the 6 placements in lists of 1, 2 and 3 entries (other entries valid), decoded by ManifestContent::take_from in DER and BER mode from a complete buffer and (placements first-of-1 and last-of-3) from an own Source that has the eContent arrive in two pieces, split at every offset from the first to past the last octet of the name; non-trivial = distinct names containing a dot (stem/extension split exercised)"));
    let spc = ctx.space("cms.names", &format!(
        "every {CMS_EVERY}th name of names.alphabet in shortlex enumeration order (index i with i % {CMS_EVERY} == 0), placement (i / {CMS_EVERY}) % 6, wrapped in a complete signed object (EE certificate under TA->CA, RSA signature over the DER signed attributes) and decoded by Manifest::decode strict and relaxed, with the eContent as a primitive OCTET STRING and as a constructed one of two fragments split at every offset of the name; non-trivial = distinct wrapped names containing a dot"));
    let chunk = 2048u64;
    let nchunks = total.div_ceil(chunk);
    let parts: Vec<(Tally, Tally)> = (0..nchunks).into_par_iter().map(|ci| {
        let (mut t, mut tc) = (Tally::default(), Tally::default());
        let mut idxs = Vec::new();
        for i in ci * chunk..((ci + 1) * chunk).min(total) {
            seq_at(k, max_len, i, &mut idxs);
            let name: Vec<u8> = idxs.iter().map(|&j| ALPHABET[j]).collect();
            if name.contains(&b'.') { t.nontrivial += 1 }
            let cms_arr = if i % CMS_EVERY == 0 { Some(((i / CMS_EVERY) % 6) as usize) } else { None };
            for a in 0..6 {
                let c = Case::plain(arrangement(fx, a, &name));
                let ec = Bytes::from(c.econtent());
                let acc = run_content(&mut t, fx, &c, &ec, true);
                run_content(&mut t, fx, &c, &ec, false);
                if acc && a == 0 { t.stat("distinct_names_accepted"); t.sample(|| format!("accepted name \"{}\"", esc(&name))) }
                // the position of the name under test in the list, and of its octets in the eContent
                let (from, to) = name_spans(&ec)[[0usize, 0, 1, 0, 1, 2][a]];
                if a == 0 || a == 5 {
                    // the decoder sees the data arrive in two pieces, split at every offset of the name
                    for cut in from..=to {
                        for der_mode in [true, false] { run_pieces(&mut t, fx, &c, &ec, der_mode, &Cuts::At(vec![cut])); }
                    }
                }
                if cms_arr == Some(a) {
                    if name.contains(&b'.') { tc.nontrivial += 1 }
                    let signed = run_cms(&mut tc, fx, cms, &c, &ec, acc);
                    // the eContent as a constructed OCTET STRING of two fragments, split at every offset of the name
                    for cut in from..=to {
                        let enc = Enc { cuts: vec![cut], indef: false, outer_indef: false, nested: false };
                        let obj = Bytes::from(cms.assemble(&signed, &enc.tlv(&ec), false, 0));
                        let tlv = enc.tlv(&ec);
                        for strict in [true, false] { run_object(&mut tc, fx, cms, &c, &ec, &obj, strict, &enc.show(), None, &|ee| cms.assemble(&signed, &tlv, false, ee)) }
                    }
                }
            }
        }
        (t, tc)
    }).collect();
    let (mut t, mut tc) = (Tally::default(), Tally::default());
    for (a, b) in parts { t.absorb(a); tc.absorb(b) }
    t.flush(ctx, &sp); tc.flush(ctx, &spc);
    sp.set("alphabet", serde_json::json!("a Z 0 - _ . /"));
    sp.set("names", serde_json::json!(total));
    sp.done(true, &format!("all {total} names of length 0..={max_len} x 6 placements x 2 modes, + 2 placements x every split offset of the name x 2 modes"));
    spc.set("every", serde_json::json!(CMS_EVERY));
    spc.done(true, &format!("every {CMS_EVERY}th of {total} names, both decode modes, primitive eContent + every split offset of the name"));
}

const BASE_NAMES: [&str; 5] = ["a.roa", "ab-_0.cer", "Z9.mft", "x.crl", "A_b-c.GBR"];

fn names_octets(ctx: &Ctx, fx: &Fixed, cms: &Cms) {
    let sp = ctx.space("names.octets",
        "every octet value 0x00..=0xFF (NUL, space, backslash, %, :, DEL, 0x80.. among them) substituted at every position and inserted at every gap of 5 valid base names; every PAIR of octets at every two adjacent positions of one base name; the UTF-8 spellings of letter-like characters of two, three and four octets in place of octets of the extension and of the stem (a check on decoded characters instead of octets); each alone and after a valid entry, DER and BER mode; every 5th distinct name (in octet order) also through Manifest::decode; non-trivial = distinct resulting names that differ from every base name");
    let mut cases: Vec<Vec<u8>> = Vec::new();
    for b in BASE_NAMES {
        let b = b.as_bytes();
        for v in 0..=255u8 {
            for p in 0..b.len() { let mut n = b.to_vec(); n[p] = v; cases.push(n) }
            for p in 0..=b.len() { let mut n = b.to_vec(); n.insert(p, v); cases.push(n) }
        }
    }
    // Round 13: a name check on decoded *characters* (alphabetic, alphanumeric) instead of octets lets through
    // multi-octet sequences that no single substitution produces. Every pair of octets at every two adjacent
    // positions of one base name, and every well-formed UTF-8 spelling of a letter-like character (two and three
    // octets, a sample of four) in place of one, two or three octets of the extension and of the stem.
    {
        let b = BASE_NAMES[0].as_bytes();
        for p in 0..b.len() - 1 { for v in 0..=255u8 { for w in 0..=255u8 { let mut n = b.to_vec(); n[p] = v; n[p + 1] = w; cases.push(n) } } }
        let letters: Vec<char> = (0x80u32..0x800).chain((0x800u32..0x10000).step_by(7)).chain((0x10000u32..0x20000).step_by(101)).filter_map(char::from_u32).filter(|c| c.is_alphanumeric()).collect();
        for base in ["a.roa", "Z9.mft"] {
            let b = base.as_bytes();
            let dot = b.iter().position(|x| *x == b'.').unwrap();
            for c in &letters {
                let mut buf = [0u8; 4];
                let enc = c.encode_utf8(&mut buf).as_bytes();
                // in the extension: replacing its first / last octets so that the octet count stays 3 where it can, and growing it
                for (from, to) in [(dot + 1, dot + 1 + enc.len().min(3)), (dot + 1, dot + 2), (b.len() - 1, b.len()), (dot + 2, b.len())] {
                    let mut n = b[..from].to_vec(); n.extend_from_slice(enc); n.extend_from_slice(&b[to.min(b.len())..]); cases.push(n);
                }
                // in the stem
                let mut n = enc.to_vec(); n.extend_from_slice(&b[dot..]); cases.push(n);
            }
        }
    }
    let generated = cases.len();
    cases.sort(); cases.dedup(); // distinct names, in octet order
    let parts: Vec<Tally> = cases.par_chunks(512).enumerate().map(|(ci, ch)| {
        let mut t = Tally::default();
        for (j, name) in ch.iter().enumerate() {
            let idx = (ci * 512 + j) as u64;
            if !BASE_NAMES.iter().any(|b| b.as_bytes() == name.as_slice()) { t.nontrivial += 1 }
            for a in [0usize, 2] {
                let c = Case::plain(arrangement(fx, a, name));
                let ec = Bytes::from(c.econtent());
                let acc = run_content(&mut t, fx, &c, &ec, true);
                run_content(&mut t, fx, &c, &ec, false);
                if a == 0 && idx % CMS_EVERY == 0 { run_cms(&mut t, fx, cms, &c, &ec, acc); }
            }
        }
        t
    }).collect();
    let mut t = Tally::default();
    for p in parts { t.absorb(p) }
    t.flush(ctx, &sp);
    sp.set("base_names", serde_json::json!(BASE_NAMES));
    sp.done(true, &format!("256 octet values x every position and gap of {} base names, all 65 536 octet pairs at every two adjacent positions of one base name, and the UTF-8 spelling of letter-like characters (all of U+0080..U+07FF, every 7th up to U+FFFF, every 101st of plane 1) in the extension and the stem of two base names = {generated} names generated, {} distinct", BASE_NAMES.len(), cases.len()));
}

fn hash_bitstring(ctx: &Ctx, fx: &Fixed, cms: &Cms) {
    let sp = ctx.space("hash.bitstring",
        "hash BIT STRING octet lengths {0,1,31,32,33} x declared unused bits {0,1,7,8} x last octet {as is, low unused bits cleared, low bit set} derived from SHA-256 of two data values (one digest ending in seven zero bits, found by counting), as only entry and after a valid entry, DER and BER mode and through Manifest::decode; plus all 256 one-bit changes of the correct digest, all 496 octet pairs changed by the same difference (0x01, 0x80, 0xff) and 31 octet swaps; for each accepted entry verify() against the data, two one-bit-different data and empty data; non-trivial = distinct encodings whose hash octets differ from the correct digest");
    // second data value: first counter whose digest ends in seven zero bits, so that
    // the digest itself is a DER-valid content for 1 and 7 declared unused bits
    let mut ctr = 0u32;
    let (dz, hz) = loop {
        let d = format!("C14 data with a digest ending in zero bits #{ctr}").into_bytes();
        let h = sha256(&d);
        if h[31] & 0x7f == 0 { break (d, h) }
        ctr += 1;
    };
    let mut fxz = Fixed::new();
    let mut dz1 = dz.clone(); dz1[0] ^= 0x80;
    let mut dz2 = dz.clone(); *dz2.last_mut().unwrap() ^= 1;
    fxz.data = [dz, dz1, dz2, Vec::new()].into_iter().map(|d| { let h = sha256(&d); (d, h) }).collect();
    sp.set("zero_tail_digest", serde_json::json!({"counter": ctr, "sha256": hex(&hz)}));

    let mut t = Tally::default();
    let mut n_cases = 0u64;
    for (fxx, digest) in [(fx, fx.h0.clone()), (&fxz, hz.clone())] {
        let mut seen = std::collections::BTreeSet::new();
        for len in [0usize, 1, 31, 32, 33] {
            for unused in [0u8, 1, 7, 8] {
                for tail in 0..3 {
                    let mut h: Vec<u8> = digest.iter().copied().chain([0xA5u8]).take(len).collect();
                    if let Some(l) = h.last_mut() {
                        match tail { 0 => {}, 1 => *l &= !(((1u16 << unused.min(8)) - 1) as u8), _ => *l |= 1 }
                    } else if tail > 0 { continue }
                    if !seen.insert((unused, h.clone())) { continue } // same encoding as an earlier pattern
                    if h != digest { t.nontrivial += 1 }
                    for with_good in [false, true] {
                        let mut entries = vec![];
                        if with_good { entries.push(fxx.good("first.cer")) }
                        entries.push(MftEntry { name: b"obj.roa".to_vec(), hash_unused: unused, hash: h.clone() });
                        let c = Case::plain(entries);
                        let ec = Bytes::from(c.econtent());
                        let acc = run_content(&mut t, fxx, &c, &ec, true);
                        run_content(&mut t, fxx, &c, &ec, false);
                        run_cms(&mut t, fxx, cms, &c, &ec, acc);
                        n_cases += 1;
                    }
                }
            }
        }
        // every one-bit change of the correct digest
        for bit in 0..256usize {
            let mut h = digest.clone(); h[bit / 8] ^= 0x80 >> (bit % 8);
            t.nontrivial += 1;
            let c = Case::plain(vec![MftEntry { name: b"obj.roa".to_vec(), hash_unused: 0, hash: h }]);
            run_both(&mut t, fxx, &c);
            n_cases += 1;
        }
        // every pair of octets changed by the same difference (differences that
        // cancel under a sum or xor fold), three differences
        for delta in [0x01u8, 0x80, 0xff] {
            for i in 0..32usize { for j in i + 1..32 {
                let mut h = digest.clone(); h[i] ^= delta; h[j] ^= delta;
                t.nontrivial += 1;
                let c = Case::plain(vec![MftEntry { name: b"obj.roa".to_vec(), hash_unused: 0, hash: h }]);
                run_both(&mut t, fxx, &c);
                n_cases += 1;
            }}
        }
        // two octets swapped, first with every other (same multiset of octets)
        for j in 1..32usize {
            let mut h = digest.clone(); h.swap(0, j);
            if h == digest { continue }
            t.nontrivial += 1;
            let c = Case::plain(vec![MftEntry { name: b"obj.roa".to_vec(), hash_unused: 0, hash: h }]);
            run_both(&mut t, fxx, &c);
            n_cases += 1;
        }
    }
    t.flush(ctx, &sp);
    sp.done(true, &format!("{n_cases} distinct hash encodings x DER/BER (+ signed object for the length/unused grid)"));
}

//------------ length boundaries: the name check against the URI join check ---------------

/// Stem lengths: every length 1..=300, then the powers-of-two / NAME_MAX /
/// PATH_MAX / 16-bit neighbourhoods.
fn stem_lengths() -> Vec<usize> {
    let mut v: Vec<usize> = (1..=300).collect();
    v.extend([511, 512, 1023, 1024, 4095, 4096, 65535 - 4, 65536 - 4, 65535, 65536]);
    v
}

/// Base URIs near the limits a URI component might impose, with their directory.
fn long_bases(t: &mut Tally) -> Vec<(uri::Rsync, String)> {
    let m = "rsync://host/module/";
    let seg = |c: char, n: usize| c.to_string().repeat(n);
    let mut cands: Vec<String> = vec![
        m.into(), format!("{m}dir/sub/"), format!("{m}dir"),
        "RSYNC://HOST.example/Module/Dir/".into(),
        format!("{m}{}", "d/".repeat(200)),                         // 200 levels deep
        format!("{m}{}/", seg('s', 254)), format!("{m}{}/", seg('s', 255)), format!("{m}{}/", seg('s', 256)),
        format!("{m}{}", seg('s', 255)),                            // longest classic segment, no trailing slash
        format!("rsync://host/{}/", seg('m', 255)),                 // long module name, empty path
    ];
    // total length at 255/256, 4095/4096 and 65535/65536 octets (segments of at most 100)
    for total in [255usize, 256, 4095, 4096, 65535, 65536] {
        let mut s = String::from(m);
        while s.len() < total { let n = (total - s.len() - 1).min(100); if n == 0 { break } s.push_str(&seg('y', n)); s.push('/'); }
        if s.len() == total { cands.push(s) }
    }
    let mut out = Vec::new();
    for c in cands {
        match uri::Rsync::from_str(&c) {
            Ok(u) => { let dir = if c.ends_with('/') { c.clone() } else { format!("{c}/") }; out.push((u, dir)) }
            Err(_) => t.stat("base_uri_refused_by_library"),
        }
    }
    out
}

fn names_length(ctx: &Ctx, _fx: &Fixed, cms: &Cms) {
    let sp = ctx.space("names.length",
        "stems of every length 1..=300 and {511,512,1023,1024,4095,4096,65531,65532,65535,65536} octets in 6 character classes (a, Z, 0, -, _, half Z half _) x 8 shapes (valid .roa, valid .CER, two-letter and four-letter extension, no dot, slash inside, second dot, digit in extension), alone and after a valid entry, DER and BER mode; valid names whose stem length is a multiple of 25, within 248..=258, or above 300 also through Manifest::decode; every accepted list is resolved against each of 16 candidate base URIs that the library constructs (refusals are counted in statistics.base_uri_refused_by_library; the 3 usual ones, upper-case scheme/host, 200 levels deep, last segment of 254/255/256 octets with and without trailing slash, 255-octet module, total length 255/256/4095/4096/65535/65536 -- the last two only for stem lengths up to 8, multiples of 25, 248..=258 and above 300); non-trivial = distinct names longer than 7 octets (beyond names.alphabet)");
    let mut t0 = Tally::default();
    let mut fxl = Fixed::new();
    fxl.bases = long_bases(&mut t0);
    sp.set("bases", serde_json::json!(fxl.bases.iter().map(|(b, _)| esc(b.as_slice())).collect::<Vec<_>>()));
    let lens = stem_lengths();
    let classes: [(u8, u8); 6] = [(b'a', b'a'), (b'Z', b'Z'), (b'0', b'0'), (b'-', b'-'), (b'_', b'_'), (b'Z', b'_')];
    let jobs: Vec<(usize, usize)> = lens.iter().flat_map(|&l| (0..classes.len()).map(move |k| (l, k))).collect();
    // the two bases of 65 535 / 65 536 octets are resolved for the boundary stem lengths only
    let boundary = |l: usize| l <= 8 || l % 25 == 0 || (248..=258).contains(&l) || l > 300;
    let mut fxs = Fixed::new();
    fxs.bases = fxl.bases.iter().filter(|(b, _)| b.as_slice().len() < 65535).cloned().collect();
    let (fxl, fxs) = (&fxl, &fxs);
    let parts: Vec<Tally> = jobs.par_iter().map(|&(l, k)| {
        let mut t = Tally::default();
        let fxl = if boundary(l) { fxl } else { fxs };
        let (c1, c2) = classes[k];
        let stem: Vec<u8> = (0..l).map(|i| if i < l.div_ceil(2) { c1 } else { c2 }).collect();
        let with = |tail: &[u8]| [stem.as_slice(), tail].concat();
        let split = |mid: u8, tail: &[u8]| [&stem[..l / 2], &[mid][..], &stem[l / 2..], tail].concat();
        let shapes: [Vec<u8>; 8] = [
            with(b".roa"), with(b".CER"),
            with(b".ro"), with(b".roaa"), with(b"roa"), split(b'/', b".roa"), split(b'.', b".roa"), with(b".r0a"),
        ];
        for (si, name) in shapes.iter().enumerate() {
            if name.len() > 7 { t.nontrivial += 1 }
            for a in [0usize, 2] {
                let c = Case::plain(arrangement(fxl, a, name));
                let ec = Bytes::from(c.econtent());
                let acc = run_content(&mut t, fxl, &c, &ec, true);
                run_content(&mut t, fxl, &c, &ec, false);
                if acc && a == 0 { t.stat("distinct_names_accepted") }
                if si == 0 && a == 0 && boundary(l) && l > 8 { run_cms(&mut t, fxl, cms, &c, &ec, acc); }
            }
        }
        t
    }).collect();
    for p in parts { t0.absorb(p) }
    t0.flush(ctx, &sp);
    sp.done(true, &format!("{} stem lengths x {} classes x 8 shapes x 2 placements x 2 modes, each accepted list against {} bases", lens.len(), classes.len(), fxl.bases.len()));
}

//------------ how the eContent reaches the name check ---------------------------------------

/// Names for the fragmentation spaces: valid ones, invalid ones with a valid
/// prefix / suffix / infix, and one bad octet at every position of a valid name.
fn fragment_names() -> Vec<Vec<u8>> {
    let mut v: Vec<Vec<u8>> = [
        &b"ab.cer"[..], b"a-b_C1.roa", b"X0.mft",
        b"ab.cer/../../../other/x.cer", b"ab.cer/x.cer", b"ab.cerX", b"ab.cer.roa", b"ab.cer\0", b"ab.cer/", b"ab.cer..", b"ab.cer ",
        b"x/ab.cer", b"../ab.cer", b".ab.cer", b"/ab.cer", b"\0ab.cer", b"x.y/ab.cer",
        b"x/ab.cer/y", b"../ab.cer/..",
    ].iter().map(|n| n.to_vec()).collect();
    let base = b"ab.cer";
    for bad in [b'/', b'.', 0u8, b'%', 0x80] {
        for p in 0..=base.len() { let mut n = base.to_vec(); n.insert(p, bad); v.push(n) }
        for p in 0..base.len() { let mut n = base.to_vec(); n[p] = bad; v.push(n) }
    }
    v.sort(); v.dedup();
    v
}

fn econtent_fragments(ctx: &Ctx, fx: &Fixed, cms: &Cms) {
    let names = fragment_names();
    let sp = ctx.space("econtent.fragments",
        "the eContent of a correctly signed object written as a BER constructed OCTET STRING: for each name of a set (3 valid; 16 invalid with a valid prefix, suffix or infix such as ab.cer/../../../other/x.cer, ab.cerX, x/ab.cer; one of / . NUL % 0x80 inserted at every gap and substituted at every position of ab.cer), alone, before and after a valid entry: a fragment boundary at EVERY offset 0..=len of the eContent (offset 0 and len give an empty fragment) in 4 forms (definite; indefinite; indefinite inside an indefinite [0] and EncapsulatedContentInfo; first fragment itself a constructed string) and three fragments cut at (c, c+1) and at (c, c+3, indefinite); Manifest::decode relaxed and strict; non-trivial = encodings whose first boundary lies inside a file name");
    let jobs: Vec<(usize, usize)> = (0..names.len()).flat_map(|n| [0usize, 1, 2].map(move |a| (n, a))).collect();
    let parts: Vec<Tally> = jobs.par_iter().map(|&(ni, a)| {
        let mut t = Tally::default();
        let c = Case::plain(arrangement(fx, a, &names[ni]));
        let ec = c.econtent();
        let spans = name_spans(&ec);
        let signed = cms.sign(&ec);
        let n = ec.len();
        for cut in 0..=n {
            let mut encs = vec![
                Enc { cuts: vec![cut], indef: false, outer_indef: false, nested: false },
                Enc { cuts: vec![cut], indef: true, outer_indef: false, nested: false },
                Enc { cuts: vec![cut], indef: true, outer_indef: true, nested: false },
                Enc { cuts: vec![cut], indef: false, outer_indef: false, nested: true },
            ];
            if cut + 1 <= n { encs.push(Enc { cuts: vec![cut, cut + 1], indef: false, outer_indef: false, nested: false }) }
            if cut + 3 <= n { encs.push(Enc { cuts: vec![cut, cut + 3], indef: true, outer_indef: false, nested: false }) }
            for enc in encs {
                if spans.iter().any(|&(f, e)| f < cut && cut < e) { t.nontrivial += 1 }
                let tlv = enc.tlv(&ec);
                let obj = Bytes::from(cms.assemble(&signed, &tlv, enc.outer_indef, 0));
                let how = enc.show();
                for strict in [true, false] { run_object(&mut t, fx, cms, &c, &ec, &obj, strict, &how, None, &|ee| cms.assemble(&signed, &tlv, enc.outer_indef, ee)) }
            }
        }
        t
    }).collect();
    let mut t = Tally::default();
    for p in parts { t.absorb(p) }
    t.flush(ctx, &sp);
    sp.set("names", serde_json::json!(names.iter().map(|n| esc(n)).collect::<Vec<_>>()));
    sp.done(true, &format!("{} names x 3 placements x every offset of the eContent x 6 encodings x 2 modes", names.len()));
}

fn source_pieces(ctx: &Ctx, fx: &Fixed) {
    let names = fragment_names();
    let sp = ctx.space("source.pieces",
        "ManifestContent::take_from over an own bcder Source that has only part of the data buffered: the same name set and placements as econtent.fragments; the data arrives in pieces of k octets for k in {1,2,3,7,16}, in two pieces split at every offset 0..=len, and in three pieces split at (c, c+1); DER and BER mode; non-trivial = splits whose first boundary lies inside a file name");
    let jobs: Vec<(usize, usize)> = (0..names.len()).flat_map(|n| [0usize, 1, 2].map(move |a| (n, a))).collect();
    let parts: Vec<Tally> = jobs.par_iter().map(|&(ni, a)| {
        let mut t = Tally::default();
        let c = Case::plain(arrangement(fx, a, &names[ni]));
        let ec = Bytes::from(c.econtent());
        let spans = name_spans(&ec);
        let n = ec.len();
        let mut all: Vec<Cuts> = [1usize, 2, 3, 7, 16].iter().map(|k| Cuts::Every(*k)).collect();
        for cut in 0..=n {
            all.push(Cuts::At(vec![cut]));
            if cut + 1 <= n { all.push(Cuts::At(vec![cut, cut + 1])) }
        }
        for cuts in &all {
            if let Cuts::At(v) = cuts { if spans.iter().any(|&(f, e)| f < v[0] && v[0] < e) { t.nontrivial += 1 } }
            for der_mode in [true, false] { run_pieces(&mut t, fx, &c, &ec, der_mode, cuts); }
        }
        t
    }).collect();
    let mut t = Tally::default();
    for p in parts { t.absorb(p) }
    t.flush(ctx, &sp);
    sp.done(true, &format!("{} names x 3 placements x (5 piece sizes + every split offset, two and three pieces) x 2 modes", names.len()));
}

//------------ BER spellings inside the content -------------------------------------------------

/// How one TLV of the eContent is written.
#[derive(Clone, Copy, Debug, PartialEq, Eq, PartialOrd, Ord)]
enum Sp { Indef, LongLen, Seg2, Seg3, SegIndef }

impl Sp {
    fn show(self) -> &'static str {
        match self { Sp::Indef => "indefinite-length", Sp::LongLen => "non-minimal-length", Sp::Seg2 => "constructed-2-segments",
                     Sp::Seg3 => "constructed-3-segments", Sp::SegIndef => "constructed-2-segments-indefinite" }
    }
}

/// Length octets in long form with one octet more than needed.
fn long_len(n: usize) -> Vec<u8> {
    let mut b: Vec<u8> = n.to_be_bytes().iter().copied().skip_while(|x| *x == 0).collect();
    if n >= 128 || b.is_empty() { b.insert(0, 0) }
    let mut out = vec![0x80 | b.len() as u8];
    out.extend(b);
    out
}

/// Writes the TLV tree of `buf` again, the nodes named in `plan` in the given BER spelling.
fn respell(buf: &[u8], node: &der::Node, path: &mut Vec<usize>, plan: &[(Vec<usize>, Sp)]) -> Vec<u8> {
    let content: Vec<u8> = if node.constructed() {
        let mut c = Vec::new();
        for (i, ch) in node.children.iter().enumerate() { path.push(i); c.extend(respell(buf, ch, path, plan)); path.pop(); }
        c
    } else { node.content(buf).to_vec() };
    let sp = plan.iter().find(|(p, _)| p == path).map(|(_, s)| *s);
    let segments = |k: usize| -> Vec<u8> {
        // X.690 8.6.4 / 8.7.3 / 8.23.6: segments are BIT STRING resp. OCTET STRING encodings
        let (seg_tag, lead, body): (u8, Option<u8>, &[u8]) = if node.tag == der::T_BITSTR && !content.is_empty() {
            (der::T_BITSTR, Some(content[0]), &content[1..]) } else { (der::T_OCTSTR, None, &content[..]) };
        let mut out = Vec::new();
        for i in 0..k {
            let part = &body[body.len() * i / k..body.len() * (i + 1) / k];
            let mut c = Vec::new();
            if let Some(unused) = lead { c.push(if i + 1 == k { unused } else { 0 }) }
            c.extend_from_slice(part);
            out.extend(der::tlv(seg_tag, &c));
        }
        out
    };
    match sp {
        None => der::tlv(node.tag, &content),
        Some(Sp::Indef) => indefinite(node.tag, &content),
        Some(Sp::LongLen) => [&[node.tag][..], &long_len(content.len()), &content].concat(),
        Some(Sp::Seg2) => der::tlv(node.tag | 0x20, &segments(2)),
        Some(Sp::Seg3) => der::tlv(node.tag | 0x20, &segments(3)),
        Some(Sp::SegIndef) => indefinite(node.tag | 0x20, &segments(2)),
    }
}

fn ber_spellings(ctx: &Ctx, fx: &Fixed) {
    let sp = ctx.space("content.ber_spellings",
        "BER spellings inside an otherwise valid eContent, read by ManifestContent::take_from in BER and DER mode: for lists of 1, 2 and 3 entries (with and without an explicit version 0), every TLV (content SEQUENCE, version [0] and its INTEGER, manifestNumber, thisUpdate, nextUpdate, fileHashAlg, fileList, every FileAndHash SEQUENCE, every name, every hash) in every spelling that applies (constructed: indefinite length, non-minimal long-form length; INTEGER/OID: non-minimal length; strings and times: non-minimal length, constructed in 2 and 3 segments, constructed with indefinite length) -- every single respelling and every pair of respellings of two different TLVs; with all names and hashes valid whatever is accepted must iterate, resolve and verify like the DER form; the same respellings crossed with every kind of excluded name (12 names: slash, dot-dot, bad extension, empty, ...) at every position of the list: whatever is accepted then lists a name the property excludes; rejections are only counted; non-trivial = respelled encodings (all differ from DER)");
    let names = ["a-b_C1.roa", "X0.cer", "third_3.crl"];
    // Every spelling is also crossed with every kind of violation of the name rule (round 12): one
    // entry of the list carries a name the property excludes. Whatever is accepted goes through
    // `examine`, which demands that every listed name is a single RFC 9286 segment and resolves
    // directly inside the base.
    let bad_names: [&str; 12] = ["sub/fine.roa", "../fine.roa", "fine.roa#", ".roa", "a.b.roa", "fine.ro", "fine.roax", "fine", "",
                                 "fi ne.roa", "fine.r0a", "/fine.roa"];
    let mut jobs: Vec<(usize, bool, Option<(usize, usize)>)> = Vec::new();
    for n in 1..=3usize { for ver in [false, true] { jobs.push((n, ver, None)) } }
    for n in 1..=3usize { for pos in 0..n { for b in 0..bad_names.len() { jobs.push((n, false, Some((pos, b)))) } } }
    let parts: Vec<Tally> = jobs.par_iter().map(|&(n, ver, bad)| {
        let mut t = Tally::default();
        let mut c = Case::plain(names[..n].iter().map(|s| fx.good(s)).collect());
        if ver { c.version = Some(0) }
        if let Some((pos, b)) = bad { c.entries[pos] = fx.good(bad_names[b]); }
        let ec = c.econtent();
        let root = der::parse_one(&ec, false).expect("own eContent parses");
        let mut nodes = Vec::new();
        root.walk(&mut Vec::new(), &mut nodes);
        // role names for the witness
        let k0 = if ver { 1 } else { 0 };
        let role = |p: &[usize]| -> String {
            match p {
                [] => "content".into(),
                [0] if ver => "version".into(), [0, 0] if ver => "version.INTEGER".into(),
                [i] if *i == k0 => "manifestNumber".into(), [i] if *i == k0 + 1 => "thisUpdate".into(),
                [i] if *i == k0 + 2 => "nextUpdate".into(), [i] if *i == k0 + 3 => "fileHashAlg".into(),
                [_] => "fileList".into(), [_, e] => format!("entry[{e}]"),
                [_, e, 0] => format!("name[{e}]"), [_, e, _] => format!("hash[{e}]"),
                _ => format!("{p:?}"),
            }
        };
        // all (node, spelling) choices
        let mut choices: Vec<(Vec<usize>, Sp)> = Vec::new();
        for (p, nd) in &nodes {
            let sps: &[Sp] = if nd.constructed() { &[Sp::Indef, Sp::LongLen] }
                else if [der::T_INT, der::T_OID].contains(&nd.tag) { &[Sp::LongLen] }
                else { &[Sp::LongLen, Sp::Seg2, Sp::Seg3, Sp::SegIndef] };
            for s in sps { choices.push((p.clone(), *s)) }
        }
        let mut plans: Vec<Vec<(Vec<usize>, Sp)>> = choices.iter().map(|ch| vec![ch.clone()]).collect();
        // with a bad name: every single respelling, and every pair that involves the bad entry's name
        let bad_name_path: Option<Vec<usize>> = bad.map(|(pos, _)| {
            nodes.iter().map(|(p, _)| p.clone()).find(|p| p.len() == 3 && p[1] == pos && p[2] == 0).expect("name node of the bad entry")
        });
        for i in 0..choices.len() { for j in i + 1..choices.len() {
            if choices[i].0 == choices[j].0 { continue }
            if let Some(bp) = &bad_name_path { if &choices[i].0 != bp && &choices[j].0 != bp { continue } }
            plans.push(vec![choices[i].clone(), choices[j].clone()])
        }}
        for plan in &plans {
            let bytes = Bytes::from(respell(&ec, &root, &mut Vec::new(), plan));
            t.nontrivial += 1;
            let label = plan.iter().map(|(p, s)| format!("{}:{}", role(p), s.show())).collect::<Vec<_>>().join("+");
            for der_mode in [false, true] {
                let mode = if der_mode { Mode::Der } else { Mode::Ber };
                let how = format!("take_from/{} respelled[{label}]", if der_mode { "der" } else { "ber" });
                let wit = || witness(&how, &c, &bytes);
                let res = guard(|| mode.decode(bytes.clone(), ManifestContent::take_from).map_err(|_| ()));
                let acc = judge_content(&mut t, fx, &c, der_mode, res, &wit, false);
                if plan.len() == 1 {
                    t.stat(match (der_mode, plan[0].1, acc) {
                        (true, _, true) => "der_mode_accepts_a_respelling", (true, _, false) => "der_mode_rejects_respelling",
                        (false, Sp::Indef, true) => "ber_accepts_indefinite_length", (false, Sp::Indef, false) => "ber_rejects_indefinite_length",
                        (false, Sp::LongLen, true) => "ber_accepts_non_minimal_length", (false, Sp::LongLen, false) => "ber_rejects_non_minimal_length",
                        (false, _, true) => "ber_accepts_constructed_string", (false, _, false) => "ber_rejects_constructed_string",
                    });
                }
            }
        }
        t
    }).collect();
    let mut t = Tally::default();
    for p in parts { t.absorb(p) }
    t.flush(ctx, &sp);
    sp.done(true, "6 valid lists x every single respelling and every pair of respellings of two different TLVs x 2 modes; 72 lists with one excluded name (12 names x every position of lists of 1..3) x every single respelling and every pair involving that name x 2 modes");
}

//------------ the number of entries ---------------------------------------------------------------

fn entry_counts(ctx: &Ctx, fx: &Fixed, cms: &Cms) {
    let mut counts: Vec<usize> = (0..=40).collect();
    for k in [64usize, 128, 256, 1024, 4096] { counts.extend([k - 1, k, k + 1]) }
    let quick_max = *counts.last().unwrap();
    if ctx.tier.is_thorough() { for k in [16384usize, 65536, 1 << 18, 1 << 20] { counts.extend([k - 1, k, k + 1]) } }
    let sp = ctx.space("entries.count", &format!(
        "file lists of n distinct valid names for every n in 0..=40 and k-1, k, k+1 around 64, 128, 256, 1024, 4096 (quick), 16384, 65536, 2^18, 2^20 (thorough only): first, middle and last entry carry the SHA-256 of the data, all others a different hash each; DER and BER mode (n <= 65537 also through Manifest::decode): len(), is_empty(), iter(), iter_uris() on 3 bases, verify, accessors as for every accepted manifest; and the same lists with one bad name (.roa, a/b.roa) at the first, middle and last position (n <= {quick_max}; above: last only), which must not decode; non-trivial = lists with more than 3 entries"));
    let list = |n: usize| -> Vec<MftEntry> {
        (0..n).map(|i| {
            let mut e = fx.good(&format!("f{i:07}.roa"));
            if i != 0 && i != n / 2 && i + 1 != n { for (j, b) in (i as u32).to_be_bytes().iter().enumerate() { e.hash[j] ^= b } }
            e
        }).collect()
    };
    let run = |n: usize| -> Tally {
        let mut t = Tally::default();
        if n > 3 { t.nontrivial += 1 }
        let c = Case::plain(list(n));
        let ec = Bytes::from(c.econtent());
        let acc = run_content(&mut t, fx, &c, &ec, true);
        run_content(&mut t, fx, &c, &ec, false);
        if n <= 65537 { run_cms(&mut t, fx, cms, &c, &ec, acc); }
        if acc { t.stat("valid_lists_accepted") }
        drop(c);
        let positions: Vec<usize> = if n == 0 { vec![] } else if n <= quick_max { vec![0, n / 2, n - 1] } else { vec![n - 1] };
        let mut seen = std::collections::BTreeSet::new();
        for p in positions {
            if !seen.insert(p) { continue }
            for bad in [&b".roa"[..], b"a/b.roa"] {
                if n > quick_max && bad != b".roa" { continue }
                let mut e = list(n);
                e[p].name = bad.to_vec();
                run_both(&mut t, fx, &Case::plain(e));
            }
        }
        t
    };
    let (small, large): (Vec<usize>, Vec<usize>) = counts.iter().partition(|n| **n <= 65537);
    let mut t = Tally::default();
    for p in small.par_iter().map(|&n| run(n)).collect::<Vec<_>>() { t.absorb(p) }
    // the largest lists one after the other (memory)
    for n in large { t.absorb(run(n)) }
    t.flush(ctx, &sp);
    sp.set("counts", serde_json::json!(counts));
    sp.done(true, &format!("{} list sizes up to {}", counts.len(), counts.last().unwrap()));
}

fn time_domain() -> Vec<TimeEnc> {
    let base = civ(2023, 11, 14, 22, 13, 20);
    let mut civs = vec![base];
    // one step in every field around the base
    for f in 0..6 { for up in [false, true] {
        let mut c = base;
        let d: i32 = if up { 1 } else { -1 };
        match f { 0 => c.y += d, 1 => c.mo = (c.mo as i32 + d) as u32, 2 => c.d = (c.d as i32 + d) as u32,
                  3 => c.h = (c.h as i32 + d) as u32, 4 => c.mi = (c.mi as i32 + d) as u32, _ => c.s = (c.s as i32 + d) as u32 }
        civs.push(c);
    }}
    civs.extend([
        civ(1, 1, 1, 0, 0, 0), civ(1949, 12, 31, 23, 59, 59), civ(1950, 1, 1, 0, 0, 0), civ(1970, 1, 1, 0, 0, 0),
        civ(1999, 12, 31, 23, 59, 59), civ(2000, 1, 1, 0, 0, 0), civ(2000, 2, 29, 12, 0, 0), civ(2024, 2, 29, 0, 0, 0),
        civ(2049, 12, 31, 23, 59, 59), civ(2050, 1, 1, 0, 0, 0), civ(9999, 12, 31, 23, 59, 59),
        // not calendar times (no order oracle; they show the rejecting branch)
        civ(2023, 2, 29, 0, 0, 0), civ(2023, 12, 31, 23, 59, 60), civ(2023, 13, 1, 0, 0, 0), civ(2023, 4, 31, 0, 0, 0),
    ]);
    let mut out = Vec::new();
    for c in civs {
        out.push(TimeEnc { civ: c, utc: false });
        if (1950..=2049).contains(&c.y) { out.push(TimeEnc { civ: c, utc: true }) }
    }
    out
}

fn times(ctx: &Ctx, fx: &Fixed, cms: &Cms) {
    let dom = time_domain();
    let sp = ctx.space("times",
        "all ordered pairs (thisUpdate, nextUpdate) over a boundary domain of calendar times (one step in each field around a base instant, UTCTime/GeneralizedTime pivot years, leap days, year 1 and 9999, four non-dates), GeneralizedTime and (1950..=2049) UTCTime encodings, with 0 and 1 entries, DER and BER mode; every 5th pair also through Manifest::decode; non-trivial = pairs of two real calendar times that differ");
    let pairs: Vec<(usize, usize)> = (0..dom.len()).flat_map(|a| (0..dom.len()).map(move |b| (a, b))).collect();
    let parts: Vec<Tally> = pairs.par_chunks(256).enumerate().map(|(ci, ch)| {
        let mut t = Tally::default();
        for (j, &(a, b)) in ch.iter().enumerate() {
            let idx = (ci * 256 + j) as u64;
            let (this, next) = (dom[a], dom[b]);
            let real = valid_civil(this.civ) && valid_civil(next.civ);
            if real && this.civ != next.civ { t.nontrivial += 1 }
            for n in [0usize, 1] {
                let mut c = Case::plain(if n == 0 { vec![] } else { vec![fx.good("obj.roa")] });
                c.this = this; c.next = next;
                let ec = Bytes::from(c.econtent());
                let acc = run_content(&mut t, fx, &c, &ec, true);
                run_content(&mut t, fx, &c, &ec, false);
                if real && n == 1 {
                    t.stat(match (this.civ.cmp(&next.civ), acc) {
                        (std::cmp::Ordering::Less, true) => "this_before_next_accepted",
                        (std::cmp::Ordering::Equal, true) => "this_equal_next_accepted",
                        (std::cmp::Ordering::Greater, false) => "this_after_next_rejected",
                        (std::cmp::Ordering::Greater, true) => "this_after_next_accepted",
                        (_, false) => "ordered_pair_rejected",
                    });
                }
                if n == 1 && idx % CMS_EVERY == 0 { run_cms(&mut t, fx, cms, &c, &ec, acc); }
            }
        }
        t
    }).collect();
    let mut t = Tally::default();
    for p in parts { t.absorb(p) }
    t.flush(ctx, &sp);
    sp.set("domain", serde_json::json!(dom.iter().map(|d| d.show()).collect::<Vec<_>>()));
    sp.done(true, &format!("all {} ordered pairs of a {}-point domain x 2 list sizes x 2 modes", pairs.len(), dom.len()));
}

fn header_len(ctx: &Ctx, fx: &Fixed, cms: &Cms) {
    let sp = ctx.space("header.len",
        "version field {absent, 0, 1, 2} x manifest number magnitudes of {0,1,1(high bit),8,19,20,20(high bit),21} octets x {SHA-256, SHA-1} x 0..=3 entries, DER and BER mode and through Manifest::decode; plus lists of 1000 and 1001 valid names, 1000 names with one bad name first/middle/last; len(), is_empty(), iter(), iter_uris() compared; non-trivial = cases that differ from the default header or have more than 3 entries");
    let numbers: Vec<Vec<u8>> = vec![
        vec![], vec![0x01], vec![0x80], vec![0x7f; 8], vec![0x7f; 19], vec![0x7f; 20], vec![0xff; 20], vec![0x01; 21],
    ];
    let names = ["a-b_C1.roa", "X0.cer", "third_3.crl"];
    let mut t = Tally::default();
    for version in [None, Some(0u128), Some(1), Some(2)] {
        for number in &numbers {
            for sha256_alg in [true, false] {
                for n in 0..=3usize {
                    let mut c = Case::plain(names[..n].iter().map(|s| fx.good(s)).collect());
                    c.version = version; c.number = number.clone(); c.sha256_alg = sha256_alg;
                    if version.is_some() || !sha256_alg || *number != [0x12, 0x34] { t.nontrivial += 1 }
                    let ec = Bytes::from(c.econtent());
                    let acc = run_content(&mut t, fx, &c, &ec, true);
                    run_content(&mut t, fx, &c, &ec, false);
                    run_cms(&mut t, fx, cms, &c, &ec, acc);
                }
            }
        }
    }
    // long lists
    let long = |n: usize, bad_at: Option<usize>, bad: &[u8]| -> Case {
        let mut e: Vec<MftEntry> = (0..n).map(|i| fx.good(&format!("f{i:04}.roa"))).collect();
        if let Some(p) = bad_at { e[p].name = bad.to_vec() }
        Case::plain(e)
    };
    let mut longs = vec![long(1000, None, b""), long(1001, None, b""), long(255, None, b""), long(256, None, b""), long(257, None, b"")];
    for bad in [&b".roa"[..], b"a/b.roa", b"..", b"f.ro", b"f0000.r0a"] {
        for p in [0usize, 500, 999] { longs.push(long(1000, Some(p), bad)) }
    }
    for c in &longs {
        t.nontrivial += 1;
        let ec = Bytes::from(c.econtent());
        let acc = run_content(&mut t, fx, c, &ec, true);
        run_content(&mut t, fx, c, &ec, false);
        run_cms(&mut t, fx, cms, c, &ec, acc);
        if acc { t.stat("long_lists_accepted") }
    }
    // a long list with duplicates of one entry (len counts entries, not names)
    let dup = Case::plain((0..1000).map(|_| clone_entry(&fx.good("same.roa"))).collect());
    t.nontrivial += 1;
    run_both(&mut t, fx, &dup);
    t.flush(ctx, &sp);
    sp.done(true, "4 versions x 8 numbers x 2 algorithms x 4 list sizes; 21 long lists");
}

//------------ observations: everything one evaluation lets a caller see, as one comparable string ----------

/// How a subject reaches the library.
#[derive(Clone, Copy, Debug, PartialEq, Eq)]
enum Route { ContentDer, ContentBer, CmsStrict, CmsRelaxed, Serde }

#[derive(Clone)]
struct Subject { label: String, bytes: Bytes, route: Route }

/// Everything observable of a decoded content.
fn describe(mc: &ManifestContent, bases: &[(uri::Rsync, String)], data0: &[u8], reencode: bool) -> String {
    let mut s = format!("len={} empty={} no={} this={} next={} sha256={} stale={}", mc.len(), mc.is_empty(), mc.manifest_number(),
        mc.this_update().to_rfc3339(), mc.next_update().to_rfc3339(), mc.file_hash_alg() == DigestAlgorithm::sha256(), mc.is_stale());
    match guard(|| mc.iter().map(|f| f.into_pair()).collect::<Vec<_>>()) {
        Ok(v) => for (n, h) in v { s.push_str(&format!(" [{}:{}]", esc(&n), hex(&h))) },
        Err(p) => s.push_str(&format!(" iter() panics: {p}")),
    }
    for (b, _) in bases {
        match guard(|| mc.iter_uris(b).map(|(u, h)| format!("{}={}", esc(u.as_slice()), h.verify(data0).is_ok())).collect::<Vec<_>>()) {
            Ok(v) => s.push_str(&format!(" uris({})={}", esc(b.as_slice()), v.join(","))),
            Err(p) => s.push_str(&format!(" iter_uris({}) panics: {p}", esc(b.as_slice()))),
        }
    }
    if reencode {
        match guard(|| mc.encode_ref().to_captured(Mode::Der).into_bytes()) {
            Ok(b) => s.push_str(&format!(" encodes-to={}", hex(&sha256(&b)[..8]))),
            Err(p) => s.push_str(&format!(" encode_ref() panics: {p}")),
        }
    }
    s
}

/// One complete evaluation of a subject, reduced to a string.
fn observe(sub: &Subject, fx: &Fixed, cms: &Cms) -> String {
    let data0 = &fx.data[0].0;
    let content = |mode: Mode| match guard(|| mode.decode(sub.bytes.clone(), ManifestContent::take_from).map_err(|e| e.to_string())) {
        Err(p) => format!("decode panics: {p}"),
        Ok(Err(e)) => format!("rejected: {e}"),
        Ok(Ok(mc)) => format!("accepted: {}", describe(&mc, &fx.bases, data0, mode == Mode::Der)),
    };
    let object = |r: Result<Result<Manifest, String>, String>, strict: bool| match r {
        Err(p) => format!("decode panics: {p}"),
        Ok(Err(e)) => format!("rejected: {e}"),
        Ok(Ok(m)) => {
            let mut s = format!("accepted: {} ski={}", describe(m.content(), &fx.bases, data0, true), m.cert().subject_key_identifier());
            for (what, ca, at) in [("ca@2023", &cms.ca, pki::T0), ("ca@1999", &cms.ca, 915_148_800), ("other-ca@2023", &cms.ca_other, pki::T0)] {
                s.push_str(&match guard(|| m.clone().validate_at(ca, strict, pki::time(at))) {
                    Ok(Ok((cert, mc))) => format!(" validate_at({what})=valid[{} len={}]", cert.subject_key_identifier(), mc.len()),
                    Ok(Err(e)) => format!(" validate_at({what})=invalid[{e}]"),
                    Err(p) => format!(" validate_at({what}) panics: {p}"),
                });
            }
            s.push_str(&match guard(|| m.clone().validate(&cms.ca, strict)) { Ok(Ok(_)) => " validate()=valid".into(), Ok(Err(e)) => format!(" validate()=invalid[{e}]"), Err(p) => format!(" validate() panics: {p}") });
            s
        }
    };
    match sub.route {
        Route::ContentDer => content(Mode::Der),
        Route::ContentBer => content(Mode::Ber),
        Route::CmsStrict => object(guard(|| Manifest::decode(sub.bytes.clone(), true).map_err(|e| e.to_string())), true),
        Route::CmsRelaxed => object(guard(|| Manifest::decode(sub.bytes.clone(), false).map_err(|e| e.to_string())), false),
        Route::Serde => { let json = cms.serde_form(&sub.bytes); object(guard(|| serde_json::from_str::<Manifest>(&json).map_err(|e| e.to_string())), true) }
    }
}

/// Runs `f` first thing on a new OS thread.
fn fresh_thread<T: Send>(f: impl FnOnce() -> T + Send) -> T {
    std::thread::scope(|sc| sc.spawn(f).join().expect("explorer thread"))
}

/// The subject set: accepted and rejected, every route, short and long.
fn subjects(fx: &Fixed, cms: &Cms) -> Vec<Subject> {
    let mut v = Vec::new();
    let names = |n: usize| -> Vec<MftEntry> { (0..n).map(|i| fx.good(&format!("file{i:03}.roa"))).collect() };
    let mut content = |label: &str, c: &Case, ber_too: bool| {
        let ec = Bytes::from(c.econtent());
        v.push(Subject { label: format!("take_from/der {label}"), bytes: ec.clone(), route: Route::ContentDer });
        if ber_too { v.push(Subject { label: format!("take_from/ber {label}"), bytes: ec, route: Route::ContentBer }) }
    };
    content("empty list", &Case::plain(vec![]), true);
    content("one entry", &Case::plain(vec![fx.good("a-b_C1.roa")]), true);
    content("three entries", &Case::plain(vec![fx.good("a-b_C1.roa"), fx.good("X0.cer"), fx.good("third_3.crl")]), false);
    content("40 entries", &Case::plain(names(40)), false);
    content("a 300-octet name", &Case::plain(vec![fx.good(&format!("{}.roa", "n".repeat(296)))]), false);
    content("bad name .roa", &Case::plain(vec![fx.good("a-b_C1.roa"), fx.good(".roa")]), true);
    content("bad name a/b.roa last of three", &Case::plain(vec![fx.good("a-b_C1.roa"), fx.good("X0.cer"), fx.good("a/b.roa")]), false);
    content("bad name ../x.roa first", &Case::plain(vec![fx.good("../x.roa"), fx.good("X0.cer")]), false);
    { let mut c = Case::plain(names(2)); c.this = NEXT; c.next = THIS; content("inverted times", &c, false); }
    { let mut c = Case::plain(names(2)); c.next = THIS; content("equal times", &c, false); }
    { let mut c = Case::plain(names(1)); c.this = TimeEnc { civ: civ(2049, 12, 31, 23, 59, 59), utc: true }; c.next = TimeEnc { civ: civ(2050, 1, 1, 0, 0, 0), utc: false }; content("UTCTime/GeneralizedTime pivot", &c, false); }
    { let mut c = Case::plain(names(1)); c.version = Some(1); content("version 1", &c, false); }
    { let mut c = Case::plain(names(1)); c.number = vec![0x7f; 20]; content("20-octet number", &c, false); }
    content("hash of 33 octets, 8 unused bits", &Case::plain(vec![MftEntry { name: b"obj.roa".to_vec(), hash_unused: 8, hash: vec![0; 33] }]), false);
    content("hash of 31 octets", &Case::plain(vec![MftEntry { name: b"obj.roa".to_vec(), hash_unused: 0, hash: fx.h0[..31].to_vec() }]), false);
    content("hash with 1 unused bit, non-zero (BER only)", &Case::plain(vec![MftEntry { name: b"obj.roa".to_vec(), hash_unused: 1, hash: vec![0xff; 32] }]), true);
    // a BER respelling and a truncation
    {
        let c = Case::plain(names(2));
        let ec = c.econtent();
        let root = der::parse_one(&ec, false).expect("own eContent parses");
        let fl = root.children.len() - 1;
        let re = respell(&ec, &root, &mut Vec::new(), &[(vec![fl, 0], Sp::Indef), (vec![fl, 1, 0], Sp::Seg2)]);
        v.push(Subject { label: "take_from/ber entry[0] indefinite, name[1] constructed".into(), bytes: re.into(), route: Route::ContentBer });
        v.push(Subject { label: "take_from/der truncated in the second entry".into(), bytes: Bytes::copy_from_slice(&ec[..ec.len() - 20]), route: Route::ContentDer });
    }
    // signed objects
    let mut object = |label: &str, c: &Case, routes: &[Route], ee: usize, frag: Option<usize>| {
        let ec = c.econtent();
        let signed = cms.sign(&ec);
        let tlv = match frag { None => der::octets(&ec), Some(cut) => Enc { cuts: vec![cut], indef: true, outer_indef: false, nested: false }.tlv(&ec) };
        let obj = Bytes::from(cms.assemble(&signed, &tlv, false, ee));
        for r in routes { v.push(Subject { label: format!("{r:?} {label}"), bytes: obj.clone(), route: *r }) }
    };
    object("two entries", &Case::plain(names(2)), &[Route::CmsStrict, Route::CmsRelaxed, Route::Serde], 0, None);
    object("40 entries", &Case::plain(names(40)), &[Route::CmsStrict], 0, None);
    object("two entries, eContent in two fragments", &Case::plain(names(2)), &[Route::CmsStrict, Route::CmsRelaxed, Route::Serde], 0, Some(70));
    object("bad name sub/b.roa", &Case::plain(vec![fx.good("a-b_C1.roa"), fx.good("sub/b.roa")]), &[Route::CmsStrict, Route::CmsRelaxed, Route::Serde], 0, None);
    object("bad name (empty)", &Case::plain(vec![fx.good("")]), &[Route::CmsRelaxed, Route::Serde], 0, None);
    object("two entries, EE certificate expired", &Case::plain(names(2)), &[Route::CmsStrict, Route::Serde], 1, None);
    object("two entries, EE certificate not yet valid", &Case::plain(names(2)), &[Route::CmsRelaxed], 2, None);
    v
}

//------------ history.independent ------------------------------------------------------------

type Op = Box<dyn Fn() + Send + Sync>;

/// Operations of the same API family, chosen so that every exit path is taken.
fn predecessors(fx: &'static Fixed, cms: &'static Cms, subs: &[Subject]) -> Vec<(String, bool, Op)> {
    // (label, member of the reduced set used for pairs, operation)
    let mut p: Vec<(String, bool, Op)> = Vec::new();
    // every subject, fully observed (success and every decode error), is also a predecessor
    for (i, s) in subs.iter().enumerate() {
        let s = s.clone();
        p.push((format!("observe: {}", s.label), i % 3 == 0, Box::new(move || { observe(&s, fx, cms); })));
    }
    // a content cut off at every offset (decode error at every stage, after 0, 1, 2 valid entries)
    let c3 = Case::plain(vec![fx.good("a-b_C1.roa"), fx.good("X0.cer"), fx.good("third_3.crl")]);
    let ec3 = Bytes::from(c3.econtent());
    for k in 0..ec3.len() {
        let b = ec3.slice(..k);
        p.push((format!("take_from/ber on the first {k} octets of a three-entry content"), k % 16 == 0, Box::new(move || { let _ = guard(|| Mode::Ber.decode(b.clone(), ManifestContent::take_from).map(|m| m.iter().count())); })));
    }
    // every octet of that content replaced by 0xff, one at a time (error at that octet, or a different manifest)
    for k in 0..ec3.len() {
        let mut v = ec3.to_vec(); v[k] = 0xff; let b = Bytes::from(v);
        p.push((format!("take_from/der with octet {k} of a three-entry content set to ff"), k % 16 == 0, Box::new(move || { let _ = guard(|| Mode::Der.decode(b.clone(), ManifestContent::take_from).map(|m| m.iter().count())); })));
    }
    // a bad name after 0, 1, 2, 39 valid entries, through content and object routes
    for n in [0usize, 1, 2, 39] {
        let mut e: Vec<MftEntry> = (0..n).map(|i| fx.good(&format!("ok{i:02}.cer"))).collect();
        e.push(fx.good("../../other/b.roa"));
        let c = Case::plain(e);
        let ec = c.econtent();
        let obj = Bytes::from(cms.wrap(&ec, &cms.sign(&ec)));
        let json = cms.serde_form(&obj);
        let ecb = Bytes::from(ec);
        p.push((format!("take_from: bad name after {n} valid entries"), true, Box::new(move || { let _ = guard(|| Mode::Der.decode(ecb.clone(), ManifestContent::take_from).is_ok()); })));
        let o = obj.clone();
        p.push((format!("Manifest::decode: bad name after {n} valid entries"), n == 2, Box::new(move || { for strict in [true, false] { let _ = guard(|| Manifest::decode(o.clone(), strict).is_ok()); } })));
        p.push((format!("Deserialize: bad name after {n} valid entries"), true, Box::new(move || { let _ = guard(|| serde_json::from_str::<Manifest>(&json).map(|m| m.iter().count()).is_ok()); })));
    }
    // signed objects that fail at each stage of decode -> validate
    let good = Case::plain(vec![fx.good("a-b_C1.roa"), fx.good("X0.cer")]);
    let gec = good.econtent();
    let signed = cms.sign(&gec);
    let whole = cms.assemble(&signed, &der::octets(&gec), false, 0);
    let validate_all = move |obj: Bytes| { for strict in [true, false] { let _ = guard(|| Manifest::decode(obj.clone(), strict).map(|m| {
        let _ = guard(|| m.clone().validate_at(&cms.ca, strict, pki::time(pki::T0)).is_ok());
        let _ = guard(|| m.clone().validate(&cms.ca, strict).is_ok());
        m.iter().count()
    })); } };
    {
        let wrong_digest = Bytes::from(cms.assemble(&cms.sign_wrong_digest(&gec), &der::octets(&gec), false, 0));
        p.push(("validate: message digest is not the digest of the eContent".into(), true, Box::new(move || validate_all(wrong_digest.clone()))));
        let mut bad_sig = Signed { attrs: signed.attrs.clone(), signature: signed.signature.clone() }; bad_sig.signature[100] ^= 1;
        let bad_sig = Bytes::from(cms.assemble(&bad_sig, &der::octets(&gec), false, 0));
        p.push(("validate: signature with one bit changed".into(), true, Box::new(move || validate_all(bad_sig.clone()))));
        // same signature, other content (same identity, different content)
        let other = Case::plain(vec![fx.good("a-b_C1.roa"), fx.good("Y1.cer")]).econtent();
        let swapped = Bytes::from(cms.assemble(&signed, &der::octets(&other), false, 0));
        p.push(("validate: signed attributes of another manifest with the same number and key".into(), true, Box::new(move || validate_all(swapped.clone()))));
        let w = Bytes::from(whole.clone());
        p.push(("validate: under a CA that did not issue the EE certificate, and 200 years late".into(), true, Box::new(move || { for strict in [true, false] { let _ = guard(|| Manifest::decode(w.clone(), strict).map(|m| {
            let _ = guard(|| m.clone().validate_at(&cms.ca_other, strict, pki::time(pki::T0)).is_ok());
            let _ = guard(|| m.clone().validate_at(&cms.ca, strict, Time::utc(2223, 1, 1, 0, 0, 0)).is_ok());
        })); } })));
        for ee in [1usize, 2] {
            let o = Bytes::from(cms.assemble(&signed, &der::octets(&gec), false, ee));
            p.push((format!("validate: EE certificate window {}", if ee == 1 { "2000..2001" } else { "2100..2101" }), ee == 1, Box::new(move || validate_all(o.clone()))));
        }
        // the object cut off at 24 evenly spread offsets, and with the wrong content type
        for i in 0..24 { let k = whole.len() * i / 24; let o = Bytes::copy_from_slice(&whole[..k]);
            p.push((format!("Manifest::decode on the first {k} octets of a signed manifest"), i % 6 == 0, Box::new(move || validate_all(o.clone())))); }
        let roa_typed = { let mut w2 = whole.clone(); // content type manifest (…01 1a) -> ROA (…01 18), both places
            let pat = [0x2au8, 0x86, 0x48, 0x86, 0xf7, 0x0d, 0x01, 0x09, 0x10, 0x01, 0x1a];
            let mut i = 0; while i + pat.len() <= w2.len() { if w2[i..i + pat.len()] == pat { w2[i + pat.len() - 1] = 0x18 } i += 1 }
            Bytes::from(w2) };
        p.push(("Manifest::decode: object with the ROA content type".into(), true, Box::new(move || validate_all(roa_typed.clone()))));
        // re-encoding a relaxed decode panics (C04's finding): a genuine unwinding exit from the family
        let w = Bytes::from(whole.clone());
        p.push(("to_captured() on a relaxed decode (unwinds)".into(), true, Box::new(move || { let _ = guard(|| Manifest::decode(w.clone(), false).map(|m| m.to_captured().len())); })));
    }
    // serde failures before the decoder is reached
    for (label, text) in [("not JSON", "{"), ("a JSON number", "17"), ("not base64", "\"@@@@\""), ("base64 of garbage", "\"AAECAwQFBgc=\""), ("empty string", "\"\"")] {
        let text = text.to_string();
        p.push((format!("Deserialize: {label}"), true, Box::new(move || { let _ = guard(|| serde_json::from_str::<Manifest>(&text).is_ok()); })));
    }
    // iterators left half-way; an iterator-consuming constructor whose iterator panics after k items
    let ec40 = Bytes::from(Case::plain((0..40).map(|i| fx.good(&format!("file{i:03}.roa"))).collect()).econtent());
    for k in [0usize, 1, 20, 39] {
        let b = ec40.clone();
        p.push((format!("iter() and iter_uris() dropped after {k} of 40 entries"), k == 1, Box::new(move || { let _ = guard(|| { let m = Mode::Der.decode(b.clone(), ManifestContent::take_from).unwrap();
            let mut it = m.iter(); for _ in 0..k { it.next(); } let mut iu = m.iter_uris(&fx.bases[1].0); for _ in 0..k { iu.next(); } }); })));
        let b = ec40.clone();
        p.push((format!("ManifestContent::new with an iterator that panics after {k} items"), true, Box::new(move || { let _ = guard(|| { let m = Mode::Der.decode(b.clone(), ManifestContent::take_from).unwrap();
            let items: Vec<_> = m.iter().collect();
            ManifestContent::new(m.manifest_number(), m.this_update(), m.next_update(), m.file_hash_alg(),
                items.iter().enumerate().map(|(i, f)| { if i == k { panic!("iterator gives up") } f })).len() }); })));
    }
    // hash checks and URI operations that fail
    p.push(("ManifestHash::verify mismatches, hashes of 0/31/32/33 octets".into(), true, Box::new(move || { for n in [0usize, 31, 32, 33] {
        let h = ManifestHash::new(Bytes::from(vec![0x5a; n]), DigestAlgorithm::sha256()); let _ = guard(|| h.verify(b"x").is_ok()); } })));
    for (label, text) in [("bad scheme", "http://host/module/"), ("no module", "rsync://host/"), ("dot segment", "rsync://host/module/a/../b"), ("empty segment", "rsync://host/module//a"), ("bad character", "rsync://host/module/a b"), ("not UTF-8", "rsync://host/module/\u{fffd}")] {
        let text = text.to_string();
        p.push((format!("uri::Rsync::from_str fails: {label}"), true, Box::new(move || { let _ = guard(|| uri::Rsync::from_str(&text).is_ok()); })));
    }
    for (label, path) in [("slash first", &b"/x.roa"[..]), ("dot dot", b"../x.roa"), ("space", b"x y.roa"), ("empty segment", b"a//b.roa"), ("a 70 000-octet name", &[b'n'; 70_000])] {
        let path = path.to_vec();
        p.push((format!("Rsync::join fails or is long: {label}"), true, Box::new(move || { for (b, _) in &fx.bases { let _ = guard(|| b.join(&path).map(|u| u.parent().is_some()).is_ok()); } })));
    }
    p
}

fn history_independent(ctx: &Ctx, fx: &'static Fixed, cms: &'static Cms) {
    let sp = ctx.space("history.independent",
        "sequences, each on its own fresh OS thread: one predecessor operation (thorough: every ordered pair from a reduced menu), then every subject in order and again in reverse order; each subject's complete observation (verdict with error text, len, number, times, every entry, iter_uris on 3 bases with verify, re-encoding, validate_at under the right CA / too early / another CA, validate()) must equal the observation of the same subject evaluated first thing on a fresh thread. Subjects: accepted and rejected contents (DER and BER mode), signed objects (strict, relaxed, serde), short and long. Predecessors take every exit path of the family: every subject; a content cut off at every offset; every octet set to ff; a bad name after 0/1/2/39 valid entries through take_from, Manifest::decode and Deserialize; digest mismatch, bad signature, foreign signed attributes, wrong CA, expired / future EE; truncated objects; wrong content type; to_captured() on a relaxed decode (unwinds); serde input that fails before decoding; iterators dropped half-way; ManifestContent::new with an iterator that panics after k items; hash mismatches; URI parse and join errors; non-trivial = sequences whose predecessor fails or unwinds");
    let subs = subjects(fx, cms);
    // reference: each subject first thing on its own thread (twice: the reference itself must be reproducible)
    let reference: Vec<String> = subs.iter().map(|s| fresh_thread(|| observe(s, fx, cms))).collect();
    for (s, r) in subs.iter().zip(&reference) {
        sp.eval();
        let again = fresh_thread(|| observe(s, fx, cms));
        if again != *r { ctx.fail("C14.history.independent", format!("twice on fresh threads: {}", s.label), format!("first {} / second {}", trunc(r, 300), trunc(&again, 300))) }
        sp.outcome(if r.starts_with("accepted") { "subject accepted" } else { "subject rejected" });
    }
    sp.sample_str(|| format!("{} => {}", subs[1].label, trunc(&reference[1], 400)));
    let preds = predecessors(fx, cms, &subs);
    let mut sequences: Vec<Vec<usize>> = (0..preds.len()).map(|i| vec![i]).collect();
    if ctx.tier.is_thorough() {
        let reduced: Vec<usize> = (0..preds.len()).filter(|i| preds[*i].1).collect();
        for &a in &reduced { for &b in &reduced { sequences.push(vec![a, b]) } }
    }
    // 16 threads at a time, results gathered in sequence order
    let mut failures: Vec<(String, String)> = Vec::new();
    for batch in sequences.chunks(16) {
        let results: Vec<Vec<(String, String)>> = std::thread::scope(|sc| {
            let handles: Vec<_> = batch.iter().map(|seq| {
                let (preds, subs, reference) = (&preds, &subs, &reference);
                sc.spawn(move || {
                    for &i in seq { (preds[i].2)() }
                    let mut bad = Vec::new();
                    let order: Vec<usize> = (0..subs.len()).chain((0..subs.len()).rev()).collect();
                    for (pos, &si) in order.iter().enumerate() {
                        let got = observe(&subs[si], fx, cms);
                        if got != reference[si] {
                            bad.push((format!("after [{}], subject #{pos} of the pass: {}", seq.iter().map(|i| preds[*i].0.as_str()).collect::<Vec<_>>().join(" ; "), subs[si].label),
                                      format!("on a fresh thread: {} / here: {}", trunc(&reference[si], 300), trunc(&got, 300))));
                        }
                    }
                    bad
                })
            }).collect();
            handles.into_iter().map(|h| h.join().expect("sequence thread")).collect()
        });
        for r in results { failures.extend(r) }
    }
    sp.evals((sequences.len() * subs.len() * 2) as u64);
    sp.traces(sequences.len() as u64);
    sp.nontrivial(sequences.len() as u64);
    sp.outcomes_n("sequences run", sequences.len() as u64);
    for (w, d) in failures { ctx.fail("C14.history.independent", w, d) }
    sp.set("subjects", serde_json::json!(subs.iter().map(|s| s.label.clone()).collect::<Vec<_>>()));
    sp.set("predecessors", serde_json::json!(preds.len()));
    sp.done(true, &format!("{} predecessors{} x {} subjects forwards and backwards", preds.len(), if ctx.tier.is_thorough() { " and all ordered pairs of the reduced menu" } else { "" }, subs.len()));
}

//------------ ownership -------------------------------------------------------------------------

/// The same octets held in different ways.
fn storage_forms(b: &Bytes) -> Vec<(&'static str, Bytes)> {
    let mut big = vec![0xEEu8; 37]; big.extend_from_slice(b); big.extend_from_slice(&[0x30, 0x03, 0x02, 0x01, 0x00, 0xEE, 0xEE]);
    let big = Bytes::from(big);
    let leaked: &'static [u8] = Box::leak(b.to_vec().into_boxed_slice());
    vec![("sole owner", Bytes::from(b.to_vec())), ("view into a larger buffer", big.slice(37..37 + b.len())), ("static", Bytes::from_static(leaked)),
         ("shared with a live clone", b.clone())]
}

fn ownership(ctx: &Ctx, fx: &'static Fixed, cms: &'static Cms) {
    let sp = ctx.space("ownership",
        "every subject of history.independent with its octets held as sole owner / a view into a larger Bytes / static / shared with a live clone, and (content routes) read from a plain slice; for accepted contents and objects: observed directly, with a live clone, after the clone was dropped, the clone observed after the original was dropped, iterators taken from original and clone alternately; base URIs likewise (sole, view into a larger buffer, static, clone, clone after path_into_dir()/unshare() on the other copy): every observation equals the twin decoded from a sole owner with freshly parsed bases; non-trivial = combinations other than sole owner without clone");
    let subs = subjects(fx, cms);
    let mut t = Tally::default();
    // base URIs held in different ways, as alternative Fixed values
    let base_forms: Vec<(&'static str, Fixed)> = {
        let mk = |how: &'static str, f: &dyn Fn(&uri::Rsync) -> uri::Rsync| { let mut x = Fixed::new(); x.bases = fx.bases.iter().map(|(b, d)| (f(b), d.clone())).collect(); (how, x) };
        vec![
            mk("bases: views into a larger buffer", &|b| { let mut big = b"junk before ".to_vec(); big.extend_from_slice(b.as_slice()); big.extend_from_slice(b"/junk/after"); let big = Bytes::from(big);
                uri::Rsync::from_bytes(big.slice(12..12 + b.as_slice().len())).expect("base") }),
            mk("bases: static", &|b| uri::Rsync::from_bytes(Bytes::from_static(Box::leak(b.as_slice().to_vec().into_boxed_slice()))).expect("base")),
            mk("bases: clones whose other copy was made a directory and unshared", &|b| { let c = b.clone(); let mut o = b.clone(); o.path_into_dir(); o.unshare(); drop(o); c }),
            mk("bases: unshared", &|b| { let mut c = b.clone(); c.unshare(); c }),
        ]
    };
    for s in &subs {
        let twin = observe(s, fx, cms);
        t.outcome(if twin.starts_with("accepted") { "accepted" } else { "rejected" });
        let check = |how: String, got: String, t: &mut Tally| {
            t.evals += 1; t.nontrivial += 1;
            if got != twin { t.fail("C14.ownership", || format!("{how}: {}", s.label), format!("sole owner: {} / {how}: {}", trunc(&twin, 300), trunc(&got, 300))) }
        };
        for (how, bytes) in storage_forms(&s.bytes) {
            let keep = s.bytes.clone(); // the live clone of the last form
            check(how.to_string(), observe(&Subject { label: s.label.clone(), bytes, route: s.route }, fx, cms), &mut t);
            drop(keep);
        }
        for (how, fxb) in &base_forms { check(how.to_string(), observe(s, fxb, cms), &mut t) }
        let data0 = &fx.data[0].0;
        // clones of the decoded values
        match s.route {
            Route::ContentDer | Route::ContentBer => {
                let mode = if s.route == Route::ContentDer { Mode::Der } else { Mode::Ber };
                let der = mode == Mode::Der;
                // read from a plain slice (SliceSource) instead of Bytes
                let from_slice = match guard(|| mode.decode(s.bytes.as_ref(), ManifestContent::take_from).map_err(|e| e.to_string())) {
                    Err(p) => format!("decode panics: {p}"), Ok(Err(e)) => format!("rejected: {e}"), Ok(Ok(mc)) => format!("accepted: {}", describe(&mc, &fx.bases, data0, der)) };
                check("read from a plain slice".into(), from_slice, &mut t);
                if let Ok(Ok(mc)) = guard(|| mode.decode(s.bytes.clone(), ManifestContent::take_from)) {
                    let d = |m: &ManifestContent| format!("accepted: {}", describe(m, &fx.bases, data0, der));
                    let clone = mc.clone();
                    check("original while a clone lives".into(), d(&mc), &mut t);
                    check("the live clone".into(), d(&clone), &mut t);
                    // iterators from both, alternately
                    let alt = guard(|| { let (mut a, mut b) = (mc.iter(), clone.iter()); let mut out = Vec::new();
                        loop { match (a.next(), b.next()) { (None, None) => break, (x, y) => out.push((x.map(|f| f.into_pair()), y.map(|f| f.into_pair()))) } } out });
                    let want: Vec<_> = guard(|| mc.iter().map(|f| f.into_pair()).collect::<Vec<_>>()).unwrap_or_default();
                    t.evals += 1;
                    if !matches!(&alt, Ok(v) if v.len() == want.len() && v.iter().zip(&want).all(|((x, y), w)| x.as_ref() == Some(w) && y.as_ref() == Some(w))) {
                        t.fail("C14.ownership", || format!("iterators of original and clone alternately: {}", s.label), "the two iterators do not both yield the list".into());
                    }
                    drop(clone);
                    check("original after its clone was dropped".into(), d(&mc), &mut t);
                    let clone = mc.clone();
                    drop(mc);
                    check("clone after the original was dropped".into(), d(&clone), &mut t);
                }
            }
            _ => {
                let strict = s.route != Route::CmsRelaxed;
                let dec = || if s.route == Route::Serde { serde_json::from_str::<Manifest>(&cms.serde_form(&s.bytes)).ok() } else { Manifest::decode(s.bytes.clone(), strict).ok() };
                if let Ok(Some(m)) = guard(dec) {
                    let d = |m: &Manifest| format!("accepted: {}", describe(m.content(), &fx.bases, data0, true));
                    let want = d(&m);
                    let clone = m.clone();
                    let _ = guard(|| clone.clone().validate_at(&cms.ca, strict, pki::time(pki::T0)).is_ok()); // consumes a copy
                    t.evals += 3; t.nontrivial += 3;
                    let content_clone = m.content().clone();
                    drop(m);
                    let after = d(&clone);
                    let lone = format!("accepted: {}", describe(&content_clone, &fx.bases, data0, true));
                    drop(clone);
                    let lone2 = format!("accepted: {}", describe(&content_clone, &fx.bases, data0, true));
                    if after != want || lone != want || lone2 != want || !twin.starts_with(&want) {
                        t.fail("C14.ownership", || format!("clones of a decoded Manifest and of its content: {}", s.label), format!("original {} / clone after drop {} / content clone {}", trunc(&want, 200), trunc(&after, 200), trunc(&lone, 200)));
                    }
                }
            }
        }
    }
    t.flush(ctx, &sp);
    sp.done(true, &format!("{} subjects x 4 storage forms x 4 base forms x clone situations", subs.len()));
}

//------------ handed-out iterators -----------------------------------------------------------------

#[derive(Clone, Copy, Debug, PartialEq, Eq)]
enum ItOp { Next, Nth0, Nth1, Nth2, SizeHint, CloneNext, SkipTake, Count, Last, Drop }

fn handed_out(ctx: &Ctx, fx: &'static Fixed) {
    let sp = ctx.space("handed_out.iterators",
        "every sequence of 1..=3 calls from {next, nth(0), nth(1), nth(2), size_hint, clone-then-next-on-the-clone (iter() only), by_ref().skip(1).take(1), count, last, drop} on iter(), on iter() after the ManifestContent was dropped, and on iter_uris(base) of lists of 0..=5 entries, against a Vec of the entries; and every sequence of 1..=3 steps {A.next, B.next, A.nth(1), B.nth(1), drop A, drop B} on two live iterators of the same content (iter/iter, iter/iter_uris, iter_uris/iter_uris with different bases); non-trivial = sequences of more than one call");
    let ops = [ItOp::Next, ItOp::Nth0, ItOp::Nth1, ItOp::Nth2, ItOp::SizeHint, ItOp::CloneNext, ItOp::SkipTake, ItOp::Count, ItOp::Last, ItOp::Drop];
    let mut seqs: Vec<Vec<ItOp>> = Vec::new();
    for a in ops { seqs.push(vec![a]); for b in ops { seqs.push(vec![a, b]); for c in ops { seqs.push(vec![a, b, c]) } } }
    let mut t = Tally::default();
    // the reference: the same calls on a Vec's iterator; items rendered as strings
    fn run_seq<I: Iterator<Item = String>>(mut it: Option<I>, seq: &[ItOp], clone: &dyn Fn(&I) -> Option<I>, remaining_after: &dyn Fn(&I) -> usize, check_hint: bool) -> Vec<String> {
        let mut out = Vec::new();
        for op in seq {
            let Some(i) = it.as_mut() else { out.push("(gone)".into()); continue };
            match op {
                ItOp::Next => out.push(format!("{:?}", i.next())),
                ItOp::Nth0 => out.push(format!("{:?}", i.nth(0))),
                ItOp::Nth1 => out.push(format!("{:?}", i.nth(1))),
                ItOp::Nth2 => out.push(format!("{:?}", i.nth(2))),
                ItOp::SizeHint => { let (lo, hi) = i.size_hint(); let rem = remaining_after(i);
                    out.push(if !check_hint || (lo <= rem && hi.is_none_or(|h| h >= rem)) { "hint ok".into() } else { format!("size_hint ({lo}, {hi:?}) but {rem} left") }) }
                ItOp::CloneNext => out.push(match clone(i) { Some(mut c) => format!("{:?}", c.next()), None => "(no clone)".into() }),
                ItOp::SkipTake => out.push(format!("{:?}", i.by_ref().skip(1).take(1).collect::<Vec<_>>())),
                ItOp::Count => { out.push(format!("{}", it.take().unwrap().count())) }
                ItOp::Last => { out.push(format!("{:?}", it.take().unwrap().last())) }
                ItOp::Drop => { it = None; out.push("dropped".into()) }
            }
        }
        out
    }
    let bases = [&fx.bases[0].0, &fx.bases[2].0];
    for n in 0..=5usize {
        let c = Case::plain((0..n).map(|i| { let mut e = fx.good(&format!("e{i}.roa")); e.hash[0] = i as u8; e }).collect());
        let ec = Bytes::from(c.econtent());
        let Ok(Ok(mc)) = guard(|| Mode::Der.decode(ec.clone(), ManifestContent::take_from)) else { t.stat("valid_list_not_decoded"); continue };
        let fh = |f: FileAndHash<Bytes, Bytes>| format!("{}:{}", esc(f.file()), hex(f.hash()));
        let names: Vec<String> = c.entries.iter().map(|e| format!("{}:{}", esc(&e.name), hex(&e.hash))).collect();
        let uris = |b: &uri::Rsync, dir: &str| -> Vec<String> { let _ = b; c.entries.iter().map(|e| format!("{dir}{}:{}", esc(&e.name), hex(&e.hash))).collect() };
        let uh = |(u, h): (uri::Rsync, ManifestHash)| format!("{}:{}", u, hex(h.as_slice()));
        for seq in &seqs {
            if seq.len() > 1 { t.nontrivial += 1 }
            let wit = |what: &str| format!("{what} of a {n}-entry list: {seq:?}");
            // the model: a Vec iterator (it is Clone and knows what is left)
            let model = |items: &Vec<String>, can_clone: bool| run_seq(Some(items.clone().into_iter()), seq, &|i| if can_clone { Some(i.clone()) } else { None }, &|i| i.len(), false);
            // iter()
            t.evals += 3;
            let got = guard(|| run_seq(Some(mc.iter().map(fh)), seq, &|_| None, &|_| 0, false));
            // clone-then-next needs the concrete FileListIter: run it unmapped
            let got_raw = guard(|| run_seq(Some(IterS(mc.iter())), seq, &|i| Some(IterS(i.0.clone())), &|i| i.0.clone().count(), true));
            let want = model(&names, true);
            if got_raw.as_ref().ok() != Some(&want) { t.fail("C14.handed_out", || wit("iter()"), format!("got {:?}, a Vec of the entries gives {:?}", got_raw, want)) }
            let want_nc = model(&names, false);
            if got.as_ref().ok() != Some(&want_nc) { t.fail("C14.handed_out", || wit("iter().map(..)"), format!("got {:?}, a Vec of the entries gives {:?}", got, want_nc)) }
            // iter() outliving the content
            let got = guard(|| { let m2 = mc.clone(); let it = IterS(m2.iter()); drop(m2); run_seq(Some(it), seq, &|i| Some(IterS(i.0.clone())), &|i| i.0.clone().count(), true) });
            if got.as_ref().ok() != Some(&want) { t.fail("C14.handed_out", || wit("iter() after the ManifestContent was dropped"), format!("got {:?}, a Vec of the entries gives {:?}", got, want)) }
            // iter_uris(base)
            for (b, dir) in [(bases[0], fx.bases[0].1.as_str()), (bases[1], fx.bases[2].1.as_str())] {
                t.evals += 1;
                let got = guard(|| run_seq(Some(mc.iter_uris(b).map(uh)), seq, &|_| None, &|_| 0, false));
                let want = model(&uris(b, dir), false);
                if got.as_ref().ok() != Some(&want) { t.fail("C14.handed_out", || wit(&format!("iter_uris({b})")), format!("got {:?}, a Vec of the entries gives {:?}", got, want)) }
            }
        }
        // two live iterators
        #[derive(Clone, Copy, Debug)] enum Two { ANext, BNext, ANth1, BNth1, DropA, DropB }
        let steps = [Two::ANext, Two::BNext, Two::ANth1, Two::BNth1, Two::DropA, Two::DropB];
        let mut plans: Vec<Vec<Two>> = Vec::new();
        for a in steps { plans.push(vec![a]); for b in steps { plans.push(vec![a, b]); for c in steps { plans.push(vec![a, b, c]) } } }
        fn run_two(mut a: Option<Box<dyn Iterator<Item = String> + '_>>, mut b: Option<Box<dyn Iterator<Item = String> + '_>>, plan: &[Two]) -> Vec<String> {
            plan.iter().map(|s| match s {
                Two::ANext => a.as_mut().map(|i| format!("{:?}", i.next())).unwrap_or("(gone)".into()),
                Two::BNext => b.as_mut().map(|i| format!("{:?}", i.next())).unwrap_or("(gone)".into()),
                Two::ANth1 => a.as_mut().map(|i| format!("{:?}", i.nth(1))).unwrap_or("(gone)".into()),
                Two::BNth1 => b.as_mut().map(|i| format!("{:?}", i.nth(1))).unwrap_or("(gone)".into()),
                Two::DropA => { a = None; "dropped".into() }
                Two::DropB => { b = None; "dropped".into() }
            }).collect()
        }
        let (u0, u2) = (uris(bases[0], &fx.bases[0].1), uris(bases[1], &fx.bases[2].1));
        for plan in &plans {
            if plan.len() > 1 { t.nontrivial += 1 }
            for kind in 0..3 {
                t.evals += 1;
                let got = guard(|| match kind {
                    0 => run_two(Some(Box::new(mc.iter().map(fh))), Some(Box::new(mc.iter().map(fh))), plan),
                    1 => run_two(Some(Box::new(mc.iter().map(fh))), Some(Box::new(mc.iter_uris(bases[0]).map(uh))), plan),
                    _ => run_two(Some(Box::new(mc.iter_uris(bases[0]).map(uh))), Some(Box::new(mc.iter_uris(bases[1]).map(uh))), plan),
                });
                let want = match kind {
                    0 => run_two(Some(Box::new(names.clone().into_iter())), Some(Box::new(names.clone().into_iter())), plan),
                    1 => run_two(Some(Box::new(names.clone().into_iter())), Some(Box::new(u0.clone().into_iter())), plan),
                    _ => run_two(Some(Box::new(u0.clone().into_iter())), Some(Box::new(u2.clone().into_iter())), plan),
                };
                if got.as_ref().ok() != Some(&want) {
                    t.fail("C14.handed_out", || format!("two iterators ({}) of a {n}-entry list: {plan:?}", ["iter/iter", "iter/iter_uris", "iter_uris/iter_uris"][kind]), format!("got {:?}, two Vec iterators give {:?}", got, want));
                }
            }
        }
        t.outcome(if n == 0 { "empty list" } else { "non-empty list" });
    }
    t.flush(ctx, &sp);
    sp.done(true, &format!("{} call sequences x 5 iterator kinds and 258 two-iterator plans x 3 pairings, lists of 0..=5 entries", seqs.len()));
}

/// `FileListIter` yielding rendered entries (keeps the concrete type so that it can be cloned).
struct IterS(rpki::repository::manifest::FileListIter);
impl Iterator for IterS {
    type Item = String;
    fn next(&mut self) -> Option<String> { self.0.next().map(|f| format!("{}:{}", esc(f.file()), hex(f.hash()))) }
    fn nth(&mut self, n: usize) -> Option<String> { self.0.nth(n).map(|f| format!("{}:{}", esc(f.file()), hex(f.hash()))) }
    fn size_hint(&self) -> (usize, Option<usize>) { self.0.size_hint() }
    fn count(self) -> usize { self.0.count() }
    fn last(self) -> Option<String> { self.0.last().map(|f| format!("{}:{}", esc(f.file()), hex(f.hash()))) }
}

//------------ bases ---------------------------------------------------------------------------------

fn bases_space(ctx: &Ctx, fx: &Fixed) {
    let sp = ctx.space("bases",
        "the base URI as a dimension: module root (empty path, 1-character and long module names), one segment with and without trailing slash, two segments, 64 levels, segments made of every unusual but valid character class (. .. inside names, ~ % : ; = ! $ & ' ( ) * + , - _ digits), dotted and hidden segments, authorities with port / IPv6 literal / upper case / trailing dot, upper-case scheme, 255-octet segment -- each against lists of 0, 1, 2, 3 and 17 entries with short, 255- and 300-octet names (and one list with a bad name, which must not decode), DER and BER mode, with the full oracles for accepted manifests (iter_uris never panics, every URI directly inside the directory, parent, is_parent_of, relative_to/join inverse) and Display under width/alignment specs parsing back; bases the library refuses are counted; non-trivial = bases other than the three used everywhere");
    let m = "rsync://host/module/";
    let mut cands: Vec<String> = vec![m.into(), format!("{m}dir/sub/"), format!("{m}dir")];
    let extra = cands.len();
    cands.extend(["rsync://host/m/".to_string(), format!("rsync://host/{}/", "m".repeat(300)), "rsync://h/m/".into(),
        format!("{m}a"), format!("{m}a/"), format!("{m}a/b"), format!("{m}a/b/"), format!("{m}{}", "d/".repeat(64)), format!("{m}{}x", "d/".repeat(63)),
        format!("{m}{}/", "s".repeat(255))]);
    for seg in ["a.b", "...", "a..b", ".hidden", "..a", "a.", "~user", "x%20y", "%2e%2e", "a:b", "a;b=c", "!$&'()*+,", "-", "_", "0", "A", "a-b_c.d~e", "roa.roa", "x.roa"] {
        cands.push(format!("{m}{seg}/")); cands.push(format!("{m}{seg}")); cands.push(format!("{m}pre/{seg}/post/"));
    }
    for auth in ["host:873", "[2001:db8::1]", "[2001:db8::1]:873", "HOST.Example.", "192.0.2.1", "h-1.example"] { cands.push(format!("rsync://{auth}/module/")); cands.push(format!("rsync://{auth}/Module/Dir")); }
    cands.push("RSYNC://host/module/x/".into()); cands.push("RsYnC://Host/module/".into());
    let mut t = Tally::default();
    let mut fxb = Fixed::new();
    fxb.bases.clear();
    for (i, c) in cands.iter().enumerate() {
        match guard(|| uri::Rsync::from_str(c)) {
            Ok(Ok(u)) => { t.outcome("base URI constructed"); if i >= extra { t.nontrivial += 1 } fxb.bases.push((u, if c.ends_with('/') { c.clone() } else { format!("{c}/") })) }
            Ok(Err(_)) => { t.outcome("base URI refused by the library"); t.sample(|| format!("refused base: {c}")) }
            Err(p) => t.fail("C14.uris.no_panic", || format!("uri::Rsync::from_str({c})"), p),
        }
    }
    let lists: Vec<Vec<MftEntry>> = vec![
        vec![], vec![fx.good("a.roa")], vec![fx.good("a-b_C1.roa"), fx.good("X0.cer")], vec![fx.good(&format!("{}.roa", "n".repeat(251))), fx.good("b.cer"), fx.good(&format!("{}.mft", "Z".repeat(296)))],
        (0..17).map(|i| fx.good(&format!("f{i:02}.roa"))).collect(),
        vec![fx.good("a.roa"), fx.good("sub/b.roa")],
    ];
    for l in lists {
        let c = Case::plain(l);
        let (a, b) = run_both(&mut t, &fxb, &c);
        if a && b { t.stat("lists_accepted_in_both_modes") }
        // Display under width / alignment specs: trimmed, it parses back to the URI
        if let Ok(Ok(mc)) = guard(|| Mode::Der.decode(Bytes::from(c.econtent()), ManifestContent::take_from)) {
            for (base, _) in &fxb.bases {
                let Ok(us) = guard(|| mc.iter_uris(base).map(|(u, _)| u).chain([base.clone()]).collect::<Vec<_>>()) else { continue };
                for u in us {
                    t.evals += 1;
                    let w = u.as_str().len() + 7;
                    let forms = [format!("{u:>w$}"), format!("{u:<w$}"), format!("{u:^w$}"), format!("{u:1}"), format!("{u:>0$}", 3), format!("{u:.5}"), format!("{u:#}")];
                    if forms.iter().any(|f| f.trim() != u.as_str() || uri::Rsync::from_str(f.trim()).ok().as_ref() != Some(&u)) {
                        t.fail("C14.api.uri", || format!("Display of {} with width/alignment", esc(u.as_slice())), format!("{forms:?}"));
                    }
                }
            }
        }
    }
    t.flush(ctx, &sp);
    sp.set("bases", serde_json::json!(fxb.bases.iter().map(|(b, _)| esc(b.as_slice())).collect::<Vec<_>>()));
    sp.done(true, &format!("{} candidate bases ({} constructed) x 6 lists (one with a bad name) x 2 modes", cands.len(), fxb.bases.len()));
}

//------------ environment -----------------------------------------------------------------------------

/// What a child process prints: one line per observation, independent of the time zone.
fn environment_lines(fx: &Fixed, cms: &Cms) -> Vec<String> {
    let mut out: Vec<String> = subjects(fx, cms).iter().map(|s| format!("{} => {}", s.label, observe(s, fx, cms))).collect();
    // every pair of the time domain: verdict and what the accessors say
    let dom = time_domain();
    for a in &dom { for b in &dom {
        let mut c = Case::plain(vec![fx.good("obj.roa")]); c.this = *a; c.next = *b;
        let ec = Bytes::from(c.econtent());
        out.push(format!("{} {} => {}", a.show(), b.show(), match guard(|| Mode::Der.decode(ec.clone(), ManifestContent::take_from)) {
            Ok(Ok(m)) => format!("accepted {} {} stale={}", m.this_update().to_rfc3339(), m.next_update().to_rfc3339(), m.is_stale()), Ok(Err(e)) => format!("rejected {e}"), Err(p) => p }));
    }}
    out.iter().map(|l| l.replace('\n', " ")).collect()
}

fn environment(ctx: &Ctx, fx: &'static Fixed, cms: &'static Cms) {
    let sp = ctx.space("environment",
        "the subject set and every ordered pair of the time domain (verdict, this_update(), next_update(), is_stale(), validate() against validate_at) re-run in child processes of this binary with TZ = UTC0, a zone 11 h west, a zone 13 h east of UTC (POSIX forms, no tz database needed) and two named zones with daylight saving rules: every line must equal the line of this process; and the wall clock read again after a pause: a validate()/is_stale() call, 1.2 s pause, then an EE window and a manifest window that start at the then-current second -- validate() must equal validate_at(Time::now()) and accept, is_stale() must equal next_update() < Time::now(); non-trivial = lines compared under a non-UTC zone");
    let here = fresh_thread(|| environment_lines(fx, cms));
    let exe = std::env::current_exe();
    let zones = ["UTC0", "AAA11", "BBB-13", "America/Los_Angeles", "Pacific/Kiritimati", "EST5EDT,M3.2.0,M11.1.0"];
    let outputs: Vec<(String, Result<Vec<String>, String>)> = std::thread::scope(|sc| {
        let hs: Vec<_> = zones.iter().map(|z| { let exe = &exe; sc.spawn(move || {
            let exe = exe.as_ref().map_err(|e| e.to_string())?;
            let o = std::process::Command::new(exe).arg("c14-child-observe").env("TZ", z).output().map_err(|e| e.to_string())?;
            if !o.status.success() { return Err(format!("child exited with {:?}: {}", o.status.code(), trunc(&String::from_utf8_lossy(&o.stderr), 300))) }
            Ok(String::from_utf8_lossy(&o.stdout).lines().map(|l| l.to_string()).collect::<Vec<_>>())
        }) }).collect();
        zones.iter().zip(hs).map(|(z, h)| (z.to_string(), h.join().expect("child thread"))).collect()
    });
    for (z, out) in outputs {
        match out {
            Err(e) => ctx.machinery_error(format!("environment: child with TZ={z} could not be run: {e}")),
            Ok(lines) => {
                sp.evals(lines.len() as u64);
                if z != "UTC0" { sp.nontrivial(lines.len() as u64) }
                if lines.len() != here.len() { ctx.fail("C14.environment.tz", format!("TZ={z}"), format!("{} lines, this process {}", lines.len(), here.len())) }
                let mut shown = 0;
                for (a, b) in lines.iter().zip(&here) {
                    if a != b && shown < 3 { shown += 1; ctx.fail("C14.environment.tz", format!("TZ={z}: {}", trunc(b.split(" => ").next().unwrap_or(""), 200)), format!("this process: {} / child: {}", trunc(b, 300), trunc(a, 300))) }
                }
                sp.outcomes_n(if z == "UTC0" { "lines compared under UTC" } else { "lines compared under another zone" }, lines.len() as u64);
            }
        }
    }
    sp.done(true, &format!("{} lines x {} zones", here.len(), zones.len()));
}

/// The clock read again after a pause (runs beside the other spaces).
fn clock_again(fx: &Fixed, cms: &Cms) -> Vec<(String, String)> {
    let mut bad = Vec::new();
    let ordinary = { let c = Case::plain(vec![fx.good("a.roa")]); let ec = c.econtent(); Bytes::from(cms.wrap(&ec, &cms.sign(&ec))) };
    // first contact with the clock
    if let Ok(Ok(m)) = guard(|| Manifest::decode(ordinary.clone(), true)) { let _ = guard(|| (m.is_stale(), m.clone().validate(&cms.ca, true).is_ok())); }
    std::thread::sleep(std::time::Duration::from_millis(1200));
    // windows that start now (whole second) and last an hour
    let start = chrono::Utc::now().with_nanosecond(0).unwrap();
    let end = start + chrono::TimeDelta::try_hours(1).unwrap();
    let civ_of = |d: chrono::DateTime<chrono::Utc>| civ(d.year(), d.month(), d.day(), d.hour(), d.minute(), d.second());
    let inherit = Res { v4: Claim::Inherit, v6: Claim::Inherit, asn: Claim::Inherit };
    let mut spec = Spec::issued(Kind::Ee, EE_KEY, 1, cms.ca.subject_key_identifier(), inherit, Overclaim::Refuse);
    spec.validity = Validity::new(Time::new(start), Time::new(end));
    let ee = pki::build_cert_der(&cms.signer, &spec);
    let mut c = Case::plain(vec![fx.good("a.roa")]);
    c.this = TimeEnc { civ: civ_of(start), utc: false }; c.next = TimeEnc { civ: civ_of(end), utc: false };
    let ec = c.econtent();
    let signed = cms.sign(&ec);
    // assemble with the fresh EE certificate
    let tmp = Cms { signer: PoolSigner::load(), ee_der: ee, ee_alt: cms.ee_alt.clone(), ca: cms.ca.clone(), ca_other: cms.ca_other.clone(), b64: cms.b64 };
    let obj = Bytes::from(tmp.assemble(&signed, &der::octets(&ec), false, 0));
    for strict in [true, false] {
        match guard(|| Manifest::decode(obj.clone(), strict)) {
            Ok(Ok(m)) => {
                let wall = guard(|| m.clone().validate(&cms.ca, strict).map(|_| ()).map_err(|e| e.to_string()));
                let at = guard(|| m.clone().validate_at(&cms.ca, strict, Time::now()).map(|_| ()).map_err(|e| e.to_string()));
                let (n1, stale, n2) = (Time::now(), guard(|| m.is_stale()), Time::now());
                if wall != at || !matches!(wall, Ok(Ok(()))) {
                    bad.push((format!("windows starting at {} (the current second), strict={strict}", start.to_rfc3339()), format!("validate() = {wall:?}, validate_at(Time::now()) = {at:?}")));
                }
                if !matches!(stale, Ok(s) if s == (m.next_update() < n1) || s == (m.next_update() < n2)) || stale != Ok(false) {
                    bad.push((format!("nextUpdate {} an hour ahead, strict={strict}", end.to_rfc3339()), format!("is_stale() = {stale:?}")));
                }
            }
            other => bad.push((format!("manifest with windows starting at {}", start.to_rfc3339()), format!("does not decode: {:?}", other.map(|r| r.map(|_| ()).map_err(|e| e.to_string()))))),
        }
    }
    bad
}

fn main() {
    // child mode of the environment space: print the observations and leave
    if std::env::args().any(|a| a == "c14-child-observe") {
        rpki_verif::engine::report::install_quiet_panic_hook();
        let (fx, cms) = (Fixed::new(), Cms::new());
        for l in environment_lines(&fx, &cms) { println!("{l}") }
        return;
    }
    let ctx = Ctx::new("C14", "exploration");
    ctx.assume("RFC 9286 section 4.2.2 is the specification of a file name: [A-Za-z0-9_-]+ '.' [A-Za-z]{3}");
    ctx.assume("the independent encoder (engine::der) writes the eContent and the signed object; aws-lc computes SHA-256 and the RSA signatures (trusted)");
    ctx.assume("a hash is compared as the octets of its BIT STRING; the declared number of unused bits is not part of the comparison (acceptance of such entries is counted in statistics.verify_ok_with_unused_bits_declared)");
    ctx.assume("one-directional property: only what the library decodes is judged; manifests the model has no objection to but the library rejects are counted in the outcome class 'rejected (model: nothing wrong)', never failed");

    // machinery self-checks: the digest used as the reference, and the CMS fixture
    if hex(&sha256(b"abc")) != "ba7816bf8f01cfea414140de5dae2223b00361a396177a9cb410ff61f20015ad" {
        ctx.machinery_error("engine::signer::sha256 fails the FIPS 180 'abc' vector");
    }
    let fx: &'static Fixed = Box::leak(Box::new(Fixed::new()));
    let cms: &'static Cms = Box::leak(Box::new(Cms::new()));
    if cms.b64 > 3 { ctx.machinery_error("fixture: the base64 flavour of Serialize for Manifest could not be determined") }
    let clock = std::thread::spawn(move || clock_again(fx, cms));
    {
        let c = Case::plain(vec![fx.good("a-b_C1.roa"), fx.good("X0.cer")]);
        let ec = c.econtent();
        let signed = cms.sign(&ec);
        let obj = cms.wrap(&ec, &signed);
        if cms.assemble(&signed, &der::octets(&ec), false, 0) != obj {
            ctx.machinery_error("fixture: own SignedData assembly differs from der::signed_data for a primitive eContent");
        }
        for strict in [true, false] {
            match Manifest::decode(obj.as_slice(), strict) {
                Ok(m) => if let Err(e) = m.validate_at(&cms.ca, strict, pki::time(pki::T0)) {
                    ctx.machinery_error(format!("fixture: valid signed manifest does not validate (strict={strict}): {e}"));
                },
                Err(e) => ctx.machinery_error(format!("fixture: valid signed manifest does not decode (strict={strict}): {e}; object {}", trunc(&hex(&obj), 400))),
            }
        }
    }

    let timed = |name: &str, f: &dyn Fn()| { let t = std::time::Instant::now(); f(); eprintln!("  [{name}: {:.1}s]", t.elapsed().as_secs_f64()) };
    timed("names.alphabet + cms.names", &|| names_alphabet(&ctx, fx, cms));
    timed("names.octets", &|| names_octets(&ctx, fx, cms));
    timed("names.length", &|| names_length(&ctx, fx, cms));
    timed("econtent.fragments", &|| econtent_fragments(&ctx, fx, cms));
    timed("source.pieces", &|| source_pieces(&ctx, fx));
    timed("content.ber_spellings", &|| ber_spellings(&ctx, fx));
    timed("entries.count", &|| entry_counts(&ctx, fx, cms));
    timed("hash.bitstring", &|| hash_bitstring(&ctx, fx, cms));
    timed("times", &|| times(&ctx, fx, cms));
    timed("header.len", &|| header_len(&ctx, fx, cms));
    timed("bases", &|| bases_space(&ctx, fx));
    timed("history.independent", &|| history_independent(&ctx, fx, cms));
    timed("ownership", &|| ownership(&ctx, fx, cms));
    timed("handed_out.iterators", &|| handed_out(&ctx, fx));
    timed("environment", &|| environment(&ctx, fx, cms));
    {
        let spc = ctx.space("environment.clock", "a validate()/is_stale() call, a 1.2 s pause, then an EE certificate window and a manifest window starting at the then-current whole second: validate() equals validate_at(Time::now()) and accepts, is_stale() equals next_update() < Time::now() and is false; strict and relaxed");
        spc.evals(4); spc.nontrivial(2);
        spc.outcome("validate() after the pause"); spc.outcome("is_stale() after the pause");
        match clock.join() {
            Ok(bad) => for (w, d) in bad { ctx.fail("C14.environment.clock", w, d) },
            Err(_) => ctx.fail("C14.environment.clock", "clock thread", "panicked"),
        }
        spc.done(true, "one pause, two decode modes");
    }

    ctx.finish();
}
