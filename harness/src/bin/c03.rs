//! C03 — resource sets behave as exact, canonical sets of addresses / AS numbers.
//!
//! Three layers, each for `AsBlocks`, `IpBlocks` (as IPv4 and as IPv6) and
//! `ResourceSet`:
//!
//! 1. construction: every sequence of up to N blocks over a block alphabet
//!    whose end points come from a boundary-dense point domain (both ends of
//!    the number space) or from an aligned "prefix" domain, through every
//!    public construction path (FromIterator, builders, FromStr, serde, DER
//!    produced by the independent encoder E5);
//! 2. algebra closure: explicit-state BFS to fixpoint; a state is the
//!    internal representation (block list with Id/Range resp. Prefix/Range
//!    variants); transitions are the real set operations on every ordered
//!    pair of known states;
//! 3. queries on every state / pair.
//!
//! 4. builders and incremental constructors as objects with a history
//!    (`builder.sequences.*`): every call sequence up to a small bound on
//!    the blocks builders, the resources builders, `ResourceSet` setters,
//!    `RequestResourceLimit::with_*` and `TbsCert`'s resource setters, each
//!    against "union of what was pushed since the last replacing call".
//! 5. value patterns (`asgrid.*`, `v4grid.*`, `v6grid.*`): layers 1-3 again over
//!    domains whose points are m*2^k and m*2^k - 1 for every k the
//!    representation singles out (k = 96: IPv4-shaped values inside IPv6),
//!    placed at zero, in the middle and at the top of the number space; the
//!    domains of a family share one space per layer, oracles keep the
//!    domain's name (`C03.v6k96b.construct...`).
//! 6. the refused issuance result (`*.refusal`): which resources the errors of
//!    `verify_issued(Refuse)` and `verify_covered` name -- claim minus issuer.
//!
//! Oracle: a bitmask over the atoms the domain induces on the number space.
//! The expected representation of a mask is computed here (maximal runs of
//! atoms, prefix-expressible runs as prefixes) without calling the library.

use std::collections::{BTreeMap, BTreeSet};
use std::net::{IpAddr, Ipv4Addr, Ipv6Addr};
use std::str::FromStr;
use std::sync::Mutex;
use bcder::encode::Values;
use bcder::{encode, BitString, Mode};
use bytes::Bytes;
use rayon::prelude::*;
use rpki::ca::provisioning::RequestResourceLimit;
use rpki::repository::cert::Overclaim;
use rpki::repository::resources::{
    Addr, AddressFamily, AddressRange, AsBlock, AsBlocks, AsBlocksBuilder, AsResources, AsResourcesBuilder, Asn, IpBlock,
    IpBlocks, IpBlocksBuilder, IpResources, IpResourcesBuilder, Ipv4Block, Ipv4Blocks, Ipv6Block, Ipv6Blocks, OverclaimedIpResources, Prefix, ResourceSet,
    ResourcesChoice,
};
use rpki::repository::error::VerificationError;
use rpki::repository::roa::RoaIpAddress;
use rpki_verif::engine::der;
use rpki_verif::engine::enumerate::{par_chunks, seq_at, seq_count};
use rpki_verif::{guard, Ctx, Space};
use serde_json::json;

const ONES96: u128 = (1u128 << 96) - 1;

//------------ model ------------------------------------------------------------

#[derive(Clone, Copy, PartialEq, Eq, Debug)]
enum Kind { As, V4, V6 }

impl Kind {
    fn width(self) -> u32 { match self { Kind::V6 => 128, _ => 32 } }
    fn fam_max(self) -> u128 { match self { Kind::V6 => u128::MAX, _ => u32::MAX as u128 } }
    /// family units -> the library's 128-bit space (IPv4 lives in the upper 32 bits)
    fn lib_min(self, x: u128) -> u128 { match self { Kind::V4 => x << 96, _ => x } }
    fn lib_max(self, x: u128) -> u128 { match self { Kind::V4 => (x << 96) | ONES96, _ => x } }
    fn is_ip(self) -> bool { self != Kind::As }
}

/// One stored block, exactly as the library keeps it: variant 0 = Id / Prefix,
/// variant 1 = Range; bounds in the library's 128-bit space; `len` = prefix length.
#[derive(Clone, Copy, PartialEq, Eq, PartialOrd, Ord, Debug)]
struct Blk { var: u8, min: u128, max: u128, len: u8 }
type Repr = Vec<Blk>;

/// Prefix length of [min,max] in a `width`-bit space, if it is a prefix.
fn prefix_len(min: u128, max: u128, width: u32) -> Option<u8> {
    if min > max { return None }
    let fam_max = if width == 128 { u128::MAX } else { (1u128 << width) - 1 };
    if min == 0 && max == fam_max { return Some(0) }
    let size = max - min + 1;
    if size.is_power_of_two() && min % size == 0 { Some((width - size.trailing_zeros()) as u8) } else { None }
}

/// One letter of the block alphabet (family units).
struct ABlock {
    lo: u128, hi: u128,
    mask: u32,
    inverted: bool,
    txt_a: String,  // idiomatic text: single item / prefix where possible
    txt_b: String,  // always "lo-hi"
    der_a: Vec<u8>, // Id / Prefix item where possible
    der_b: Vec<u8>, // always a range item
}

struct Dom {
    name: String,
    kind: Kind,
    atoms: Vec<(u128, u128)>, // family units; ascending partition of the whole number space
    ends: Vec<usize>,         // atoms that may start / end an alphabet block
    blocks: Vec<ABlock>,
    canon: Vec<Repr>,         // expected representation per mask
    grid: Option<(&'static str, u32)>, // value-pattern domain: (group whose spaces it shares, k of its 2^k grid)
}

/// The spaces shared by the domains of a value-pattern group: one per layer for the whole group.
static GROUP_SPACES: Mutex<BTreeMap<String, std::sync::Arc<Space>>> = Mutex::new(BTreeMap::new());

fn v4_txt(x: u128) -> String { let x = x as u32; format!("{}.{}.{}.{}", x >> 24, (x >> 16) & 255, (x >> 8) & 255, x & 255) }

impl Dom {
    fn addr_txt(&self, x: u128) -> String {
        match self.kind { Kind::As => format!("AS{x}"), Kind::V4 => v4_txt(x), Kind::V6 => Ipv6Addr::from(x).to_string() }
    }

    fn block_txt(&self, lo: u128, hi: u128, idiomatic: bool) -> String {
        match self.kind {
            Kind::As => if idiomatic && lo == hi { format!("AS{lo}") } else if idiomatic { format!("AS{lo}-AS{hi}") } else { format!("{lo}-{hi}") },
            _ => {
                if idiomatic {
                    if lo == hi { return self.addr_txt(lo) }
                    if let Some(l) = prefix_len(lo, hi, self.kind.width()) { return format!("{}/{}", self.addr_txt(lo), l) }
                }
                format!("{}-{}", self.addr_txt(lo), self.addr_txt(hi))
            }
        }
    }

    fn der_item(&self, lo: u128, hi: u128, idiomatic: bool) -> Vec<u8> {
        match self.kind {
            Kind::As => if idiomatic && lo == hi { der::int_u(lo) } else { der::seq(&[der::int_u(lo), der::int_u(hi)]) },
            _ => {
                let w = self.kind.width();
                if idiomatic { if let Some(l) = prefix_len(lo, hi, w) { return der::ip_prefix_bits(lo, l, w as u8) } }
                der::ip_range(lo, hi, w as u8)
            }
        }
    }

    /// Atoms = the given points as singletons plus the gaps between them.
    fn from_points(name: &str, kind: Kind, pts: &[u128]) -> Dom {
        let mut p: Vec<u128> = pts.to_vec(); p.sort(); p.dedup();
        let mut atoms = Vec::new(); let mut ends = Vec::new();
        let mut next: Option<u128> = Some(0); // first value not yet covered
        for &x in &p {
            let n = next.expect("points beyond the end of the space");
            if x > n { atoms.push((n, x - 1)) }
            ends.push(atoms.len()); atoms.push((x, x));
            next = if x == kind.fam_max() { None } else { Some(x + 1) };
        }
        if let Some(n) = next { atoms.push((n, kind.fam_max())) }
        Dom::finish(name, kind, atoms, ends)
    }

    /// 2^k atoms of equal size: every atom (and many runs) is a prefix.
    fn aligned(name: &str, kind: Kind, k: u32) -> Dom {
        let shift = kind.width() - k;
        let atoms: Vec<(u128, u128)> = (0..(1u128 << k)).map(|i| (i << shift, (i << shift) | ((1u128 << shift) - 1))).collect();
        let ends = (0..atoms.len()).collect();
        Dom::finish(name, kind, atoms, ends)
    }

    fn finish(name: &str, kind: Kind, atoms: Vec<(u128, u128)>, ends: Vec<usize>) -> Dom {
        assert!(atoms.len() <= 16);
        let mut d = Dom { name: name.into(), kind, atoms, ends, blocks: Vec::new(), canon: Vec::new(), grid: None };
        let ne = d.ends.len();
        let mut pairs: Vec<(usize, usize)> = Vec::new();
        for a in 0..ne { for b in a..ne { pairs.push((a, b)) } }
        // representative inverted pairs: both ends, across everything, middle
        let mid = ne / 2;
        let mut inv: Vec<(usize, usize)> = Vec::new();
        for c in [(1, 0), (ne - 1, ne - 2), (ne - 1, 0), (mid, mid - 1), (mid + 1, 1)] {
            if c.0 < ne && c.0 > c.1 && !inv.contains(&c) { inv.push(c) }
        }
        pairs.extend(inv);
        for (a, b) in pairs {
            let (i, j) = (d.ends[a], d.ends[b]);
            let (lo, hi) = (d.atoms[i].0, d.atoms[j].1);
            let inverted = a > b;
            assert_eq!(inverted, lo > hi);
            let mask = if inverted { 0 } else { (i..=j).fold(0u32, |m, k| m | 1 << k) };
            let blk = ABlock { lo, hi, mask, inverted,
                txt_a: d.block_txt(lo, hi, true), txt_b: d.block_txt(lo, hi, false),
                der_a: d.der_item(lo, hi, true), der_b: d.der_item(lo, hi, false) };
            d.blocks.push(blk);
        }
        d.canon = (0..(1u32 << d.atoms.len())).map(|m| d.expected(m)).collect();
        d
    }

    fn natoms(&self) -> usize { self.atoms.len() }

    /// The space of one layer: the domain's own, or the one its group shares.
    fn space(&self, ctx: &Ctx, layer: &str, rule: &str) -> std::sync::Arc<Space> {
        match self.grid {
            None => ctx.space(&format!("{}.{layer}", self.name), rule),
            Some((g, _)) => GROUP_SPACES.lock().unwrap().entry(format!("{g}.{layer}"))
                .or_insert_with(|| ctx.space(&format!("{g}.{layer}"), &format!("for EACH value-pattern domain of the group {g} (listed under {g}.construct; oracle names carry the domain's own name): {rule}"))).clone(),
        }
    }
    /// Per-domain facts and the completed bound; a group's spaces get theirs once, from `finish_group`.
    fn set(&self, sp: &Space, key: &str, v: serde_json::Value) { if self.grid.is_none() { sp.set(key, v) } }
    fn done(&self, sp: &Space, exhaustive: bool, bound: &str) { if self.grid.is_none() { sp.done(exhaustive, bound) } }
    fn sample(&self, sp: &Space, f: impl FnOnce() -> String) { if self.grid.is_none() { sp.sample_str(f) } }

    /// Maximal runs of atoms in a mask, as family-unit ranges.
    fn runs(&self, mask: u32) -> Vec<(u128, u128)> {
        let mut out = Vec::new(); let mut i = 0;
        while i < self.natoms() {
            if mask & (1 << i) != 0 {
                let mut j = i; while j + 1 < self.natoms() && mask & (1 << (j + 1)) != 0 { j += 1 }
                out.push((self.atoms[i].0, self.atoms[j].1)); i = j + 1;
            } else { i += 1 }
        }
        out
    }

    fn lib_runs(&self, mask: u32) -> Vec<(u128, u128)> {
        self.runs(mask).into_iter().map(|(a, b)| (self.kind.lib_min(a), self.kind.lib_max(b))).collect()
    }

    /// The one canonical representation of a mask (the reference model).
    fn expected(&self, mask: u32) -> Repr {
        self.runs(mask).into_iter().map(|(lo, hi)| match self.kind {
            Kind::As => Blk { var: if lo == hi { 0 } else { 1 }, min: lo, max: hi, len: 0 },
            k => match prefix_len(lo, hi, k.width()) {
                Some(l) => Blk { var: 0, min: k.lib_min(lo), max: k.lib_max(hi), len: l },
                None => Blk { var: 1, min: k.lib_min(lo), max: k.lib_max(hi), len: 0 },
            },
        }).collect()
    }

    /// Atoms touched by the family-unit range [lo,hi].
    fn touched(&self, lo: u128, hi: u128) -> u32 {
        let mut m = 0;
        for (i, a) in self.atoms.iter().enumerate() { if a.0 <= hi && a.1 >= lo { m |= 1 << i } }
        m
    }

    fn size_of(&self, mask: u32) -> u128 {
        // saturating: the full v6 space does not fit; only used for AS
        self.atoms.iter().enumerate().filter(|(i, _)| mask & (1 << i) != 0)
            .fold(0u128, |s, (_, a)| s.saturating_add((a.1 - a.0).saturating_add(1)))
    }

    fn show_mask(&self, mask: u32) -> String {
        let v: Vec<String> = self.runs(mask).into_iter().map(|(a, b)| self.block_txt(a, b, false)).collect();
        format!("[{}]", v.join(", "))
    }

    fn show_repr(&self, r: &[Blk]) -> String {
        let v: Vec<String> = r.iter().map(|b| {
            let (lo, hi) = match self.kind { Kind::V4 => (b.min >> 96, b.max >> 96), _ => (b.min, b.max) };
            let odd = self.kind == Kind::V4 && (b.min & ONES96 != 0 || b.max & ONES96 != ONES96);
            let body = if self.kind == Kind::V6 || odd { format!("{:#x}-{:#x}", b.min, b.max) } else { format!("{}-{}", self.addr_txt(lo), self.addr_txt(hi)) };
            match (self.kind, b.var) {
                (Kind::As, 0) => format!("id({body})"), (_, 0) => format!("prefix/{}({body})", b.len), _ => format!("range({body})"),
            }
        }).collect();
        format!("[{}]", v.join(", "))
    }
}

//------------ real values --------------------------------------------------------

#[derive(Clone)]
enum Val { As(AsBlocks), Ip(IpBlocks) }

fn asn(x: u128) -> Asn { Asn::from_u32(x as u32) }
fn addr(x: u128) -> Addr { Addr::from_bits(x) }

fn blk_as(x: AsBlock) -> Blk {
    match x {
        AsBlock::Id(a) => Blk { var: 0, min: a.into_u32() as u128, max: a.into_u32() as u128, len: 0 },
        AsBlock::Range(r) => Blk { var: 1, min: r.min().into_u32() as u128, max: r.max().into_u32() as u128, len: 0 },
    }
}

fn blk_ip(x: IpBlock) -> Blk {
    match x {
        IpBlock::Prefix(p) => Blk { var: 0, min: p.min().to_bits(), max: p.max().to_bits(), len: p.addr_len() },
        IpBlock::Range(r) => Blk { var: 1, min: r.min().to_bits(), max: r.max().to_bits(), len: 0 },
    }
}

fn repr_of(v: &Val) -> Repr {
    match v { Val::As(b) => b.iter().map(blk_as).collect(), Val::Ip(b) => b.iter().map(blk_ip).collect() }
}

/// Literal identity of the stored representation with an expected one (no allocation).
fn same(v: &Val, e: &[Blk]) -> bool {
    match v {
        Val::As(b) => {
            let mut it = b.iter(); let mut k = 0;
            loop { match (it.next(), e.get(k)) {
                (None, None) => return true,
                (Some(x), Some(w)) => {
                    let ok = match x {
                        AsBlock::Id(a) => w.var == 0 && a.into_u32() as u128 == w.min,
                        AsBlock::Range(r) => w.var == 1 && r.min().into_u32() as u128 == w.min && r.max().into_u32() as u128 == w.max,
                    };
                    if !ok { return false }
                    k += 1;
                }
                _ => return false,
            } }
        }
        Val::Ip(b) => {
            let mut it = b.iter(); let mut k = 0;
            loop { match (it.next(), e.get(k)) {
                (None, None) => return true,
                (Some(x), Some(w)) => {
                    let ok = match x {
                        IpBlock::Prefix(p) => w.var == 0 && p.addr_len() == w.len && p.min().to_bits() == w.min && p.max().to_bits() == w.max,
                        IpBlock::Range(r) => w.var == 1 && r.min().to_bits() == w.min && r.max().to_bits() == w.max,
                    };
                    if !ok { return false }
                    k += 1;
                }
                _ => return false,
            } }
        }
    }
}

/// The property's canonical-form clauses, checked structurally on a stored representation.
fn structural(kind: Kind, r: &[Blk]) -> Result<(), String> {
    for (i, b) in r.iter().enumerate() {
        if b.min > b.max { return Err(format!("block {i}: lower bound above upper bound")) }
        if kind.is_ip() {
            if b.var == 1 && prefix_len(b.min, b.max, 128).is_some() {
                return Err(format!("block {i}: a range that is a prefix is stored as a range"))
            }
            if b.var == 0 && prefix_len(b.min, b.max, 128) != Some(b.len) {
                return Err(format!("block {i}: prefix length {} does not match its bounds", b.len))
            }
        }
        if i > 0 {
            let p = &r[i - 1];
            if b.min < p.min { return Err(format!("blocks {} and {i}: not ascending", i - 1)) }
            if b.min <= p.max { return Err(format!("blocks {} and {i}: overlapping", i - 1)) }
            if p.max.checked_add(1) == Some(b.min) { return Err(format!("blocks {} and {i}: adjacent", i - 1)) }
        }
    }
    Ok(())
}

/// The mathematical set a (possibly malformed) representation denotes, as merged ranges.
fn denoted(r: &[Blk]) -> Vec<(u128, u128)> {
    let mut v: Vec<(u128, u128)> = r.iter().filter(|b| b.min <= b.max).map(|b| (b.min, b.max)).collect();
    v.sort();
    let mut out: Vec<(u128, u128)> = Vec::new();
    for (a, b) in v {
        if let Some(l) = out.last_mut() {
            if a <= l.1 || l.1.checked_add(1) == Some(a) { if b > l.1 { l.1 = b } continue }
        }
        out.push((a, b));
    }
    out
}

/// Compares a stored representation with the model; returns the violated laws.
fn analyze(dom: &Dom, r: &[Blk], want: u32) -> Vec<(&'static str, String)> {
    let mut out = Vec::new();
    if denoted(r) != dom.lib_runs(want) {
        out.push(("set", format!("stored {} denotes a different set than the expected {}", dom.show_repr(r), dom.show_mask(want))));
    }
    if let Err(e) = structural(dom.kind, r) {
        out.push(("canonical", format!("stored {} is not canonical: {e}", dom.show_repr(r))));
    }
    if out.is_empty() && r != dom.canon[want as usize].as_slice() {
        out.push(("one_state_per_set", format!("stored {} and {} are two representations of one set", dom.show_repr(r), dom.show_repr(&dom.canon[want as usize]))));
    }
    out
}

//------------ construction paths ----------------------------------------------------

const AS_PATHS: &[&str] = &["from_iter", "builder", "text", "text_ranges", "serde", "der_ext", "der_inner", "der_ext_ber", "der_inner_ber"];
const IP_PATHS: &[&str] = &["from_iter", "builder", "text_auto", "text_ranges", "serde", "der_ext", "der_family", "der_nofamily", "typed_from_iter",
    "der_ext_ber", "der_family_ber", "der_nofamily_ber"];

#[derive(Clone, Copy, PartialEq, Eq)]
enum Class { Api, Text, Der }

fn path_class(kind: Kind, p: usize) -> Class { if p < 2 { Class::Api } else if p < 5 || (kind.is_ip() && p == 8) { Class::Text } else { Class::Der } }

fn join_txt(seq: &[&ABlock], idiomatic: bool) -> String {
    let v: Vec<&str> = seq.iter().map(|b| if idiomatic { b.txt_a.as_str() } else { b.txt_b.as_str() }).collect();
    v.join(", ")
}

fn items_der(seq: &[&ABlock], idiomatic: bool) -> Vec<u8> {
    let v: Vec<Vec<u8>> = seq.iter().map(|b| if idiomatic { b.der_a.clone() } else { b.der_b.clone() }).collect();
    der::seq(&v)
}

fn build(dom: &Dom, path: usize, seq: &[&ABlock]) -> Result<Val, String> {
    let k = dom.kind;
    match k {
        Kind::As => Ok(Val::As(match path {
            0 => seq.iter().map(|b| AsBlock::from((asn(b.lo), asn(b.hi)))).collect::<AsBlocks>(),
            1 => {
                // AsResourcesBuilder wraps AsBlocksBuilder; every other sequence uses the inner builder directly
                let fill = |bld: &mut AsBlocksBuilder| for b in seq { if b.lo == b.hi { bld.push(asn(b.lo)) } else { bld.push((asn(b.lo), asn(b.hi))) } };
                if seq.len() % 2 == 0 { let mut bld = AsBlocksBuilder::new(); fill(&mut bld); bld.finalize() }
                else { let mut r = AsResourcesBuilder::new(); r.blocks(fill); r.finalize().to_blocks().map_err(|e| e.to_string())? }
            }
            2 => AsBlocks::from_str(&join_txt(seq, true)).map_err(|e| e.to_string())?,
            3 => AsBlocks::from_str(&join_txt(seq, false)).map_err(|e| e.to_string())?,
            4 => serde_json::from_str::<AsBlocks>(&serde_json::to_string(&join_txt(seq, true)).unwrap()).map_err(|e| e.to_string())?,
            // the same octets through the DER and the BER decoding mode (valid DER is valid BER)
            5 | 7 => {
                let items: Vec<der::AsItem> = seq.iter().map(|b| if b.lo == b.hi { der::AsItem::Id(b.lo) } else { der::AsItem::Range(b.lo, b.hi) }).collect();
                let ext = der::as_identifiers(Some(&items));
                let res = (if path == 5 { Mode::Der } else { Mode::Ber }).decode(ext.as_slice(), |cons| AsResources::take_from(cons)).map_err(|e| e.to_string())?;
                res.to_blocks().map_err(|e| e.to_string())?
            }
            6 | 8 => (if path == 6 { Mode::Der } else { Mode::Ber }).decode(items_der(seq, false).as_slice(), |cons| AsBlocks::take_from(cons)).map_err(|e| e.to_string())?,
            _ => unreachable!(),
        })),
        _ => {
            let fam = if k == Kind::V4 { AddressFamily::Ipv4 } else { AddressFamily::Ipv6 };
            Ok(Val::Ip(match path {
                0 => seq.iter().map(|b| IpBlock::from(AddressRange::new(addr(k.lib_min(b.lo)), addr(k.lib_max(b.hi))))).collect::<IpBlocks>(),
                1 => {
                    let fill = |bld: &mut IpBlocksBuilder| for b in seq {
                        match prefix_len(b.lo, b.hi, k.width()) {
                            Some(l) => bld.push(Prefix::new(addr(k.lib_min(b.lo)), l)),
                            None => bld.push((addr(k.lib_min(b.lo)), addr(k.lib_max(b.hi)))),
                        }
                    };
                    if seq.len() % 2 == 0 { let mut bld = IpBlocksBuilder::new(); fill(&mut bld); bld.finalize() }
                    else { let mut r = IpResourcesBuilder::new(); r.blocks(fill); r.finalize().to_blocks().map_err(|e| e.to_string())? }
                }
                2 => IpBlocks::from_str(&join_txt(seq, true)).map_err(|e| e.to_string())?,
                3 => if k == Kind::V4 { (*Ipv4Blocks::from_str(&join_txt(seq, false)).map_err(|e| e.to_string())?).clone() }
                     else { (*Ipv6Blocks::from_str(&join_txt(seq, false)).map_err(|e| e.to_string())?).clone() },
                4 => {
                    let js = serde_json::to_string(&join_txt(seq, true)).unwrap();
                    if k == Kind::V4 { (*serde_json::from_str::<Ipv4Blocks>(&js).map_err(|e| e.to_string())?).clone() }
                    else { (*serde_json::from_str::<Ipv6Blocks>(&js).map_err(|e| e.to_string())?).clone() }
                }
                5 | 9 => {
                    let items: Vec<der::IpItem> = seq.iter().map(|b| match prefix_len(b.lo, b.hi, k.width()) {
                        Some(l) => der::IpItem::Prefix(b.lo, l), None => der::IpItem::Range(b.lo, b.hi) }).collect();
                    let ext = der::ip_addr_blocks(if k == Kind::V4 { [0, 1] } else { [0, 2] }, k.width() as u8, Some(&items));
                    let (v4, v6) = (if path == 5 { Mode::Der } else { Mode::Ber }).decode(ext.as_slice(), |cons| IpResources::take_families_from(cons)).map_err(|e| e.to_string())?;
                    let (mine, other) = if k == Kind::V4 { (v4, v6) } else { (v6, v4) };
                    if other.is_some() { return Err("decoder reported the other address family".into()) }
                    mine.ok_or("family missing after decoding")?.to_blocks().map_err(|e| e.to_string())?
                }
                6 | 10 => (if path == 6 { Mode::Der } else { Mode::Ber }).decode(items_der(seq, false).as_slice(), |cons| IpBlocks::take_from_with_family(cons, fam)).map_err(|e| e.to_string())?,
                7 | 11 => (if path == 7 { Mode::Der } else { Mode::Ber }).decode(items_der(seq, true).as_slice(), |cons| IpBlocks::take_from(cons)).map_err(|e| e.to_string())?,
                8 => {
                    // FromIterator of the family-typed blocks (which only exist as parsed text)
                    if k == Kind::V4 {
                        let v: Result<Vec<Ipv4Block>, _> = seq.iter().map(|b| Ipv4Block::from_str(&b.txt_a)).collect();
                        (*v.map_err(|e| e.to_string())?.into_iter().collect::<Ipv4Blocks>()).clone()
                    } else {
                        let v: Result<Vec<Ipv6Block>, _> = seq.iter().map(|b| Ipv6Block::from_str(&b.txt_b)).collect();
                        (*v.map_err(|e| e.to_string())?.into_iter().collect::<Ipv6Blocks>()).clone()
                    }
                }
                _ => unreachable!(),
            }))
        }
    }
}

//------------ layer 1: construction ---------------------------------------------------

fn seq_witness(seq: &[&ABlock], path: &str) -> String {
    format!("blocks=[{}] path={path}", join_txt(seq, false))
}

/// Runs every sequence of up to `max_len` alphabet blocks through every path.
/// Returns the canonical values reached, keyed by mask (seeds of the closure).
fn construct(ctx: &Ctx, dom: &Dom, max_len: u32) -> BTreeMap<u32, Val> {
    let paths: &[&str] = if dom.kind == Kind::As { AS_PATHS } else { IP_PATHS };
    let k = dom.blocks.len() as u64;
    let sp = dom.space(ctx, "construct",
        "every sequence of <= N alphabet blocks (all pairs min<=max of the domain's end points + representative inverted pairs) x every public construction path; non-trivial = sequences that are not already the canonical block list of their set (unsorted, overlapping, adjacent, duplicate, bridging or containing an inverted block)");
    let total = seq_count(k, max_len);
    let seeds: Mutex<BTreeMap<u32, Val>> = Mutex::new(BTreeMap::new());
    let api_inverted_noncanonical = std::sync::atomic::AtomicU64::new(0);
    let pfx = format!("C03.{}.construct", dom.name);
    par_chunks(total, 2048, |lo, hi| {
        let mut oc: BTreeMap<&'static str, u64> = BTreeMap::new();
        let mut local: BTreeMap<u32, Val> = BTreeMap::new();
        let (mut evals, mut nontriv, mut inv_nc) = (0u64, 0u64, 0u64);
        let mut idx: Vec<usize> = Vec::new();
        for n in lo..hi {
            seq_at(k, max_len, n, &mut idx);
            let seq: Vec<&ABlock> = idx.iter().map(|&i| &dom.blocks[i]).collect();
            let proper = seq.iter().all(|b| !b.inverted);
            let mask = seq.iter().fold(0u32, |m, b| m | b.mask);
            let want = &dom.canon[mask as usize];
            let as_given = proper && {
                let runs = dom.runs(mask);
                runs.len() == seq.len() && runs.iter().zip(seq.iter()).all(|(r, b)| r.0 == b.lo && r.1 == b.hi)
            };
            if !as_given { nontriv += 1 }
            for (p, pname) in paths.iter().enumerate() {
                evals += 1;
                let class = path_class(dom.kind, p);
                let res = guard(|| build(dom, p, &seq));
                match res {
                    Err(panic) => {
                        if class == Class::Api && !proper { *oc.entry("api-inverted-block:observed-only").or_insert(0) += 1; }
                        else { ctx.fail(&format!("{pfx}.{pname}.panic"), seq_witness(&seq, pname), panic); }
                    }
                    Ok(Err(e)) => {
                        if !proper { *oc.entry("inverted-block-rejected").or_insert(0) += 1; }
                        else if seq.is_empty() && class == Class::Der { *oc.entry("empty-list-rejected").or_insert(0) += 1; }
                        else { ctx.fail(&format!("{pfx}.{pname}.accept"), seq_witness(&seq, pname), format!("well-formed blocks rejected: {e}")); }
                    }
                    Ok(Ok(v)) => {
                        if !proper {
                            if class == Class::Api {
                                // min > max handed to an API constructor: outside the property's quantifier
                                *oc.entry("api-inverted-block:observed-only").or_insert(0) += 1;
                                if structural(dom.kind, &repr_of(&v)).is_err() { inv_nc += 1 }
                            } else {
                                *oc.entry("inverted-block-accepted").or_insert(0) += 1;
                                ctx.fail(&format!("{pfx}.{pname}.reject_inverted"), seq_witness(&seq, pname),
                                    format!("a block with min > max was accepted; stored {}", dom.show_repr(&repr_of(&v))));
                            }
                        } else if same(&v, want) {
                            *oc.entry(if as_given { "accepted-as-given" } else { "accepted-canonicalised" }).or_insert(0) += 1;
                            local.entry(mask).or_insert(v);
                        } else {
                            *oc.entry("accepted-wrong").or_insert(0) += 1;
                            for (law, d) in analyze(dom, &repr_of(&v), mask) {
                                ctx.fail(&format!("{pfx}.{pname}.{law}"), seq_witness(&seq, pname), d);
                            }
                        }
                    }
                }
            }
        }
        sp.evals(evals); sp.nontrivial(nontriv); sp.merge_outcomes(&oc);
        api_inverted_noncanonical.fetch_add(inv_nc, std::sync::atomic::Ordering::Relaxed);
        let mut g = seeds.lock().unwrap();
        for (m, v) in local { g.entry(m).or_insert(v); }
    });
    let seeds = seeds.into_inner().unwrap();
    dom.set(&sp, "alphabet_blocks", json!(dom.blocks.len()));
    dom.set(&sp, "atoms", json!(dom.natoms()));
    dom.set(&sp, "paths", json!(paths));
    dom.set(&sp, "sequences", json!(total));
    dom.set(&sp, "distinct_canonical_values_reached", json!(seeds.len()));
    dom.set(&sp, "api_sequences_with_inverted_block_stored_noncanonically", json!(api_inverted_noncanonical.load(std::sync::atomic::Ordering::Relaxed)));
    dom.sample(&sp, || {
        let b: Vec<&str> = dom.blocks.iter().step_by(7).take(6).map(|b| b.txt_a.as_str()).collect();
        format!("{}: atoms {:?}; some alphabet blocks: {}", dom.name, dom.atoms.iter().map(|a| format!("{:#x}..{:#x}", a.0, a.1)).collect::<Vec<_>>(), b.join(" | "))
    });
    dom.done(&sp, true, &format!("all {} sequences of <= {} blocks over {} blocks x {} paths", total, max_len, dom.blocks.len(), paths.len()));
    seeds
}

//------------ layer 2: algebra closure ---------------------------------------------------

const OPS: &[&str] = &["union", "intersection", "difference", "intersection_assign", "verify_issued_refuse", "verify_issued_trim", "limit_apply_to",
    "intersection_assign_sole_owner", "intersection_assign_clone_dropped"];

/// A value with the same blocks in an allocation nobody else holds.
fn rebuild(v: &Val) -> Val { match v { Val::As(b) => Val::As(b.iter().collect()), Val::Ip(b) => Val::Ip(b.iter().collect()) } }

/// Every observer of a value -- not only iteration and == -- must agree with the model's set `want`.
/// `cheap` = the O(1) ones: is_empty, AsResources/IpResources::blocks (missing iff empty),
/// verify_covered by a missing issuer, ResourceSet::is_empty / *_opt, from_resources; the full set adds
/// Display, the block count and asn_count.
fn observers(dom: &Dom, v: &Val, want: u32, full: bool) -> Result<(), String> {
    observe(dom.kind, v, want == 0, if full { Some((dom, want)) } else { None })
}

fn observe(kind: Kind, v: &Val, empty: bool, full: Option<(&Dom, u32)>) -> Result<(), String> {
    match v {
        Val::As(b) => {
            if b.is_empty() != empty { return Err(format!("is_empty() is {}", b.is_empty())) }
            let r = AsResources::blocks(b.clone());
            if r.is_present() == empty || r.is_inherited() { return Err(format!("AsResources::blocks(..).is_present() is {}", r.is_present())) }
            if b.verify_covered(&AsResources::missing()).is_ok() != empty { return Err(format!("verify_covered by a missing issuer is {}", if empty { "refused" } else { "accepted" })) }
            let rs = ResourceSet::new(b.clone(), Ipv4Blocks::empty(), Ipv6Blocks::empty());
            if rs.is_empty() != empty || rs.asn_opt().is_some() == empty || rs.to_as_resources().is_present() == empty { return Err(format!("ResourceSet: is_empty() {} asn_opt().is_some() {}", rs.is_empty(), rs.asn_opt().is_some())) }
            match AsBlocks::from_resources(r) { Ok(x) if x.is_empty() == empty && &x == b => {} _ => return Err("from_resources(blocks(..)) differs".into()) }
            if (b == &AsBlocks::empty()) != empty { return Err("== empty() disagrees".into()) }
            if let Some((dom, want)) = full {
                let want_txt = dom.runs(want).into_iter().map(|(x, y)| dom.block_txt(x, y, true)).collect::<Vec<_>>().join(", ");
                if b.to_string() != want_txt { return Err(format!("prints as {:?}, the set is {want_txt:?}", b.to_string())) }
                if b.iter().count() != dom.canon[want as usize].len() { return Err(format!("iter() yields {} blocks", b.iter().count())) }
                let size = dom.size_of(want);
                if size <= u32::MAX as u128 && b.asn_count() as u128 != size { return Err(format!("asn_count() is {}, the set has {size} members", b.asn_count())) }
            }
        }
        Val::Ip(b) => {
            if b.is_empty() != empty { return Err(format!("is_empty() is {}", b.is_empty())) }
            let r = IpResources::blocks(b.clone());
            if r.is_present() == empty || r.is_inherited() { return Err(format!("IpResources::blocks(..).is_present() is {}", r.is_present())) }
            if b.verify_covered(&IpResources::missing()).is_ok() != empty { return Err(format!("verify_covered by a missing issuer is {}", if empty { "refused" } else { "accepted" })) }
            let v4 = kind == Kind::V4;
            let rs = if v4 { ResourceSet::new(AsBlocks::empty(), b.clone().into(), Ipv6Blocks::empty()) } else { ResourceSet::new(AsBlocks::empty(), Ipv4Blocks::empty(), b.clone().into()) };
            let (opt, res) = if v4 { (rs.ipv4_opt().is_some(), rs.to_ip_resources_v4()) } else { (rs.ipv6_opt().is_some(), rs.to_ip_resources_v6()) };
            if rs.is_empty() != empty || opt == empty || res.is_present() == empty { return Err(format!("ResourceSet: is_empty() {} ipvN_opt().is_some() {opt}", rs.is_empty())) }
            match IpBlocks::from_resources(r) { Ok(x) if x.is_empty() == empty && &x == b => {} _ => return Err("from_resources(blocks(..)) differs".into()) }
            if (b == &IpBlocks::empty()) != empty { return Err("== empty() disagrees".into()) }
            if let Some((dom, want)) = full {
                let want_txt = dom.runs(want).into_iter().map(|(x, y)| dom.block_txt(x, y, true)).collect::<Vec<_>>().join(", ");
                let got = if v4 { Ipv4Blocks::from(b.clone()).to_string() } else { Ipv6Blocks::from(b.clone()).to_string() };
                let got2 = if v4 { b.as_v4().to_string() } else { b.as_v6().to_string() };
                if got != want_txt || got2 != want_txt { return Err(format!("prints as {got:?} / {got2:?}, the set is {want_txt:?}")) }
                if b.iter().count() != dom.canon[want as usize].len() { return Err(format!("iter() yields {} blocks", b.iter().count())) }
            }
        }
    }
    Ok(())
}

fn apply_op(kind: Kind, op: usize, a: &Val, b: &Val) -> Option<Val> {
    match (a, b) {
        (Val::As(a), Val::As(b)) => match op {
            0 => Some(Val::As(a.union(b))),
            1 => Some(Val::As(a.intersection(b))),
            2 => Some(Val::As(a.difference(b))),
            3 => { let mut c = a.clone(); c.intersection_assign(b); Some(Val::As(c)) } // `a` stays alive: the chain is shared
            7 => { let mut c: AsBlocks = a.iter().collect(); c.intersection_assign(b); Some(Val::As(c)) }
            8 => { let mut c: AsBlocks = a.iter().collect(); let d = c.clone(); drop(d); c.intersection_assign(b); Some(Val::As(c)) }
            4 => a.verify_issued(&AsResources::blocks(b.clone()), Overclaim::Refuse).ok().map(Val::As),
            5 => a.verify_issued(&AsResources::blocks(b.clone()), Overclaim::Trim).ok().map(Val::As),
            6 => {
                let mut l = RequestResourceLimit::new(); l.with_asn(b.clone());
                let set = ResourceSet::new(a.clone(), Ipv4Blocks::empty(), Ipv6Blocks::empty());
                l.apply_to(&set).ok().map(|r| { assert!(r.ipv4().is_empty() && r.ipv6().is_empty(), "limit invented IP resources"); Val::As(r.asn().clone()) })
            }
            _ => unreachable!(),
        },
        (Val::Ip(a), Val::Ip(b)) => match op {
            0 => Some(Val::Ip(a.union(b))),
            1 => Some(Val::Ip(a.intersection(b))),
            2 => Some(Val::Ip(a.difference(b))),
            3 => { let mut c = a.clone(); c.intersection_assign(b); Some(Val::Ip(c)) }
            7 => { let mut c: IpBlocks = a.iter().collect(); c.intersection_assign(b); Some(Val::Ip(c)) }
            8 => { let mut c: IpBlocks = a.iter().collect(); let d = c.clone(); drop(d); c.intersection_assign(b); Some(Val::Ip(c)) }
            4 => a.verify_issued(&IpResources::blocks(b.clone()), Overclaim::Refuse).ok().map(Val::Ip),
            5 => a.verify_issued(&IpResources::blocks(b.clone()), Overclaim::Trim).ok().map(Val::Ip),
            6 => {
                let mut l = RequestResourceLimit::new();
                if kind == Kind::V4 {
                    l.with_ipv4(b.clone().into());
                    let set = ResourceSet::new(AsBlocks::empty(), a.clone().into(), Ipv6Blocks::empty());
                    l.apply_to(&set).ok().map(|r| { assert!(r.asn().is_empty() && r.ipv6().is_empty(), "limit invented resources"); Val::Ip((**r.ipv4()).clone()) })
                } else {
                    l.with_ipv6(b.clone().into());
                    let set = ResourceSet::new(AsBlocks::empty(), Ipv4Blocks::empty(), a.clone().into());
                    l.apply_to(&set).ok().map(|r| { assert!(r.asn().is_empty() && r.ipv4().is_empty(), "limit invented resources"); Val::Ip((**r.ipv6()).clone()) })
                }
            }
            _ => unreachable!(),
        },
        _ => unreachable!(),
    }
}

fn model_op(op: usize, ma: u32, mb: u32) -> Option<u32> {
    match op {
        0 => Some(ma | mb),
        1 | 3 | 5 | 7 | 8 => Some(ma & mb),
        2 => Some(ma & !mb),
        4 | 6 => if mb & !ma == 0 { Some(mb) } else { None },
        _ => unreachable!(),
    }
}

fn val_eq(a: &Val, b: &Val) -> bool { match (a, b) { (Val::As(a), Val::As(b)) => a == b, (Val::Ip(a), Val::Ip(b)) => a == b, _ => false } }
fn val_contains(a: &Val, b: &Val) -> bool { match (a, b) { (Val::As(a), Val::As(b)) => a.contains(b), (Val::Ip(a), Val::Ip(b)) => a.contains(b), _ => false } }

struct ClosureResult { have: Vec<Option<Val>>, }

/// Explicit-state BFS over the real operations; states are stored representations.
fn closure(ctx: &Ctx, dom: &Dom, seeds: BTreeMap<u32, Val>) -> ClosureResult {
    let sp = dom.space(ctx, "closure",
        "explicit-state BFS to fixpoint: states = stored block lists (with Id/Range resp. Prefix/Range variants) starting from every canonical value the construction layer produced; transitions = union, intersection, difference, intersection_assign, verify_issued(refuse), verify_issued(trim), RequestResourceLimit::apply_to on every ordered pair of states, plus == and contains on the pair; every result compared literally with the model's representation of the expected subset of atoms; non-trivial = ordered pairs of distinct non-empty sets that overlap partially");
    let nm = 1usize << dom.natoms();
    let mut have: Vec<Option<Val>> = vec![None; nm];
    let mut order: Vec<u32> = Vec::new();
    for (m, v) in seeds { have[m as usize] = Some(v); order.push(m) }
    let seed_states = order.len();
    let bad: Mutex<BTreeSet<Repr>> = Mutex::new(BTreeSet::new());
    let pfx = format!("C03.{}.closure", dom.name);
    let mut done_upto = 0usize; let mut rounds = 0u32;
    let wit = |op: &str, ma: u32, mb: u32| format!("op={op} a={} b={}", dom.show_mask(ma), dom.show_mask(mb));
    while done_upto < order.len() {
        let cur = order.len();
        let new: Mutex<BTreeMap<u32, Val>> = Mutex::new(BTreeMap::new());
        (0..cur).into_par_iter().for_each(|i| {
            let mut oc: BTreeMap<&'static str, u64> = BTreeMap::new();
            let mut local_new: BTreeMap<u32, Val> = BTreeMap::new();
            let (mut trans, mut pairs, mut nontriv) = (0u64, 0u64, 0u64);
            let ma = order[i]; let a = have[ma as usize].as_ref().unwrap();
            let j0 = if i >= done_upto { 0 } else { done_upto };
            for j in j0..cur {
                let mb = order[j]; let b = have[mb as usize].as_ref().unwrap();
                pairs += 1;
                let rel = if ma == mb { "pair:equal" } else if ma & mb == 0 { "pair:disjoint" } else if ma & !mb == 0 || mb & !ma == 0 { "pair:nested" } else { nontriv += 1; "pair:partial-overlap" };
                *oc.entry(rel).or_insert(0) += 1;
                for (op, opname) in OPS.iter().enumerate() {
                    trans += 1;
                    let want = model_op(op, ma, mb);
                    match guard(|| apply_op(dom.kind, op, a, b)) {
                        Err(p) => ctx.fail(&format!("{pfx}.{opname}.panic"), wit(opname, ma, mb), p),
                        Ok(got) => match (got, want) {
                            (None, None) => { *oc.entry("refused").or_insert(0) += 1; }
                            (Some(v), Some(w)) => {
                                if same(&v, &dom.canon[w as usize]) {
                                    // every observer, not only the block list: the cheap ones always, all of them for the in-place operations and for empty results
                                    match guard(|| observers(dom, &v, w, op == 3 || op >= 7 || w == 0)) { Ok(Ok(())) => {} Ok(Err(d)) | Err(d) => ctx.fail(&format!("{pfx}.{opname}.observers"), wit(opname, ma, mb), d) }
                                    if have[w as usize].is_none() {
                                        *oc.entry("new-state").or_insert(0) += 1;
                                        local_new.entry(w).or_insert(v);
                                    } else { *oc.entry("known-state").or_insert(0) += 1; }
                                } else {
                                    let r = repr_of(&v);
                                    for (law, d) in analyze(dom, &r, w) { ctx.fail(&format!("{pfx}.{opname}.{law}"), wit(opname, ma, mb), d); }
                                    bad.lock().unwrap().insert(r);
                                }
                            }
                            (Some(v), None) => ctx.fail(&format!("{pfx}.{opname}.refuse"), wit(opname, ma, mb), format!("b is not contained in a, yet the operation returned {}", dom.show_repr(&repr_of(&v)))),
                            (None, Some(_)) => ctx.fail(&format!("{pfx}.{opname}.accept"), wit(opname, ma, mb), "b is contained in a, yet the operation refused".to_string()),
                        },
                    }
                }
                // the operands themselves (whose clones were just mutated in place) are unchanged
                if !same(a, &dom.canon[ma as usize]) || !same(b, &dom.canon[mb as usize]) { ctx.fail(&format!("{pfx}.operand_unchanged"), wit("all", ma, mb), "an operand changed while operations ran on its clone".to_string()) }
                // pair queries
                match guard(|| (val_eq(a, b), val_contains(a, b))) {
                    Err(p) => ctx.fail(&format!("{pfx}.pair_query.panic"), wit("eq/contains", ma, mb), p),
                    Ok((e, c)) => {
                        if e != (ma == mb) { ctx.fail(&format!("{pfx}.eq"), wit("==", ma, mb), format!("== returned {e}")) }
                        if c != (mb & !ma == 0) { ctx.fail(&format!("{pfx}.contains"), wit("contains", ma, mb), format!("a.contains(b) returned {c}")) }
                    }
                }
            }
            sp.transitions(trans); sp.traces(trans); sp.evals(trans + 2 * pairs); sp.nontrivial(nontriv); sp.merge_outcomes(&oc);
            if !local_new.is_empty() { let mut g = new.lock().unwrap(); for (m, v) in local_new { g.entry(m).or_insert(v); } }
        });
        done_upto = cur; rounds += 1;
        for (m, v) in new.into_inner().unwrap() { if have[m as usize].is_none() { have[m as usize] = Some(v); order.push(m) } }
    }
    let bad = bad.into_inner().unwrap();
    let nstates = order.len() + bad.len();
    sp.states(nstates as u64);
    // one state per subset: every extra (non-canonical) state is a finding of its own
    for r in bad.iter().take(3) {
        ctx.fail(&format!("{pfx}.extra_state"), format!("state={}", dom.show_repr(r)), "a reachable stored representation that is not the canonical form of any subset of atoms".to_string());
    }
    // subsets of the atoms some alphabet block covers (outer gaps of a domain without 0 / MAX are unreachable)
    let universe = dom.blocks.iter().fold(0u32, |m, b| m | b.mask);
    let reachable = 1usize << universe.count_ones();
    let all = order.len() == reachable;
    dom.set(&sp, "seed_states", json!(seed_states));
    dom.set(&sp, "canonical_states", json!(order.len()));
    dom.set(&sp, "noncanonical_states", json!(bad.len()));
    dom.set(&sp, "subsets_of_atoms", json!(nm));
    dom.set(&sp, "subsets_of_coverable_atoms", json!(reachable));
    dom.set(&sp, "bfs_rounds", json!(rounds));
    dom.set(&sp, "fixpoint_reached", json!(true));
    dom.set(&sp, "operations", json!(OPS));
    dom.sample(&sp, || format!("{}: {} seed states -> {} states after {} rounds ({} subsets of coverable atoms)", dom.name, seed_states, order.len(), rounds, reachable));
    if !all && bad.is_empty() && ctx.violations_so_far() == 0 {
        ctx.machinery_error(format!("{}: closure reached only {} of {} subsets", dom.name, order.len(), reachable));
    }
    dom.done(&sp, true, &format!("fixpoint after {} rounds: {} states, all ordered pairs x {} operations", rounds, nstates, OPS.len()));
    ClosureResult { have }
}

//------------ layer 3: queries ----------------------------------------------------------------

/// Family-unit probe values: both ends and the middle of every atom.
fn probe_points(dom: &Dom) -> Vec<u128> {
    let mut v = Vec::new();
    for a in &dom.atoms { v.push(a.0); v.push(a.0 + (a.1 - a.0) / 2); v.push(a.1); if a.1 > a.0 { v.push(a.0 + 1); v.push(a.1 - 1) } }
    v.sort(); v.dedup(); v
}

/// Checks that `got` is the unique minimal prefix decomposition of the lib-space range [lo,hi].
fn check_prefixes(kind: Kind, lo: u128, hi: u128, got: &[Prefix]) -> Result<(), String> {
    if got.is_empty() { return Err("no prefixes".into()) }
    let mut next = Some(lo);
    for p in got {
        let (a, b) = (p.min().to_bits(), p.max().to_bits());
        let len = p.addr_len() as u32;
        if kind == Kind::V4 && len > 32 { return Err(format!("IPv4 prefix of length {len}")) }
        if prefix_len(a, b, 128) != Some(len as u8) { return Err(format!("prefix {a:#x}/{len} is inconsistent")) }
        if Some(a) != next { return Err(format!("prefix {a:#x}/{len} does not start where the previous one ended (gap or overlap)")) }
        if b > hi { return Err(format!("prefix {a:#x}/{len} reaches beyond the range")) }
        if len > 0 {
            // maximal: the parent prefix must not fit into the range
            let plen = len - 1;
            let pa = if plen == 0 { 0 } else { a & !(u128::MAX >> plen) };
            let pb = pa | (u128::MAX >> plen);
            if pa >= lo && pb <= hi { return Err(format!("prefix {a:#x}/{len} is not maximal: /{plen} also fits")) }
        }
        next = b.checked_add(1);
    }
    match next { None if hi == u128::MAX => Ok(()), Some(n) if hi != u128::MAX && n == hi + 1 => Ok(()), _ => Err("prefixes do not end at the end of the range".into()) }
}

fn to_prefixes(kind: Kind, lo: u128, hi: u128) -> Vec<Prefix> {
    let r = AddressRange::new(addr(lo), addr(hi));
    if kind == Kind::V4 { r.to_v4_prefixes().collect() } else { r.to_v6_prefixes().collect() }
}

fn queries(ctx: &Ctx, dom: &Dom, have: &[Option<Val>]) {
    let sp = dom.space(ctx, "queries",
        "every state of the closure x every probe: membership of both ends / second / middle value of every atom, contains_block / intersects_block / contains over all probe blocks, contains_roa over prefixes around the probe values, asn_count, iter_asns, range-to-prefix decomposition of every stored block, Display->FromStr, serde and DER round trips; non-trivial = (state, probe) pairs where the probe touches both members and non-members of the set, or a round trip of a non-empty set");
    let k = dom.kind;
    let pts = probe_points(dom);
    let mut qblocks: Vec<(u128, u128)> = Vec::new();
    for (i, &x) in pts.iter().enumerate() { for &y in &pts[i..] { qblocks.push((x, y)) } }
    let mut roa: Vec<(u128, u8)> = Vec::new();
    if k.is_ip() {
        let w = k.width() as u8;
        let mut lens = vec![w, w - 1, w - 2, w - 3, w - 4, w / 2, 3, 2, 1, 0];
        // a domain on the 2^k grid: the prefix lengths whose boundaries are the grid's points
        if let Some((_, gk)) = dom.grid { let l = (k.width() - gk) as u8; lens.extend([l + 1, l, l - 1, l - 2]) }
        for &x in &pts { for &l in &lens {
            let keep = (if l == 0 { 0 } else { u128::MAX << (k.width() - l as u32) }) & k.fam_max();
            roa.push((x & keep, l));
        } }
        roa.sort(); roa.dedup();
    }
    let pfx = format!("C03.{}.query", dom.name);
    let states: Vec<u32> = (0..have.len() as u32).filter(|m| have[*m as usize].is_some()).collect();
    states.par_iter().for_each(|&m| {
        let v = have[m as usize].as_ref().unwrap();
        let st = || format!("set={}", dom.show_mask(m));
        let mut oc: BTreeMap<&'static str, u64> = BTreeMap::new();
        let (mut evals, mut nontriv) = (0u64, 0u64);
        let tally = |oc: &mut BTreeMap<&'static str, u64>, b: bool, t: &'static str, f: &'static str| { *oc.entry(if b { t } else { f }).or_insert(0) += 1; };
        // single values
        for &x in &pts {
            let want = dom.touched(x, x) & m != 0;
            evals += 1;
            let w = || format!("{} item={}", st(), dom.addr_txt(x));
            match v {
                Val::As(b) => {
                    ctx.check(&format!("{pfx}.contains_asn"), w, || { let g = b.contains_asn(asn(x)); if g == want { Ok(()) } else { Err(format!("contains_asn returned {g}")) } });
                    ctx.check(&format!("{pfx}.resource_set_contains_asn"), w, || {
                        let rs = ResourceSet::new(b.clone(), Ipv4Blocks::empty(), Ipv6Blocks::empty());
                        let g = rs.contains_asn(asn(x)); if g == want { Ok(()) } else { Err(format!("ResourceSet::contains_asn returned {g}")) } });
                }
                Val::Ip(b) => {
                    let (lo, hi) = (addr(k.lib_min(x)), addr(k.lib_max(x)));
                    ctx.check(&format!("{pfx}.contains_block"), w, || { let g = b.contains_block((lo, hi)); if g == want { Ok(()) } else { Err(format!("contains_block(single address) returned {g}")) } });
                    ctx.check(&format!("{pfx}.intersects_block"), w, || { let g = b.intersects_block((lo, hi)); if g == want { Ok(()) } else { Err(format!("intersects_block(single address) returned {g}")) } });
                }
            }
            tally(&mut oc, want, "member", "non-member");
        }
        // blocks
        for &(x, y) in &qblocks {
            let t = dom.touched(x, y);
            let (inside, meets) = (t & !m == 0, t & m != 0);
            if meets && !inside { nontriv += 1 }
            evals += 1;
            let w = || format!("{} block={}", st(), dom.block_txt(x, y, false));
            match v {
                Val::As(b) => {
                    ctx.check(&format!("{pfx}.contains_blocks_of_one"), w, || {
                        let other: AsBlocks = [AsBlock::from((asn(x), asn(y)))].into_iter().collect();
                        let g = b.contains(&other); if g == inside { Ok(()) } else { Err(format!("contains returned {g}")) } });
                }
                Val::Ip(b) => {
                    let (lo, hi) = (addr(k.lib_min(x)), addr(k.lib_max(y)));
                    ctx.check(&format!("{pfx}.contains_block"), w, || {
                        let g = b.contains_block((lo, hi)); let g2 = b.contains_block(AddressRange::new(lo, hi));
                        if g == inside && g2 == inside { Ok(()) } else { Err(format!("contains_block returned {g} (tuple) / {g2} (range), expected {inside}")) } });
                    ctx.check(&format!("{pfx}.intersects_block"), w, || {
                        let g = b.intersects_block((lo, hi)); let g2 = b.intersects_block(AddressRange::new(lo, hi));
                        if g == meets && g2 == meets { Ok(()) } else { Err(format!("intersects_block returned {g} (tuple) / {g2} (range), expected {meets}")) } });
                }
            }
            tally(&mut oc, inside, "block-inside", if meets { "block-partly-inside" } else { "block-outside" });
        }
        // ROA prefixes
        if let Val::Ip(b) = v {
            for &(a, l) in &roa {
                let host = if l as u32 == k.width() { 0 } else { k.fam_max() >> l };
                let t = dom.touched(a, a | host);
                let inside = t & !m == 0;
                if t & m != 0 && !inside { nontriv += 1 }
                evals += 1;
                let w = || format!("{} prefix={}/{}", st(), dom.addr_txt(a), l);
                ctx.check(&format!("{pfx}.contains_roa"), w, || {
                    let p = Prefix::new(addr(k.lib_min(a)), l);
                    let g = b.contains_roa(&RoaIpAddress::new(p, None));
                    let ip = if k == Kind::V4 { IpAddr::V4(Ipv4Addr::from(a as u32)) } else { IpAddr::V6(Ipv6Addr::from(a)) };
                    let g2 = b.contains_roa(&RoaIpAddress::new_addr(ip, l, Some(k.width() as u8)));
                    let rs = if k == Kind::V4 { ResourceSet::new(AsBlocks::empty(), b.clone().into(), Ipv6Blocks::empty()) } else { ResourceSet::new(AsBlocks::empty(), Ipv4Blocks::empty(), b.clone().into()) };
                    let g3 = rs.contains_roa_address(&RoaIpAddress::new(p, None));
                    if g == inside && g2 == inside && g3 == inside { Ok(()) } else { Err(format!("contains_roa returned {g}/{g2}, ResourceSet::contains_roa_address {g3}, expected {inside}")) } });
                tally(&mut oc, inside, "roa-inside", "roa-not-inside");
            }
        }
        // counts and iteration
        if let Val::As(b) = v {
            evals += 2;
            let size = dom.size_of(m);
            ctx.check(&format!("{pfx}.asn_count"), st, || {
                let g = b.asn_count();
                if size <= u32::MAX as u128 && g as u128 != size { Err(format!("asn_count returned {g}, the set has {size} members")) } else { Ok(()) } });
            tally(&mut oc, size <= u32::MAX as u128, "count-representable", "count-not-representable-in-u32");
            ctx.check(&format!("{pfx}.iter_asns"), st, || {
                let cap = 40usize;
                let mut want: Vec<u32> = Vec::new();
                'o: for (lo, hi) in dom.runs(m) { let mut x = lo; loop { if want.len() == cap { break 'o } want.push(x as u32); if x == hi { break } x += 1 } }
                let small = size <= cap as u128;
                let got: Vec<u32> = if small { b.iter_asns().map(|a| a.into_u32()).take(cap + 1).collect() } else { b.iter_asns().map(|a| a.into_u32()).take(cap).collect() };
                if got == want { Ok(()) } else { Err(format!("iter_asns yields {:?}..., expected {:?}...", &got[..got.len().min(8)], &want[..want.len().min(8)])) } });
        }
        // prefix decomposition of every stored block
        if let Val::Ip(b) = v {
            for blk in b.iter() {
                evals += 1;
                let (lo, hi) = (blk.min().to_bits(), blk.max().to_bits());
                ctx.check(&format!("{pfx}.to_prefixes"), || format!("{} block={:#x}-{:#x}", st(), lo, hi), || check_prefixes(k, lo, hi, &to_prefixes(k, lo, hi)));
            }
        }
        // round trips
        let want = &dom.canon[m as usize];
        if m != 0 { nontriv += 1 }
        let back = |name: &str, r: Result<Val, String>| -> Result<(), String> {
            match r { Err(e) => Err(format!("{name}: does not parse back: {e}")),
                Ok(x) => if !same(&x, want) { Err(format!("{name}: parses back as {}", dom.show_repr(&repr_of(&x)))) } else if !val_eq(&x, v) { Err(format!("{name}: parsed-back value is not == the original")) } else { Ok(()) } }
        };
        evals += 3;
        match v {
            Val::As(b) => {
                ctx.check(&format!("{pfx}.display_fromstr"), st, || { let s = b.to_string(); back(&format!("text {s:?}"), AsBlocks::from_str(&s).map(Val::As).map_err(|e| e.to_string())) });
                ctx.check(&format!("{pfx}.serde"), st, || { let s = serde_json::to_string(b).map_err(|e| e.to_string())?; back(&format!("json {s}"), serde_json::from_str::<AsBlocks>(&s).map(Val::As).map_err(|e| e.to_string())) });
                ctx.check(&format!("{pfx}.der"), st, || {
                    let bytes = encode::sequence(b.encode_ref()).to_captured(Mode::Der);
                    back("DER AsBlocks", Mode::Der.decode(bytes.as_slice(), |c| AsBlocks::take_from(c)).map(Val::As).map_err(|e| e.to_string()))?;
                    let bytes = AsResources::blocks(b.clone()).encode_ref().to_captured(Mode::Der);
                    back("DER AsResources", Mode::Der.decode(bytes.as_slice(), |c| AsResources::take_from(c)).map_err(|e| e.to_string()).and_then(|r| r.to_blocks().map_err(|e| e.to_string())).map(Val::As)) });
            }
            Val::Ip(b) => {
                let v4 = k == Kind::V4;
                ctx.check(&format!("{pfx}.display_fromstr"), st, || {
                    let s = if v4 { b.as_v4().to_string() } else { b.as_v6().to_string() };
                    back(&format!("text {s:?} via IpBlocks"), IpBlocks::from_str(&s).map(Val::Ip).map_err(|e| e.to_string()))?;
                    if v4 { let t = Ipv4Blocks::from(b.clone()); let s = t.to_string(); back(&format!("text {s:?} via Ipv4Blocks"), Ipv4Blocks::from_str(&s).map(|x| Val::Ip((*x).clone())).map_err(|e| e.to_string())) }
                    else { let t = Ipv6Blocks::from(b.clone()); let s = t.to_string(); back(&format!("text {s:?} via Ipv6Blocks"), Ipv6Blocks::from_str(&s).map(|x| Val::Ip((*x).clone())).map_err(|e| e.to_string())) } });
                ctx.check(&format!("{pfx}.serde"), st, || {
                    if v4 { let s = serde_json::to_string(&Ipv4Blocks::from(b.clone())).map_err(|e| e.to_string())?; back(&format!("json {s}"), serde_json::from_str::<Ipv4Blocks>(&s).map(|x| Val::Ip((*x).clone())).map_err(|e| e.to_string())) }
                    else { let s = serde_json::to_string(&Ipv6Blocks::from(b.clone())).map_err(|e| e.to_string())?; back(&format!("json {s}"), serde_json::from_str::<Ipv6Blocks>(&s).map(|x| Val::Ip((*x).clone())).map_err(|e| e.to_string())) } });
                ctx.check(&format!("{pfx}.der"), st, || {
                    let fam = if v4 { AddressFamily::Ipv4 } else { AddressFamily::Ipv6 };
                    let bytes = b.encode_ref().to_captured(Mode::Der);
                    back("DER IpBlocks", Mode::Der.decode(bytes.as_slice(), |c| IpBlocks::take_from_with_family(c, fam)).map(Val::Ip).map_err(|e| e.to_string()))?;
                    let bytes = encode::sequence(b.encode_family(fam)).to_captured(Mode::Der);
                    back("DER IPAddrBlocks", Mode::Der.decode(bytes.as_slice(), |c| IpResources::take_families_from(c)).map_err(|e| e.to_string())
                        .and_then(|(a, c)| if v4 { a } else { c }.ok_or("family missing".to_string())).and_then(|r| r.to_blocks().map_err(|e| e.to_string())).map(Val::Ip)) });
            }
        }
        tally(&mut oc, m != 0, "round-trip-nonempty", "round-trip-empty");
        evals += 1;
        ctx.check(&format!("{pfx}.observers"), st, || observers(dom, v, m, true));
        // API siblings: predicates, by-value encoders, take_opt / skip_opt decoders, typed blocks --
        // each must agree with the sibling the checks above already cover
        evals += 1;
        match v {
            Val::As(b) => { ctx.check(&format!("{pfx}.siblings"), st, || {
                for blk in b.iter() { if blk.is_whole_range() != (blk == AsBlock::all()) { return Err(format!("is_whole_range of {blk} is {}", blk.is_whole_range())) } }
                let by_ref = encode::sequence(b.encode_ref()).to_captured(Mode::Der);
                let by_val = encode::sequence(b.clone().encode()).to_captured(Mode::Der);
                if by_ref.as_slice() != by_val.as_slice() { return Err("encode(self) and encode_ref(&self) write different octets".into()) }
                let stored: Vec<Blk> = b.iter().map(blk_as).collect();
                let taken: Vec<Blk> = Mode::Der.decode(by_ref.as_slice(), |c| c.take_sequence(|c| { let mut v = Vec::new(); while let Some(x) = AsBlock::take_opt_from(c)? { v.push(blk_as(x)) } Ok(v) })).map_err(|e| format!("AsBlock::take_opt_from: {e}"))?;
                let skipped: usize = Mode::Der.decode(by_ref.as_slice(), |c| c.take_sequence(|c| { let mut n = 0; while AsBlock::skip_opt_in(c)?.is_some() { n += 1 } Ok(n) })).map_err(|e| format!("AsBlock::skip_opt_in: {e}"))?;
                if taken != stored { return Err("AsBlock::take_opt_from yields other blocks than the stored ones".into()) }
                if skipped != stored.len() { return Err(format!("AsBlock::skip_opt_in skipped {skipped} of {} blocks", stored.len())) }
                Ok(()) }); }
            Val::Ip(b) => { ctx.check(&format!("{pfx}.siblings"), st, || {
                let v4 = k == Kind::V4;
                let fam = if v4 { AddressFamily::Ipv4 } else { AddressFamily::Ipv6 };
                for blk in b.iter() {
                    let whole = blk == IpBlock::all();
                    if blk.is_slash_zero() != whole { return Err(format!("is_slash_zero of a stored block is {}", blk.is_slash_zero())) }
                    // the family-typed block parsed from the block's own text
                    if v4 {
                        let t = blk.display_v4().to_string();
                        let x = Ipv4Block::from_str(&t).map_err(|e| format!("Ipv4Block {t:?}: {e}"))?;
                        if x.min() != blk.min().to_v4() || x.max() != blk.max().to_v4() || x.is_slash_zero() != blk.is_slash_zero() || x.to_string() != t || IpBlock::from(x.clone()) != blk { return Err(format!("Ipv4Block {t:?} reports {}-{} slash_zero={}", x.min(), x.max(), x.is_slash_zero())) }
                        if whole && (x != Ipv4Block::all() || !Ipv4Block::all().is_slash_zero()) { return Err("Ipv4Block::all() is not the block covering everything".into()) }
                    } else {
                        let t = blk.display_v6().to_string();
                        let x = Ipv6Block::from_str(&t).map_err(|e| format!("Ipv6Block {t:?}: {e}"))?;
                        if x.min() != blk.min().to_v6() || x.max() != blk.max().to_v6() || x.is_slash_zero() != blk.is_slash_zero() || x.to_string() != t || IpBlock::from(x.clone()) != blk { return Err(format!("Ipv6Block {t:?} reports {}-{} slash_zero={}", x.min(), x.max(), x.is_slash_zero())) }
                        if whole && (x != Ipv6Block::all() || !Ipv6Block::all().is_slash_zero()) { return Err("Ipv6Block::all() is not the block covering everything".into()) }
                    }
                }
                let by_ref = b.encode_ref().to_captured(Mode::Der);
                let by_val = b.clone().encode().to_captured(Mode::Der);
                if by_ref.as_slice() != by_val.as_slice() { return Err("encode(self) and encode_ref(&self) write different octets".into()) }
                let stored: Vec<Blk> = b.iter().map(blk_ip).collect();
                let plain: Vec<Blk> = Mode::Der.decode(by_ref.as_slice(), |c| c.take_sequence(|c| { let mut v = Vec::new(); while let Some(x) = IpBlock::take_opt_from(c)? { v.push(blk_ip(x)) } Ok(v) })).map_err(|e| format!("IpBlock::take_opt_from: {e}"))?;
                let with_fam: Vec<Blk> = Mode::Der.decode(by_ref.as_slice(), |c| c.take_sequence(|c| { let mut v = Vec::new(); while let Some(x) = IpBlock::take_opt_from_with_family(c, fam)? { v.push(blk_ip(x)) } Ok(v) })).map_err(|e| format!("IpBlock::take_opt_from_with_family: {e}"))?;
                if plain != stored || with_fam != stored { return Err("IpBlock::take_opt_from[_with_family] yields other blocks than the stored ones".into()) }
                // address family: take_from / take_opt_from / skip_opt_in on the same IPAddressFamily
                let famseq = b.encode_family(fam).to_captured(Mode::Der);
                let a = Mode::Der.decode(famseq.as_slice(), |c| c.take_sequence(|c| { let f = AddressFamily::take_from(c)?; let x = IpBlocks::take_from_with_family(c, fam)?; Ok((f, x, AddressFamily::take_opt_from(c)?)) })).map_err(|e| format!("AddressFamily::take_from: {e}"))?;
                let o = Mode::Der.decode(famseq.as_slice(), |c| c.take_sequence(|c| { let f = AddressFamily::take_opt_from(c)?; let x = IpBlocks::take_from_with_family(c, fam)?; Ok((f, x, AddressFamily::skip_opt_in(c)?)) })).map_err(|e| format!("AddressFamily::take_opt_from: {e}"))?;
                let sk = Mode::Der.decode(famseq.as_slice(), |c| c.take_sequence(|c| { let f = AddressFamily::skip_opt_in(c)?; let x = IpBlocks::take_from_with_family(c, fam)?; Ok((f, x)) })).map_err(|e| format!("AddressFamily::skip_opt_in: {e}"))?;
                if a.0 != fam || o.0 != Some(a.0) || sk.0 != Some(()) || a.2.is_some() || o.2.is_some() { return Err("AddressFamily::take_from / take_opt_from / skip_opt_in disagree on the same octets".into()) }
                if &a.1 != b || &o.1 != b || &sk.1 != b { return Err("the blocks after the address family do not read back".into()) }
                // typed collection -> certificate resources
                let res = if v4 { Ipv4Blocks::from(b.clone()).to_ip_resources() } else { Ipv6Blocks::from(b.clone()).to_ip_resources() };
                if res != IpResources::blocks(b.clone()) { return Err("to_ip_resources differs from IpResources::blocks".into()) }
                Ok(()) }); }
        }
        sp.evals(evals); sp.nontrivial(nontriv); sp.merge_outcomes(&oc);
    });
    // prefix decomposition of every probe block (once per domain)
    if k.is_ip() {
        for &(x, y) in &qblocks {
            sp.eval();
            let (lo, hi) = (k.lib_min(x), k.lib_max(y));
            let ok = ctx.check(&format!("{pfx}.to_prefixes"), || format!("block={:#x}-{:#x}", lo, hi), || check_prefixes(k, lo, hi, &to_prefixes(k, lo, hi)));
            if ok { sp.outcome(if prefix_len(lo, hi, 128).is_some() { "range-is-one-prefix" } else { "range-needs-several-prefixes" }) }
        }
    }
    dom.set(&sp, "states_queried", json!(states.len()));
    dom.set(&sp, "probe_values", json!(pts.len()));
    dom.set(&sp, "probe_blocks", json!(qblocks.len()));
    dom.set(&sp, "roa_prefixes", json!(roa.len()));
    dom.sample(&sp, || format!("{}: probes {}", dom.name, pts.iter().take(8).map(|x| dom.addr_txt(*x)).collect::<Vec<_>>().join(" ")));
    dom.done(&sp, true, &format!("{} states x ({} values + {} blocks + {} prefixes + round trips)", states.len(), pts.len(), qblocks.len(), roa.len()));
}

//------------ value -> form -> value for the certificate resource extensions --------------------------

/// AsResources / IpResources in their three shapes (missing, inherit, blocks) through every form
/// they have and back; afterwards the value must be ==, report the same shape and blocks, and
/// verify_issued / verify_covered must give the model's answers.
fn choice_forms(ctx: &Ctx, dom: &Dom, have: &[Option<Val>]) {
    let sp = dom.space(ctx, "choice_forms",
        "AsResources / IpResources: {missing, inherit, blocks(every non-empty state)} x forms (AS: Display->FromStr, serde JSON, DER; IP: DER inside an IPAddrBlocks with the other family inherited) and back: == the original, same is_inherited / is_present / to_blocks, and for every probe issuer (empty, everything, every single atom, every complement of one atom) verify_issued(refuse), verify_issued(trim) and verify_covered answer as the model says; non-trivial = (value, form) pairs of the missing and inherit shapes and of blocks that are not contained in some probe issuer");
    let k = dom.kind;
    let universe = dom.blocks.iter().fold(0u32, |m, b| m | b.mask);
    let mut probes: Vec<u32> = vec![0, universe];
    for i in 0..dom.natoms() { if universe & (1 << i) != 0 { probes.push(1 << i); probes.push(universe & !(1 << i)) } }
    probes.sort(); probes.dedup(); probes.retain(|m| have[*m as usize].is_some());
    // shapes: None = inherit, Some(0) = missing, Some(m) = blocks
    let mut shapes: Vec<Option<u32>> = vec![None];
    shapes.extend((0..have.len() as u32).filter(|m| have[*m as usize].is_some()).map(Some));
    let pfx = format!("C03.{}.choice", dom.name);
    shapes.par_iter().for_each(|&shape| {
        let mut oc: BTreeMap<&'static str, u64> = BTreeMap::new();
        let (mut evals, mut nontriv) = (0u64, 0u64);
        let name = match shape { None => "inherit".to_string(), Some(0) => "missing".to_string(), Some(m) => dom.show_mask(m) };
        let forms: &[&str] = if k == Kind::As { if shape == Some(0) { &["text", "serde"] } else { &["text", "serde", "der"] } } else { &["der"] };
        for form in forms {
            evals += 1;
            let wit = || format!("resources={name} form={form}");
            // model answers
            let issued = |issuer: u32, trim: bool| -> Option<u32> { match shape { None => Some(issuer), Some(m) => if trim { Some(m & issuer) } else if m & !issuer == 0 { Some(m) } else { None } } };
            let covered = |subject: u32| -> bool { match shape { None => true, Some(m) => subject & !m == 0 } };
            if shape.map(|m| m == 0 || probes.iter().any(|p| m & !p != 0)).unwrap_or(true) { nontriv += 1 }
            let r = guard(|| -> Result<(), String> {
                match k {
                    Kind::As => {
                        let orig = match shape { None => AsResources::inherit(), Some(m) => match have[m as usize].as_ref().unwrap() { Val::As(b) => AsResources::blocks(b.clone()), _ => unreachable!() } };
                        let got: AsResources = match *form {
                            "text" => { let t = orig.to_string(); AsResources::from_str(&t).map_err(|e| format!("text {t:?} does not parse back: {e}"))? }
                            "serde" => { let j = serde_json::to_string(&orig).map_err(|e| e.to_string())?; serde_json::from_str(&j).map_err(|e| format!("json {j} does not parse back: {e}"))? }
                            _ => { let b = orig.encode_ref().to_captured(Mode::Der); Mode::Der.decode(b.as_slice(), |c| AsResources::take_from(c)).map_err(|e| format!("DER does not parse back: {e}"))? }
                        };
                        if got != orig { return Err(format!("reads back as \"{got}\", which is not == the original \"{orig}\"")) }
                        // siblings: by-value encoder, the builder's inherit(), ResourcesChoice::map_blocks
                        if orig.clone().encode().to_captured(Mode::Der).as_slice() != orig.encode_ref().to_captured(Mode::Der).as_slice() { return Err("encode(self) and encode_ref(&self) write different octets".into()) }
                        let mut bld = AsResourcesBuilder::new(); bld.inherit();
                        if let Some(m) = shape { if let Val::As(x) = have[m as usize].as_ref().unwrap() { bld.blocks(|b| for blk in x.iter() { b.push(blk) }) } }
                        if bld.finalize() != orig { return Err("AsResourcesBuilder with inherit() builds another value".into()) }
                        let choice: ResourcesChoice<AsBlocks> = match shape { None => ResourcesChoice::Inherit, Some(0) => ResourcesChoice::Missing, Some(m) => match have[m as usize].as_ref().unwrap() { Val::As(x) => ResourcesChoice::Blocks(x.clone()), _ => unreachable!() } };
                        let mapped = choice.clone().map_blocks(|b| b.to_string());
                        if mapped.to_string() != orig.to_string() || mapped.is_inherited() != orig.is_inherited() || mapped.is_present() != orig.is_present() || choice.clone().map_blocks(|b| b) != choice { return Err("ResourcesChoice::map_blocks changes the shape or the blocks".into()) }
                        if got.is_inherited() != shape.is_none() || got.is_present() != (shape != Some(0)) { return Err(format!("reads back with is_inherited={} is_present={}", got.is_inherited(), got.is_present())) }
                        match (got.to_blocks(), shape) { (Err(_), None) => {} (Ok(b), Some(m)) if same(&Val::As(b.clone()), &dom.canon[m as usize]) => {} _ => return Err("to_blocks differs after the trip".to_string()) }
                        for &p in &probes {
                            let iss = match have[p as usize].as_ref().unwrap() { Val::As(b) => b, _ => unreachable!() };
                            for trim in [false, true] {
                                let g = iss.verify_issued(&got, if trim { Overclaim::Trim } else { Overclaim::Refuse }).ok();
                                let ok = match (&g, issued(p, trim)) { (None, None) => true, (Some(v), Some(w)) => same(&Val::As(v.clone()), &dom.canon[w as usize]), _ => false };
                                if !ok { return Err(format!("issuer {} verify_issued({}) answers {}", dom.show_mask(p), if trim { "trim" } else { "refuse" }, match g { None => "refused".to_string(), Some(v) => v.to_string() })) }
                            }
                            let c = iss.verify_covered(&got).is_ok();
                            if c != covered(p) { return Err(format!("subject {} verify_covered answers {c}", dom.show_mask(p))) }
                        }
                        Ok(())
                    }
                    _ => {
                        let (fam, other) = if k == Kind::V4 { (AddressFamily::Ipv4, AddressFamily::Ipv6) } else { (AddressFamily::Ipv6, AddressFamily::Ipv4) };
                        let orig = match shape { None => IpResources::inherit(), Some(m) => match have[m as usize].as_ref().unwrap() { Val::Ip(b) => IpResources::blocks(b.clone()), _ => unreachable!() } };
                        let inh = IpResources::inherit();
                        let bytes = if k == Kind::V4 { encode::sequence((orig.encode_family(fam), inh.encode_family(other))).to_captured(Mode::Der) }
                            else { encode::sequence((inh.encode_family(other), orig.encode_family(fam))).to_captured(Mode::Der) };
                        let (a, b) = Mode::Der.decode(bytes.as_slice(), |c| IpResources::take_families_from(c)).map_err(|e| format!("DER does not parse back: {e}"))?;
                        let (mine, theirs) = if k == Kind::V4 { (a, b) } else { (b, a) };
                        if !theirs.map(|t| t.is_inherited()).unwrap_or(false) { return Err("the other (inherited) family did not come back as inherited".to_string()) }
                        let got = mine.unwrap_or_else(IpResources::missing); // an absent family is what "missing" means
                        if got != orig { return Err("reads back as a value that is not == the original".to_string()) }
                        // siblings: by-value encoder, the builder's inherit(), ResourcesChoice::map_blocks
                        if orig.clone().encode().to_captured(Mode::Der).as_slice() != orig.encode_ref().to_captured(Mode::Der).as_slice() { return Err("encode(self) and encode_ref(&self) write different octets".into()) }
                        let mut bld = IpResourcesBuilder::new(); bld.inherit();
                        if let Some(m) = shape { if let Val::Ip(x) = have[m as usize].as_ref().unwrap() { bld.blocks(|b| for blk in x.iter() { b.push(blk) }) } }
                        if bld.finalize() != orig { return Err("IpResourcesBuilder with inherit() builds another value".into()) }
                        let choice: ResourcesChoice<IpBlocks> = match shape { None => ResourcesChoice::Inherit, Some(0) => ResourcesChoice::Missing, Some(m) => match have[m as usize].as_ref().unwrap() { Val::Ip(x) => ResourcesChoice::Blocks(x.clone()), _ => unreachable!() } };
                        let mapped = choice.clone().map_blocks(|b| IpResources::blocks(b));
                        let flat = match mapped { ResourcesChoice::Missing => IpResources::missing(), ResourcesChoice::Inherit => IpResources::inherit(), ResourcesChoice::Blocks(r) => r };
                        if flat != orig || choice.clone().map_blocks(|b| b) != choice { return Err("ResourcesChoice::map_blocks changes the shape or the blocks".into()) }
                        if got.is_inherited() != shape.is_none() || got.is_present() != (shape != Some(0)) { return Err(format!("reads back with is_inherited={} is_present={}", got.is_inherited(), got.is_present())) }
                        match (got.to_blocks(), shape) { (Err(_), None) => {} (Ok(b), Some(m)) if same(&Val::Ip(b.clone()), &dom.canon[m as usize]) => {} _ => return Err("to_blocks differs after the trip".to_string()) }
                        for &p in &probes {
                            let iss = match have[p as usize].as_ref().unwrap() { Val::Ip(b) => b, _ => unreachable!() };
                            for trim in [false, true] {
                                let g = match iss.verify_issued(&got, if trim { Overclaim::Trim } else { Overclaim::Refuse }) {
                                    Ok(v) => Some(v),
                                    Err(e) => {
                                        // the refusal names the overclaimed part: it must print as the (already checked) difference does
                                        if let Some(m) = shape { if let Some(Val::Ip(d)) = have[(m & !p) as usize].as_ref() {
                                            let (w4, w6) = (format!("overclaimed IPv4 resources: {}", Ipv4Blocks::from(d.clone())), format!("overclaimed IPv6 resources: {}", Ipv6Blocks::from(d.clone())));
                                            let (g4, g6) = (e.clone().v4().to_string(), e.v6().to_string());
                                            if g4 != w4 || g6 != w6 { return Err(format!("issuer {} refuses with \"{}\" / \"{}\"; the difference prints as \"{w4}\" / \"{w6}\"", dom.show_mask(p), g4, g6)) }
                                        } }
                                        None
                                    }
                                };
                                let ok = match (&g, issued(p, trim)) { (None, None) => true, (Some(v), Some(w)) => same(&Val::Ip(v.clone()), &dom.canon[w as usize]), _ => false };
                                if !ok { return Err(format!("issuer {} verify_issued({}) answers {}", dom.show_mask(p), if trim { "trim" } else { "refuse" }, match g { None => "refused".to_string(), Some(v) => dom.show_repr(&repr_of(&Val::Ip(v))) })) }
                            }
                            let c = iss.verify_covered(&got).is_ok();
                            if c != covered(p) { return Err(format!("subject {} verify_covered answers {c}", dom.show_mask(p))) }
                        }
                        Ok(())
                    }
                }
            });
            evals += 3 * probes.len() as u64;
            *oc.entry(match shape { None => "shape:inherit", Some(0) => "shape:missing", _ => "shape:blocks" }).or_insert(0) += 1;
            match r { Ok(Ok(())) => {} Ok(Err(d)) => ctx.fail(&format!("{pfx}.{form}"), wit(), d), Err(p) => ctx.fail(&format!("{pfx}.{form}.panic"), wit(), p) }
        }
        sp.evals(evals); sp.nontrivial(nontriv); sp.merge_outcomes(&oc);
    });
    dom.set(&sp, "shapes", json!(shapes.len())); dom.set(&sp, "probe_issuers", json!(probes.len()));
    dom.sample(&sp, || format!("{}: probe issuers {}", dom.name, probes.iter().take(4).map(|m| dom.show_mask(*m)).collect::<Vec<_>>().join(" ")));
    dom.done(&sp, true, &format!("{} shapes x forms x {} probe issuers x (refuse, trim, covered)", shapes.len(), probes.len()));
}

//------------ the refused issuance result: which resources the refusal names --------------------------------

fn parse_blocks(kind: Kind, t: &str) -> Result<Val, String> {
    match kind {
        Kind::As => AsBlocks::from_str(t).map(Val::As).map_err(|e| e.to_string()),
        Kind::V4 => Ipv4Blocks::from_str(t).map(|x| Val::Ip((*x).clone())).map_err(|e| e.to_string()),
        Kind::V6 => Ipv6Blocks::from_str(t).map(|x| Val::Ip((*x).clone())).map_err(|e| e.to_string()),
    }
}

#[derive(PartialEq)]
enum Named { Canonical, OtherSpelling, NoSet }

/// An overclaim message reads "overclaimed <family> resources: <blocks>". Judges the blocks it names
/// against the model's `claim minus issuer` (`want`, printed `want_txt`): the canonical text, or any
/// text that parses (FromStr of the family) to the same set. A message without a ": " part names
/// nothing and is only counted.
fn judge_named(kind: Kind, msg: &str, want_txt: &str, want: &[Blk]) -> Result<Named, String> {
    let Some((_, t)) = msg.split_once(": ") else { return Ok(Named::NoSet) };
    if t == want_txt { return Ok(Named::Canonical) }
    match parse_blocks(kind, t) {
        Ok(v) if denoted(&repr_of(&v)) == denoted(want) => Ok(Named::OtherSpelling),
        Ok(_) => Err(format!("the refusal says {msg:?}; the claimed resources the issuer does not hold are {want_txt:?}")),
        Err(e) => Err(format!("the refusal says {msg:?}, whose resources do not parse ({e}); the claimed resources the issuer does not hold are {want_txt:?}")),
    }
}

/// Both refusing entry points on one (issuer, claim) pair of block collections: the verdicts, and the
/// texts of the two errors (the family's rendering, and the same error turned into a VerificationError).
struct Refusal { issued: Result<Val, (String, String)>, covered: Result<(), (String, String)> }

fn refuse_pair(kind: Kind, issuer: &Val, claim: &Val) -> Refusal {
    match (issuer, claim) {
        (Val::As(i), Val::As(c)) => Refusal {
            issued: i.verify_issued(&AsResources::blocks(c.clone()), Overclaim::Refuse).map(Val::As).map_err(|e| (e.to_string(), VerificationError::from(e).to_string())),
            covered: c.verify_covered(&AsResources::blocks(i.clone())).map_err(|e| (e.to_string(), VerificationError::from(e).to_string())),
        },
        (Val::Ip(i), Val::Ip(c)) => {
            let txt = |e: OverclaimedIpResources| if kind == Kind::V4 { (e.clone().v4().to_string(), VerificationError::from(e.v4()).to_string()) } else { (e.clone().v6().to_string(), VerificationError::from(e.v6()).to_string()) };
            Refusal {
                issued: i.verify_issued(&IpResources::blocks(c.clone()), Overclaim::Refuse).map(Val::Ip).map_err(txt),
                covered: c.verify_covered(&IpResources::blocks(i.clone())).map_err(txt),
            }
        }
        _ => unreachable!(),
    }
}

/// verify_covered of a claim by an issuer certificate that has no such extension / inherits it.
fn covered_by_shape(kind: Kind, claim: &Val, inherit: bool) -> Result<(), (String, String)> {
    match claim {
        Val::As(c) => c.verify_covered(&if inherit { AsResources::inherit() } else { AsResources::missing() }).map_err(|e| (e.to_string(), VerificationError::from(e).to_string())),
        Val::Ip(c) => c.verify_covered(&if inherit { IpResources::inherit() } else { IpResources::missing() })
            .map_err(|e| if kind == Kind::V4 { (e.clone().v4().to_string(), VerificationError::from(e.v4()).to_string()) } else { (e.clone().v6().to_string(), VerificationError::from(e.v6()).to_string()) }),
    }
}

/// The refused issuance result. `verify_issued(.., Refuse)` (top-down) and `verify_covered` (bottom-up)
/// refuse with an error whose text names the overclaimed resources; those must be the claimed
/// resources the issuer does not hold, through either entry point.
fn refusals(ctx: &Ctx, dom: &Dom, have: &[Option<Val>]) {
    let sp = dom.space(ctx, "refusal",
        "ordered pairs (issuer, claim) of states of the closure -- all pairs where the domain has at most 256 states or the tier is thorough, otherwise all pairs in which the issuer or the claim is a probe state (empty, everything, a single atom, the complement of one) -- through issuer.verify_issued(blocks(claim), Refuse) and claim.verify_covered(blocks(issuer)), plus every claim against an issuer without the extension (missing) and an inheriting one through verify_covered: refused iff the claim is not a subset of the issuer; an accepted verify_issued returns the claim; the text of the refusal (OverclaimedAsResources, OverclaimedIpResources::v4 / v6 as the family says) names, after its \": \", exactly the set claim minus issuer (canonical text, or any text that parses to that set); both entry points word it identically; the VerificationError made from the error carries the same text; non-trivial = refused pairs in which issuer and claim overlap partially, so that claim, claim minus issuer and issuer minus claim are three different sets");
    let k = dom.kind;
    let states: Vec<u32> = (0..have.len() as u32).filter(|m| have[*m as usize].is_some()).collect();
    let universe = dom.blocks.iter().fold(0u32, |m, b| m | b.mask);
    let all_pairs = states.len() <= 256 || ctx.tier.is_thorough();
    let mut probe = vec![false; have.len()];
    for &m in &states { let c = universe & !m; if m == 0 || c == 0 || m.count_ones() == 1 || c.count_ones() == 1 { probe[m as usize] = true } }
    let txt: Vec<String> = (0..have.len() as u32).map(|m| dom.runs(m).into_iter().map(|(x, y)| dom.block_txt(x, y, true)).collect::<Vec<_>>().join(", ")).collect();
    let pfx = format!("C03.{}.refusal", dom.name);
    let npairs = std::sync::atomic::AtomicU64::new(0);
    states.par_iter().for_each(|&mc| {
        let claim = have[mc as usize].as_ref().unwrap();
        let mut oc: BTreeMap<&'static str, u64> = BTreeMap::new();
        let (mut evals, mut nontriv, mut pairs) = (0u64, 0u64, 0u64);
        let named = |oc: &mut BTreeMap<&'static str, u64>, via: &str, wit: &dyn Fn(&str) -> String, texts: &(String, String), over: u32| {
            match judge_named(k, &texts.0, &txt[over as usize], &dom.canon[over as usize]) {
                Ok(n) => { *oc.entry(match n { Named::Canonical => if over == mc { "refused:names-the-whole-claim" } else { "refused:names-part-of-the-claim" }, Named::OtherSpelling => "refused:names-the-set-in-another-spelling", Named::NoSet => "refused:message-names-no-set(observed-only)" }).or_insert(0) += 1; }
                Err(d) => ctx.fail(&format!("{pfx}.{via}.names"), wit(via), d),
            }
            if !texts.1.contains(texts.0.as_str()) { ctx.fail(&format!("{pfx}.{via}.verification_error"), wit(via), format!("the error says {:?}, the VerificationError made from it {:?}", texts.0, texts.1)) }
        };
        // issuers that are not block collections
        for inherit in [false, true] {
            evals += 1;
            let wit = |via: &str| format!("issuer={} claim={} via={via}", if inherit { "inherit" } else { "missing" }, dom.show_mask(mc));
            match guard(|| covered_by_shape(k, claim, inherit)) {
                Err(p) => ctx.fail(&format!("{pfx}.verify_covered.panic"), wit("verify_covered"), p),
                Ok(r) => {
                    let want_ok = inherit || mc == 0;
                    if r.is_ok() != want_ok { ctx.fail(&format!("{pfx}.verify_covered.verdict"), wit("verify_covered"), format!("{}, the model {}", if r.is_ok() { "accepted" } else { "refused" }, if want_ok { "accepts" } else { "refuses" })) }
                    match r { Ok(()) => { *oc.entry(if inherit { "accepted:issuer-inherits" } else { "accepted:nothing-claimed" }).or_insert(0) += 1; } Err(t) => named(&mut oc, "verify_covered", &wit, &t, mc) }
                }
            }
        }
        for &mi in &states {
            if !all_pairs && !probe[mc as usize] && !probe[mi as usize] { continue }
            let issuer = have[mi as usize].as_ref().unwrap();
            pairs += 1; evals += 2;
            let over = mc & !mi;
            let wit = |via: &str| format!("issuer={} claim={} via={via}", dom.show_mask(mi), dom.show_mask(mc));
            if over != 0 && mc & mi != 0 && mi & !mc != 0 { nontriv += 1 }
            match guard(|| refuse_pair(k, issuer, claim)) {
                Err(p) => ctx.fail(&format!("{pfx}.panic"), wit("both"), p),
                Ok(r) => {
                    match &r.issued {
                        Ok(v) => { if over != 0 { ctx.fail(&format!("{pfx}.verify_issued.verdict"), wit("verify_issued"), "accepted although the claim is not a subset of the issuer".to_string()) }
                            else if !same(v, &dom.canon[mc as usize]) { ctx.fail(&format!("{pfx}.verify_issued.verdict"), wit("verify_issued"), format!("accepted, returning {} instead of the claim", dom.show_repr(&repr_of(v)))) }
                            else { *oc.entry("accepted").or_insert(0) += 1; } }
                        Err(t) => { if over == 0 { ctx.fail(&format!("{pfx}.verify_issued.verdict"), wit("verify_issued"), format!("refused ({:?}) although the claim is a subset of the issuer", t.0)) } else { named(&mut oc, "verify_issued", &wit, t, over) } }
                    }
                    match &r.covered {
                        Ok(()) => { if over != 0 { ctx.fail(&format!("{pfx}.verify_covered.verdict"), wit("verify_covered"), "accepted although the claim is not a subset of the issuer".to_string()) } else { *oc.entry("accepted").or_insert(0) += 1; } }
                        Err(t) => { if over == 0 { ctx.fail(&format!("{pfx}.verify_covered.verdict"), wit("verify_covered"), format!("refused ({:?}) although the claim is a subset of the issuer", t.0)) } else { named(&mut oc, "verify_covered", &wit, t, over) } }
                    }
                    if let (Err(a), Err(b)) = (&r.issued, &r.covered) { if a.0 != b.0 { ctx.fail(&format!("{pfx}.entry_points_agree"), wit("both"), format!("verify_issued refuses with {:?}, verify_covered with {:?}", a.0, b.0)) } }
                }
            }
        }
        npairs.fetch_add(pairs, std::sync::atomic::Ordering::Relaxed);
        sp.evals(evals); sp.nontrivial(nontriv); sp.merge_outcomes(&oc);
    });
    let npairs = npairs.load(std::sync::atomic::Ordering::Relaxed);
    dom.set(&sp, "states", json!(states.len())); dom.set(&sp, "pairs", json!(npairs)); dom.set(&sp, "all_pairs", json!(all_pairs));
    dom.sample(&sp, || { let (i, c) = (states[states.len() / 3], states[2 * states.len() / 3]);
        let r = refuse_pair(k, have[i as usize].as_ref().unwrap(), have[c as usize].as_ref().unwrap());
        format!("{}: issuer {} claim {} -> verify_covered: {}", dom.name, dom.show_mask(i), dom.show_mask(c), match r.covered { Ok(()) => "accepted".to_string(), Err(t) => t.0 }) });
    dom.done(&sp, true, &format!("{} ordered pairs of {} states ({}) x 2 entry points + {} claims x (missing, inheriting) issuer", npairs, states.len(), if all_pairs { "all pairs" } else { "pairs with a probe state" }, states.len()));
}

//------------ alternative constructors and mutators of single blocks ------------------------------------

/// Every probe block through the family-specific text constructors and through set_min / set_max:
/// each must give what the already checked sibling gives for the same input.
fn api_variants(ctx: &Ctx, dom: &Dom) {
    let sp = dom.space(ctx, "block_variants",
        "every block between two probe values (and every inverted alphabet block, as text) through AddressRange / Prefix / Addr ::from_v4_str / from_v6_str / from_str, compared with IpBlock::from_v4_str / from_v6_str and with the values put in; every (block, probe value) through set_min and set_max: a new bound inside the block's other bound must give exactly the block constructed directly (also after collecting it), a bound beyond it is counted (documented panic); non-trivial = mutations that change the block");
    let k = dom.kind;
    let pts = probe_points(dom);
    let mut blocks: Vec<(u128, u128)> = Vec::new();
    for (i, &x) in pts.iter().enumerate() { for &y in &pts[i..] { blocks.push((x, y)) } }
    let pfx = format!("C03.{}.variants", dom.name);
    // text constructors (IP only; AS has just FromStr, covered by the construction layer)
    if k.is_ip() {
        let v4 = k == Kind::V4;
        let mut texts: Vec<(u128, u128)> = blocks.clone();
        texts.extend(dom.blocks.iter().filter(|b| b.inverted).map(|b| (b.lo, b.hi)));
        for &(x, y) in &texts {
            sp.eval();
            let t = format!("{}-{}", dom.addr_txt(x), dom.addr_txt(y));
            ctx.check(&format!("{pfx}.range_text"), || format!("text={t}"), || {
                let sib = if v4 { IpBlock::from_v4_str(&t) } else { IpBlock::from_v6_str(&t) }.map(|b| (b.min(), b.max())).map_err(|_| ());
                let fam = if v4 { AddressRange::from_v4_str(&t) } else { AddressRange::from_v6_str(&t) }.map(|r| (r.min(), r.max())).map_err(|_| ());
                let gen_ = AddressRange::from_str(&t).map(|r| (r.min(), r.max())).map_err(|_| ());
                if fam != sib || gen_ != sib { return Err(format!("AddressRange::from_v{}_str gives {fam:?}, AddressRange::from_str {gen_:?}, IpBlock::from_v{}_str {sib:?}", if v4 { 4 } else { 6 }, if v4 { 4 } else { 6 })) }
                if x <= y && sib != Ok((addr(k.lib_min(x)), addr(k.lib_max(y)))) { return Err(format!("parsed bounds {sib:?}")) }
                Ok(()) });
            sp.outcome(if x <= y { "range-text-proper" } else { "range-text-inverted" });
            if x > y { continue }
            if let Some(l) = prefix_len(x, y, k.width()) {
                sp.eval();
                let t = format!("{}/{}", dom.addr_txt(x), l);
                ctx.check(&format!("{pfx}.prefix_text"), || format!("text={t}"), || {
                    let want = Prefix::new(addr(k.lib_min(x)), l);
                    let fam = if v4 { Prefix::from_v4_str(&t) } else { Prefix::from_v6_str(&t) }.map_err(|e| e.to_string())?;
                    let gen_ = Prefix::from_str(&t).map_err(|e| e.to_string())?;
                    let sib = if v4 { IpBlock::from_v4_str(&t) } else { IpBlock::from_v6_str(&t) }.map_err(|e| e.to_string())?;
                    if fam != want || gen_ != want || blk_ip(sib) != blk_ip(IpBlock::from(want)) { return Err(format!("Prefix::from_v*_str gives {:#x}/{}", fam.addr().to_bits(), fam.addr_len())) }
                    let wrong = if v4 { Prefix::from_v6_str(&t) } else { Prefix::from_v4_str(&t) };
                    if wrong.is_ok() { return Err("the other family's constructor accepts the text".into()) }
                    Ok(()) });
                sp.outcome("prefix-text");
            }
        }
        for &x in &pts {
            sp.eval();
            let t = dom.addr_txt(x);
            ctx.check(&format!("{pfx}.addr_text"), || format!("text={t}"), || {
                let fam = if v4 { Addr::from_v4_str(&t) } else { Addr::from_v6_str(&t) }.map_err(|e| e.to_string())?;
                let gen_ = Addr::from_str(&t).map_err(|e| e.to_string())?;
                if fam != addr(k.lib_min(x)) || gen_ != fam { return Err(format!("Addr::from_v*_str gives {:#x}, from_str {:#x}", fam.to_bits(), gen_.to_bits())) }
                if (if v4 { Addr::from_v6_str(&t) } else { Addr::from_v4_str(&t) }).is_ok() { return Err("the other family's constructor accepts the text".into()) }
                Ok(()) });
            sp.outcome("addr-text");
        }
    }
    // mutators
    let collected = |lo: u128, hi: u128| -> Repr { match k {
        Kind::As => repr_of(&Val::As([AsBlock::from((asn(lo), asn(hi)))].into_iter().collect())),
        _ => repr_of(&Val::Ip([IpBlock::from(AddressRange::new(addr(k.lib_min(lo)), addr(k.lib_max(hi))))].into_iter().collect())) } };
    blocks.par_iter().for_each(|&(x, y)| {
        let mut oc: BTreeMap<&'static str, u64> = BTreeMap::new();
        let (mut evals, mut nontriv) = (0u64, 0u64);
        for &m in &pts { for set_max in [false, true] {
            evals += 1;
            let (nx, ny) = if set_max { (x, m) } else { (m, y) };
            let legal = nx <= ny;
            if legal && (nx, ny) != (x, y) { nontriv += 1 }
            let wit = || format!("block={} {}={}", dom.block_txt(x, y, false), if set_max { "set_max" } else { "set_min" }, dom.addr_txt(m));
            // bounds and collected representation after the mutation
            let r: Result<((u128, u128), Repr), String> = guard(|| match k {
                Kind::As => {
                    let mut b = AsBlock::from((asn(x), asn(y)));
                    if set_max { b.set_max(asn(m)) } else { b.set_min(asn(m)) }
                    ((b.min().into_u32() as u128, b.max().into_u32() as u128), repr_of(&Val::As([b].into_iter().collect())))
                }
                _ => {
                    let mut r = AddressRange::new(addr(k.lib_min(x)), addr(k.lib_max(y)));
                    if set_max { r.set_max(addr(k.lib_max(m))) } else { r.set_min(addr(k.lib_min(m))) }
                    ((r.min().to_bits(), r.max().to_bits()), repr_of(&Val::Ip([IpBlock::from(r)].into_iter().collect())))
                }
            });
            let oracle = format!("{pfx}.{}", if set_max { "set_max" } else { "set_min" });
            match r {
                Err(p) => { if legal { *oc.entry("legal-bound:panic").or_insert(0) += 1; ctx.fail(&oracle, wit(), format!("the new bound is not beyond the other bound, yet: {p}")) } else { *oc.entry("bound-beyond-other:panic").or_insert(0) += 1; } }
                Ok((bounds, rep)) => {
                    if !legal { *oc.entry("bound-beyond-other:accepted").or_insert(0) += 1; continue }
                    *oc.entry("legal-bound:mutated").or_insert(0) += 1;
                    let want = (k.lib_min(nx), k.lib_max(ny));
                    if bounds != want || rep != collected(nx, ny) { ctx.fail(&oracle, wit(), format!("the mutated block is {:#x}-{:#x} and collects to {}; constructed directly it is {:#x}-{:#x} and collects to {}", bounds.0, bounds.1, dom.show_repr(&rep), want.0, want.1, dom.show_repr(&collected(nx, ny)))) }
                }
            }
        } }
        sp.evals(evals); sp.nontrivial(nontriv); sp.merge_outcomes(&oc);
    });
    dom.set(&sp, "blocks", json!(blocks.len())); dom.set(&sp, "probe_values", json!(pts.len()));
    dom.sample(&sp, || format!("{}: {} blocks x {} new bounds x (set_min, set_max)", dom.name, blocks.len(), pts.len()));
    dom.done(&sp, true, &format!("all {} probe blocks x {} probe values x 2 mutators, plus all text constructors", blocks.len(), pts.len()));
}

//------------ iterators the library hands out ---------------------------------------------------------------

#[derive(Clone, Copy, Debug)]
enum ItOp { Next, Nth(usize), SizeHint, Count, Last, DropEarly }
const IT_OPS: &[ItOp] = &[ItOp::Next, ItOp::Nth(0), ItOp::Nth(1), ItOp::Nth(3), ItOp::SizeHint, ItOp::Count, ItOp::Last, ItOp::DropEarly];

/// Every sequence of up to three calls on a fresh iterator, then the rest: the items must be those
/// of the reference list, whatever mixture of next / nth / size_hint / count / last is used.
fn iter_sequences<I: Iterator, P: PartialEq + std::fmt::Debug>(mk: &dyn Fn() -> I, proj: &dyn Fn(I::Item) -> P, reference: &[P]) -> Result<u64, String> {
    let n = IT_OPS.len();
    let mut runs = 0u64;
    for len in 0..=3u32 { for code in 0..n.pow(len) {
        let ops: Vec<ItOp> = (0..len).map(|d| IT_OPS[(code / n.pow(d)) % n]).collect();
        runs += 1;
        let mut it = Some(mk()); let mut pos = 0usize;
        let bad = |what: String| Err(format!("calls {ops:?}: {what}"));
        for op in &ops {
            let Some(i) = it.as_mut() else { break };
            let rem = reference.len() - pos.min(reference.len());
            match *op {
                ItOp::Next => { let g = i.next().map(proj); if g.as_ref() != reference.get(pos) { return bad(format!("next() gives {g:?}, item {pos} of the reference is {:?}", reference.get(pos))) } pos += 1 }
                ItOp::Nth(k) => { let g = i.nth(k).map(proj); if g.as_ref() != reference.get(pos + k) { return bad(format!("nth({k}) gives {g:?}, the reference has {:?}", reference.get(pos + k))) } pos += k + 1 }
                ItOp::SizeHint => { let h = i.size_hint(); if h.0 > rem || h.1.map(|u| u < rem).unwrap_or(false) { return bad(format!("size_hint {h:?} with {rem} items left")) } }
                ItOp::Count => { let c = it.take().unwrap().count(); if c != rem { return bad(format!("count() gives {c}, {rem} items are left")) } }
                ItOp::Last => { let g = it.take().unwrap().last().map(proj); let w = if rem > 0 { reference.last() } else { None }; if g.as_ref() != w { return bad(format!("last() gives {g:?}, expected {w:?}")) } }
                ItOp::DropEarly => { it = None }
            }
        }
        if let Some(i) = it { let rest: Vec<P> = i.map(proj).collect(); let w = &reference[pos.min(reference.len())..]; if rest.as_slice() != w { return bad(format!("the remaining items are {rest:?}, the reference continues with {w:?}")) } }
    } }
    Ok(runs)
}

fn handed_out(ctx: &Ctx, dom: &Dom, have: &[Option<Val>]) {
    let sp = dom.space(ctx, "handed_out",
        "iterators the library returns -- AsBlocks::iter, iter_asns, AsBlock::iter / into_iter, IpBlocks::iter, to_v4_prefixes / to_v6_prefixes -- on the probe states (empty, everything, every single atom, every complement of one atom; iter_asns only where the set is small): every sequence of <= 3 calls out of next, nth(0), nth(1), nth(3), size_hint, count, last, drop, followed by collecting the rest, against the reference item list; non-trivial = sequences that mix at least two different calls");
    let k = dom.kind;
    let universe = dom.blocks.iter().fold(0u32, |m, b| m | b.mask);
    let mut probes: Vec<u32> = vec![0, universe];
    for i in 0..dom.natoms() { if universe & (1 << i) != 0 { probes.push(1 << i); probes.push(universe & !(1 << i)) } }
    probes.sort(); probes.dedup(); probes.retain(|m| have[*m as usize].is_some());
    let pfx = format!("C03.{}.handed_out", dom.name);
    probes.par_iter().for_each(|&m| {
        let v = have[m as usize].as_ref().unwrap();
        let st = || format!("set={}", dom.show_mask(m));
        let mut note = |what: &str, r: Result<Result<u64, String>, String>| match r {
            Ok(Ok(n)) => { sp.evals(n); sp.nontrivial(n.saturating_sub(1 + 8 + 8)); sp.outcome(what) }
            Ok(Err(d)) | Err(d) => ctx.fail(&format!("{pfx}.{what}"), st(), d),
        };
        match v {
            Val::As(b) => {
                note("blocks_iter", guard(|| iter_sequences(&|| b.iter(), &blk_as, &dom.canon[m as usize])));
                if dom.size_of(m) <= 64 {
                    let want: Vec<u32> = dom.runs(m).into_iter().flat_map(|(x, y)| (x as u32)..=(y as u32)).collect();
                    note("iter_asns", guard(|| iter_sequences(&|| b.iter_asns(), &|a: Asn| a.into_u32(), &want)));
                }
                for blk in b.iter() { if (blk.max().into_u32() - blk.min().into_u32()) < 64 {
                    let want: Vec<u32> = (blk.min().into_u32()..=blk.max().into_u32()).collect();
                    note("block_iter", guard(|| iter_sequences(&|| blk.iter(), &|a: Asn| a.into_u32(), &want)));
                    note("block_into_iter", guard(|| iter_sequences(&|| blk.into_iter(), &|a: Asn| a.into_u32(), &want)));
                } }
            }
            Val::Ip(b) => {
                note("blocks_iter", guard(|| iter_sequences(&|| b.iter(), &blk_ip, &dom.canon[m as usize])));
                for blk in b.iter() {
                    let (lo, hi) = (blk.min().to_bits(), blk.max().to_bits());
                    // the reference: one full run, accepted only if it is the right decomposition (otherwise the queries space reports it)
                    let Ok(Some(want)) = guard(|| { let v = to_prefixes(k, lo, hi); check_prefixes(k, lo, hi, &v).ok().map(|_| v.into_iter().map(|p| (p.addr().to_bits(), p.addr_len())).collect::<Vec<(u128, u8)>>()) }) else { continue };
                    let r = AddressRange::new(addr(lo), addr(hi));
                    if k == Kind::V4 { note("to_prefixes", guard(|| iter_sequences(&|| r.to_v4_prefixes(), &|p: Prefix| (p.addr().to_bits(), p.addr_len()), &want))) }
                    else { note("to_prefixes", guard(|| iter_sequences(&|| r.to_v6_prefixes(), &|p: Prefix| (p.addr().to_bits(), p.addr_len()), &want))) }
                }
            }
        }
    });
    dom.set(&sp, "probe_states", json!(probes.len())); dom.set(&sp, "calls", json!(format!("{IT_OPS:?}")));
    dom.sample(&sp, || format!("{}: {} probe states x {} call sequences per iterator", dom.name, probes.len(), 1 + 8 + 64 + 512));
    dom.done(&sp, true, &format!("{} probe states x every iterator x all call sequences of length <= 3 over {} calls", probes.len(), IT_OPS.len()));
}

//------------ parameters of the call rather than of the value ----------------------------------------------

/// Display with width / alignment / fill / zero / alternate specs: the text, trimmed of the padding,
/// must still parse back to the value.
fn display_params(ctx: &Ctx, dom: &Dom, have: &[Option<Val>]) {
    let sp = dom.space(ctx, "display_params",
        "every state of the closure printed with the format specs {} (default), {:>3}, {:>48}, {:<48}, {:^48}, {:*^48}, {:048}, {:#}: after trimming the fill characters from both ends the text must parse back (FromStr of the same type) to the same stored blocks; non-trivial = specs other than the default on non-empty sets");
    let pfx = format!("C03.{}.display_params", dom.name);
    let states: Vec<u32> = (0..have.len() as u32).filter(|m| have[*m as usize].is_some()).collect();
    states.par_iter().for_each(|&m| {
        let v = have[m as usize].as_ref().unwrap();
        let want = &dom.canon[m as usize];
        macro_rules! specs { ($x:expr) => { [("{}", format!("{}", $x)), ("{:>3}", format!("{:>3}", $x)), ("{:>48}", format!("{:>48}", $x)), ("{:<48}", format!("{:<48}", $x)), ("{:^48}", format!("{:^48}", $x)), ("{:*^48}", format!("{:*^48}", $x)), ("{:048}", format!("{:048}", $x)), ("{:#}", format!("{:#}", $x))] } }
        let texts = match guard(|| match v { Val::As(b) => specs!(b), Val::Ip(b) => if dom.kind == Kind::V4 { specs!(Ipv4Blocks::from(b.clone())) } else { specs!(Ipv6Blocks::from(b.clone())) } }) {
            Ok(t) => t, Err(p) => { ctx.fail(&format!("{pfx}.panic"), format!("set={}", dom.show_mask(m)), p); return } };
        let plain = texts[0].1.clone();
        for (spec, t) in texts {
            sp.eval(); if spec != "{}" && m != 0 { sp.nontrivial(1) }
            let body = t.trim_matches(|c| c == ' ' || c == '*');
            // zero fill puts zeros in front; they are padding too unless the plain text starts with them
            let body = if spec == "{:048}" && !plain.starts_with('0') { body.trim_start_matches('0') } else { body };
            sp.outcome(if spec == "{}" { "default-spec" } else if body == plain { "padded-spec:same-text-after-trimming" } else { "padded-spec:other-text-after-trimming" });
            ctx.check(&format!("{pfx}.parse_back"), || format!("set={} spec={spec}", dom.show_mask(m)), || {
                let back = match (v, dom.kind) { (Val::As(_), _) => AsBlocks::from_str(body).map(Val::As).map_err(|e| e.to_string()),
                    (_, Kind::V4) => Ipv4Blocks::from_str(body).map(|x| Val::Ip((*x).clone())).map_err(|e| e.to_string()),
                    _ => Ipv6Blocks::from_str(body).map(|x| Val::Ip((*x).clone())).map_err(|e| e.to_string()) };
                match back { Ok(x) if same(&x, want) => Ok(()), Ok(x) => Err(format!("printed as {t:?}; that parses back as {}", dom.show_repr(&repr_of(&x)))), Err(e) => Err(format!("printed as {t:?}; that does not parse back: {e}")) } });
        }
    });
    dom.done(&sp, true, &format!("{} states x 8 format specs", states.len()));
}

//------------ BER-only spellings of the RFC 3779 bit strings ----------------------------------------

/// Zero-padded content of an IPAddress BIT STRING: the first `len` bits of a family-unit address.
struct Bits { bytes: Vec<u8>, unused: u8 }

fn bits_of(x: u128, len: u8, width: u32) -> Bits {
    let left = if width == 32 { x << 96 } else { x };
    let kept = if len == 0 { 0 } else { left & (u128::MAX << (128 - len as u32)) };
    let n = (len as usize).div_ceil(8);
    Bits { bytes: kept.to_be_bytes()[..n].to_vec(), unused: (n * 8 - len as usize) as u8 }
}

/// TLV with a chosen length form: 0 = minimal, 1 = `81 nn`, 2 = `82 00 nn`, 3 = indefinite (constructed only).
fn ber_tlv(tag: u8, content: &[u8], form: u8) -> Vec<u8> {
    let n = content.len();
    let mut out = vec![tag];
    match form {
        0 => out.extend(der::len_octets(n)),
        1 => { assert!(n < 256); out.extend([0x81, n as u8]) }
        2 => { assert!(n < 65536); out.extend([0x82, (n >> 8) as u8, n as u8]) }
        _ => { out.push(0x80); out.extend_from_slice(content); out.extend([0, 0]); return out }
    }
    out.extend_from_slice(content);
    out
}

/// One way to write a bit string down: the unused bits of the last octet := pattern, the
/// length form, and primitive / constructed with one / constructed with two segments.
#[derive(Clone, Copy, PartialEq, Eq)]
struct Spell { pattern: u8, form: u8, constructed: u8 }

const CANON: Spell = Spell { pattern: 0, form: 0, constructed: 0 };

fn spell_bits(b: &Bits, s: Spell) -> Vec<u8> {
    let mut bytes = b.bytes.clone();
    if let Some(l) = bytes.last_mut() { *l |= s.pattern }
    let prim = |unused: u8, by: &[u8], form: u8| { let mut c = vec![unused]; c.extend_from_slice(by); ber_tlv(der::T_BITSTR, &c, form) };
    match s.constructed {
        0 => prim(b.unused, &bytes, s.form),
        1 => ber_tlv(der::T_BITSTR | 0x20, &prim(b.unused, &bytes, 0), s.form),
        _ => { let k = bytes.len() - 1; let mut c = prim(0, &bytes[..k], 0); c.extend(prim(b.unused, &bytes[k..], 0)); ber_tlv(der::T_BITSTR | 0x20, &c, s.form) }
    }
}

fn ones(b: &Bits) -> u8 { if b.unused == 0 { 0 } else { (1u8 << b.unused) - 1 } }

/// All spellings of one bit string: every pattern of the unused bits, long length forms,
/// constructed forms (the latter with all-zero and all-one unused bits).
fn spellings(b: &Bits) -> Vec<Spell> {
    let top = ones(b);
    let mut v = vec![CANON];
    for p in 1..=top { v.push(Spell { pattern: p, form: 0, constructed: 0 }) }
    for form in [1, 2] { v.push(Spell { pattern: 0, form, constructed: 0 }); if top > 0 { v.push(Spell { pattern: top, form, constructed: 0 }) } }
    let segs: &[u8] = if b.bytes.len() >= 2 { &[1, 2] } else { &[1] };
    for &c in segs { for form in [0, 3] { v.push(Spell { pattern: 0, form, constructed: c }); if top > 0 { v.push(Spell { pattern: top, form, constructed: c }) } } }
    v
}

/// Every spelling of one alphabet block as an IPAddressOrRange item; `.1` = uses non-zero unused bits.
fn item_spellings(dom: &Dom, b: &ABlock) -> Vec<(Vec<u8>, bool)> {
    let w = dom.kind.width();
    let mut out = Vec::new();
    if let Some(l) = prefix_len(b.lo, b.hi, w) {
        let bits = bits_of(b.lo, l, w);
        for s in spellings(&bits) { out.push((spell_bits(&bits, s), s.pattern != 0)) }
    }
    let zeros = if b.lo == 0 { w } else { b.lo.trailing_zeros().min(w) };
    let tones = (!b.hi).trailing_zeros().min(w);
    let (mn, mx) = (bits_of(b.lo, (w - zeros) as u8, w), bits_of(b.hi, (w - tones) as u8, w));
    let pair = |a: Spell, c: Spell, form: u8| ber_tlv(der::T_SEQ, &der::cat(&[spell_bits(&mn, a), spell_bits(&mx, c)]), form);
    for s in spellings(&mn) { out.push((pair(s, CANON, 0), s.pattern != 0)) }
    for s in spellings(&mx) { if s != CANON { out.push((pair(CANON, s, 0), s.pattern != 0)) } }
    let both = (Spell { pattern: ones(&mn), form: 0, constructed: 0 }, Spell { pattern: ones(&mx), form: 0, constructed: 0 });
    for form in [0, 1, 2, 3] {
        if form != 0 { out.push((pair(CANON, CANON, form), false)) }
        if both.0.pattern != 0 || both.1.pattern != 0 { out.push((pair(both.0, both.1, form), true)) }
    }
    out
}

const BER_DECODERS: &[&str] = &["take_from_with_family", "take_from", "take_families_from"];

fn ber_decode(kind: Kind, dec: usize, mode: Mode, items_seq: &[u8], form: u8) -> Result<Val, String> {
    let fam = if kind == Kind::V4 { AddressFamily::Ipv4 } else { AddressFamily::Ipv6 };
    match dec {
        0 => mode.decode(items_seq, |c| IpBlocks::take_from_with_family(c, fam)).map(Val::Ip).map_err(|e| e.to_string()),
        1 => mode.decode(items_seq, |c| IpBlocks::take_from(c)).map(Val::Ip).map_err(|e| e.to_string()),
        _ => {
            let afi: [u8; 2] = if kind == Kind::V4 { [0, 1] } else { [0, 2] };
            let ext = ber_tlv(der::T_SEQ, &ber_tlv(der::T_SEQ, &der::cat(&[der::octets(&afi), items_seq.to_vec()]), form), form);
            let (v4, v6) = mode.decode(ext.as_slice(), |c| IpResources::take_families_from(c)).map_err(|e| e.to_string())?;
            let mine = if kind == Kind::V4 { v4 } else { v6 };
            mine.ok_or("family missing after decoding".to_string())?.to_blocks().map(Val::Ip).map_err(|e| e.to_string())
        }
    }
}

/// The decode-mode dimension: every alphabet block in every BER spelling of its bit strings,
/// alone and next to every other block, through the public decoders in BER and DER mode.
fn ber_spellings(ctx: &Ctx, dom: &Dom) {
    let sp = dom.space(ctx, "ber",
        "every proper alphabet block x every spelling of its IPAddress / IPAddressRange bit strings (unused bits of the last octet set to every pattern, for the prefix and for each range end; long and indefinite length forms of the bit string, the range and the enclosing sequences; constructed bit strings with one and two segments) x 3 public decoders x {BER, DER} mode, plus every ordered pair (block with all-one unused bits, other block) in BER mode; accepted => the stored value must be literally the model's representation of the zero-padded spelling, rejected => counted only; non-trivial = spellings that are not the DER spelling");
    let k = dom.kind;
    let proper: Vec<&ABlock> = dom.blocks.iter().filter(|b| !b.inverted).collect();
    let pfx = format!("C03.{}.ber", dom.name);
    let judge = |oc: &mut BTreeMap<&'static str, u64>, r: Result<Result<Val, String>, String>, want: u32, mode: Mode, dec: &str, octets: &[u8]| {
        let wit = || format!("octets={} mode={} decoder={dec}", rpki_verif::hex(octets), if mode == Mode::Ber { "ber" } else { "der" });
        match r {
            Err(p) => ctx.fail(&format!("{pfx}.{dec}.panic"), wit(), p),
            Ok(Err(_)) => { *oc.entry(if mode == Mode::Ber { "ber-mode:rejected" } else { "der-mode:rejected" }).or_insert(0) += 1; }
            Ok(Ok(v)) => {
                *oc.entry(if mode == Mode::Ber { "ber-mode:accepted" } else { "der-mode:accepted" }).or_insert(0) += 1;
                if !same(&v, &dom.canon[want as usize]) {
                    for (law, d) in analyze(dom, &repr_of(&v), want) { ctx.fail(&format!("{pfx}.{dec}.{law}"), wit(), d) }
                }
            }
        }
    };
    proper.par_iter().for_each(|b| {
        let mut oc: BTreeMap<&'static str, u64> = BTreeMap::new();
        let (mut evals, mut nontriv) = (0u64, 0u64);
        let items = item_spellings(dom, b);
        for (n, (item, patterned)) in items.iter().enumerate() {
            // the enclosing sequences in minimal form for every item, in every other form for the first (DER) item and the patterned ones
            let forms: &[u8] = if n == 0 || *patterned { &[0, 1, 2, 3] } else { &[0] };
            for &form in forms {
                let seq = ber_tlv(der::T_SEQ, item, form);
                if !(n == 0 && form == 0) { nontriv += 1 }
                for (dec, dname) in BER_DECODERS.iter().enumerate() {
                    for mode in [Mode::Ber, Mode::Der] {
                        evals += 1;
                        judge(&mut oc, guard(|| ber_decode(k, dec, mode, &seq, form)), b.mask, mode, dname, &seq);
                    }
                }
            }
            if *patterned {
                for o in &proper {
                    for first in [true, false] {
                        let other = if prefix_len(o.lo, o.hi, k.width()).is_some() { &o.der_a } else { &o.der_b };
                        let seq = if first { der::seq(&[item.clone(), other.clone()]) } else { der::seq(&[other.clone(), item.clone()]) };
                        evals += 1; nontriv += 1;
                        judge(&mut oc, guard(|| ber_decode(k, 0, Mode::Ber, &seq, 0)), b.mask | o.mask, Mode::Ber, BER_DECODERS[0], &seq);
                    }
                }
            }
        }
        sp.evals(evals); sp.nontrivial(nontriv); sp.merge_outcomes(&oc);
    });
    dom.set(&sp, "blocks", json!(proper.len()));
    dom.set(&sp, "decoders", json!(BER_DECODERS));
    dom.sample(&sp, || { let b = proper.iter().find(|b| prefix_len(b.lo, b.hi, k.width()).map(|l| l % 8 != 0).unwrap_or(false)).unwrap_or(&proper[0]);
        let it = item_spellings(dom, b); format!("{}: block {} has {} spellings, e.g. {}", dom.name, b.txt_a, it.len(), it.iter().filter(|x| x.1).take(2).map(|x| rpki_verif::hex(&x.0)).collect::<Vec<_>>().join(" ")) });
    dom.done(&sp, true, &format!("all spellings of all {} proper blocks x {} decoders x 2 modes + all ordered pairs with a patterned block", proper.len(), BER_DECODERS.len()));
}

/// `Prefix::from_bit_string` / `Prefix::take_from` on hand-built bit strings of every length.
fn bit_strings(ctx: &Ctx) {
    let sp = ctx.space("bitstring",
        "Prefix from bit strings: octet count 0..=16 x leading octets {00, ff, a5} x every value of the last octet x every count of unused bits 0..=7, through Prefix::from_bit_string(BitString::new(..)) and through Prefix::take_from on the encoded TLV in BER and DER mode; model: length = 8n - unused, address = the octets left-aligned with the unused bits cleared; non-trivial = bit strings whose unused bits are not all zero");
    let cases: Vec<(usize, u8)> = (0..=16usize).flat_map(|n| [0x00u8, 0xff, 0xa5].into_iter().map(move |f| (n, f))).collect();
    cases.par_iter().for_each(|&(n, fill)| {
        let mut oc: BTreeMap<&'static str, u64> = BTreeMap::new();
        let (mut evals, mut nontriv) = (0u64, 0u64);
        for last in 0..=255u8 { for unused in 0..=7u8 {
            if n == 0 && (last != 0 || unused != 0 || fill != 0) { continue }
            let mut bytes = vec![fill; n]; if n > 0 { bytes[n - 1] = last }
            let len = (8 * n) as u8 - unused;
            let mut a = [0u8; 16]; a[..n].copy_from_slice(&bytes);
            let raw = u128::from_be_bytes(a);
            let want = if len == 0 { 0 } else { raw & (u128::MAX << (128 - len as u32)) };
            let host = if len == 128 { 0 } else { u128::MAX >> len };
            let dirty = raw != want;
            if dirty { nontriv += 1 }
            let wit = |how: &str| format!("unused={unused} octets={} via={how}", rpki_verif::hex(&bytes));
            let verify = |p: Prefix| -> Result<(), String> {
                let ok = p.addr_len() == len && p.min().to_bits() == want && p.addr().to_bits() == want && p.max().to_bits() == want | host
                    && p.range() == (addr(want), addr(want | host)) && p == Prefix::new(addr(want), len);
                if ok { Ok(()) } else { Err(format!("decoded as {:#x}/{} covering {:#x}-{:#x}; expected {:#x}/{}", p.addr().to_bits(), p.addr_len(), p.min().to_bits(), p.max().to_bits(), want, len)) }
            };
            evals += 1;
            match guard(|| Prefix::from_bit_string(&BitString::new(unused, Bytes::from(bytes.clone())))) {
                Err(p) => ctx.fail("C03.bitstring.from_bit_string.panic", wit("from_bit_string"), p),
                Ok(Err(e)) => ctx.fail("C03.bitstring.from_bit_string.accept", wit("from_bit_string"), format!("a bit string of at most 128 bits was refused: {e}")),
                Ok(Ok(p)) => { *oc.entry(if dirty { "hand-built:unused-bits-set" } else { "hand-built:unused-bits-zero" }).or_insert(0) += 1;
                    if let Err(d) = verify(p) { ctx.fail("C03.bitstring.from_bit_string.set", wit("from_bit_string"), d) } }
            }
            let mut content = vec![unused]; content.extend_from_slice(&bytes);
            let tlv = der::tlv(der::T_BITSTR, &content);
            for mode in [Mode::Ber, Mode::Der] {
                evals += 1;
                let how = if mode == Mode::Ber { "take_from/ber" } else { "take_from/der" };
                match guard(|| mode.decode(tlv.as_slice(), |c| Prefix::take_from(c))) {
                    Err(p) => ctx.fail("C03.bitstring.take_from.panic", wit(how), p),
                    Ok(Err(e)) => { if dirty { *oc.entry(if mode == Mode::Ber { "ber-mode:rejected" } else { "der-mode:rejected" }).or_insert(0) += 1 }
                        else { ctx.fail("C03.bitstring.take_from.accept", wit(how), format!("a DER bit string of at most 128 bits was refused: {e}")) } }
                    Ok(Ok(p)) => { *oc.entry(if mode == Mode::Ber { "ber-mode:accepted" } else { "der-mode:accepted" }).or_insert(0) += 1;
                        if let Err(d) = verify(p) { ctx.fail("C03.bitstring.take_from.set", wit(how), d) } }
                }
            }
        } }
        sp.evals(evals); sp.nontrivial(nontriv); sp.merge_outcomes(&oc);
    });
    sp.sample_str(|| "03 02 01 0b = 10.0.0.0/7 written with its unused bit set".to_string());
    sp.done(true, "all octet counts 0..=16 x 3 fills x 256 last octets x 8 unused-bit counts x 3 entry points");
}

//------------ the scale dimension: sets of many blocks ------------------------------------------------

/// Interval model for sets too large for a bitmask: sorted, disjoint, non-adjacent family-unit ranges.
type Iv = Vec<(u128, u128)>;

fn iv_norm(mut v: Iv) -> Iv {
    v.sort();
    let mut out: Iv = Vec::new();
    for (a, b) in v {
        if let Some(l) = out.last_mut() { if a <= l.1 || l.1.checked_add(1) == Some(a) { if b > l.1 { l.1 = b } continue } }
        out.push((a, b));
    }
    out
}
fn iv_compl(a: &Iv, max: u128) -> Iv {
    let mut out = Vec::new(); let mut next = Some(0u128);
    for &(lo, hi) in a { if let Some(n) = next { if lo > n { out.push((n, lo - 1)) } } next = if hi == max { None } else { Some(hi + 1) } }
    if let Some(n) = next { out.push((n, max)) }
    out
}
fn iv_inter(a: &Iv, b: &Iv) -> Iv {
    let (mut i, mut j, mut out) = (0, 0, Vec::new());
    while i < a.len() && j < b.len() {
        let (lo, hi) = (a[i].0.max(b[j].0), a[i].1.min(b[j].1));
        if lo <= hi { out.push((lo, hi)) }
        if a[i].1 < b[j].1 { i += 1 } else { j += 1 }
    }
    out
}
fn iv_union(a: &Iv, b: &Iv) -> Iv { let mut v = a.clone(); v.extend_from_slice(b); iv_norm(v) }
fn iv_diff(a: &Iv, b: &Iv, max: u128) -> Iv { iv_inter(a, &iv_compl(b, max)) }
/// The interval that contains x, if any.
fn iv_find(a: &Iv, x: u128) -> Option<usize> { a.iter().position(|r| r.0 <= x && x <= r.1) }
fn iv_covers(a: &Iv, lo: u128, hi: u128) -> bool { a.iter().any(|r| r.0 <= lo && hi <= r.1) }
fn iv_meets(a: &Iv, lo: u128, hi: u128) -> bool { a.iter().any(|r| r.0 <= hi && lo <= r.1) }
fn iv_subset(a: &Iv, b: &Iv) -> bool { a.iter().all(|r| iv_covers(b, r.0, r.1)) }

fn iv_repr(kind: Kind, a: &Iv) -> Repr {
    a.iter().map(|&(lo, hi)| match kind {
        Kind::As => Blk { var: if lo == hi { 0 } else { 1 }, min: lo, max: hi, len: 0 },
        k => match prefix_len(lo, hi, k.width()) {
            Some(l) => Blk { var: 0, min: k.lib_min(lo), max: k.lib_max(hi), len: l },
            None => Blk { var: 1, min: k.lib_min(lo), max: k.lib_max(hi), len: 0 },
        },
    }).collect()
}

/// The canonical text of an interval set (single item, prefix where it is one, else a range).
fn iv_txt(kind: Kind, a: &Iv) -> String {
    a.iter().map(|&(lo, hi)| match kind {
        Kind::As => if lo == hi { format!("AS{lo}") } else { format!("AS{lo}-AS{hi}") },
        k => if lo == hi { kind_addr_txt(k, lo) } else if let Some(l) = prefix_len(lo, hi, k.width()) { format!("{}/{}", kind_addr_txt(k, lo), l) } else { format!("{}-{}", kind_addr_txt(k, lo), kind_addr_txt(k, hi)) },
    }).collect::<Vec<_>>().join(", ")
}

fn kind_addr_txt(kind: Kind, x: u128) -> String { match kind { Kind::As => format!("AS{x}"), Kind::V4 => v4_txt(x), Kind::V6 => Ipv6Addr::from(x).to_string() } }
fn kind_block_txt(kind: Kind, lo: u128, hi: u128) -> String { if lo == hi { kind_addr_txt(kind, lo) } else { format!("{}-{}", kind_addr_txt(kind, lo), kind_addr_txt(kind, hi)) } }

const FAMILIES: &[&str] = &["singles", "aligned-pairs", "triples", "irregular", "irregular-at-top", "thinned-singles", "aligned-256", "grid-singles", "grid-pairs", "grid-ones"];

/// The step of the value-pattern families: 2^96 (IPv4-shaped values) for IPv6, 2^16 for IPv4 and AS.
fn grid_step(kind: Kind) -> u128 { if kind == Kind::V6 { 1 << 96 } else { 1 << 16 } }

/// The i-th structured family with n blocks (all disjoint and non-adjacent by construction):
/// singles {2i}; aligned-pairs [4i,4i+1]; triples [4i+1,4i+3]; irregular: from 5, width 1+(i%3)+(i%2),
/// gap 1+(7i%5); irregular-at-top: the same from 0, mirrored so that it ends at MAX; thinned-singles:
/// the singles with every third one missing; aligned-256 [256i, 256i+127]; grid-singles {(i+1)S};
/// grid-pairs [4iS, (4i+1)S]; grid-ones [(4i+1)S-1, (4i+2)S-1] with S = 2^96 (IPv6) resp. 2^16.
fn family(kind: Kind, f: usize, n: usize) -> Iv {
    let n = n as u128;
    let irregular = |start: u128| { let mut v = Vec::new(); let mut c = start; for i in 0..n { let w = 1 + (i % 3) + (i % 2); v.push((c, c + w - 1)); c += w + 1 + (7 * i % 5) } v };
    match f {
        0 => (0..n).map(|i| (2 * i, 2 * i)).collect(),
        1 => (0..n).map(|i| (4 * i, 4 * i + 1)).collect(),
        2 => (0..n).map(|i| (4 * i + 1, 4 * i + 3)).collect(),
        3 => irregular(5),
        4 => { let m = kind.fam_max(); let mut v: Iv = irregular(0).into_iter().map(|(a, b)| (m - b, m - a)).collect(); v.reverse(); v }
        5 => (0..n).map(|i| { let j = i + i / 2; (2 * j, 2 * j) }).collect(),
        6 => (0..n).map(|i| (256 * i, 256 * i + 127)).collect(),
        // the value patterns, S = grid_step: single multiples of S; ranges whose two bounds are both
        // multiples of S; ranges whose two bounds are both one below a multiple of S
        7 => { let s = grid_step(kind); (0..n).map(|i| ((i + 1) * s, (i + 1) * s)).collect() }
        8 => { let s = grid_step(kind); (0..n).map(|i| (4 * i * s, (4 * i + 1) * s)).collect() }
        _ => { let s = grid_step(kind); (0..n).map(|i| ((4 * i + 1) * s - 1, (4 * i + 2) * s - 1)).collect() }
    }
}

fn block_counts() -> Vec<usize> { let mut v: Vec<usize> = (0..=40).collect(); v.extend([63, 64, 65, 127, 128, 129, 255, 256, 257, 1023, 1024, 1025]); v }

fn val_from_iv(kind: Kind, it: impl Iterator<Item = (u128, u128)>) -> Val {
    match kind {
        Kind::As => Val::As(it.map(|(a, b)| AsBlock::from((asn(a), asn(b)))).collect()),
        k => Val::Ip(it.map(|(a, b)| IpBlock::from(AddressRange::new(addr(k.lib_min(a)), addr(k.lib_max(b))))).collect()),
    }
}

const SCALE_PATHS: &[&str] = &["from_iter_sorted", "from_iter_reversed", "from_iter_interleaved", "text", "der"];

fn scale_build(kind: Kind, path: usize, iv: &Iv) -> Result<Val, String> {
    match path {
        0 => Ok(val_from_iv(kind, iv.iter().copied())),
        1 => Ok(val_from_iv(kind, iv.iter().rev().copied())),
        2 => Ok(val_from_iv(kind, iv.iter().step_by(2).chain(iv.iter().skip(1).step_by(2)).copied())),
        3 => {
            let t = iv.iter().map(|&(a, b)| kind_block_txt(kind, a, b)).collect::<Vec<_>>().join(", ");
            match kind {
                Kind::As => AsBlocks::from_str(&t).map(Val::As).map_err(|e| e.to_string()),
                Kind::V4 => Ipv4Blocks::from_str(&t).map(|x| Val::Ip((*x).clone())).map_err(|e| e.to_string()),
                Kind::V6 => Ipv6Blocks::from_str(&t).map(|x| Val::Ip((*x).clone())).map_err(|e| e.to_string()),
            }
        }
        _ => {
            let items: Vec<Vec<u8>> = iv.iter().map(|&(a, b)| match kind {
                Kind::As => if a == b { der::int_u(a) } else { der::seq(&[der::int_u(a), der::int_u(b)]) },
                k => match prefix_len(a, b, k.width()) { Some(l) => der::ip_prefix_bits(a, l, k.width() as u8), None => der::ip_range(a, b, k.width() as u8) },
            }).collect();
            let bytes = der::seq(&items);
            match kind {
                Kind::As => Mode::Der.decode(bytes.as_slice(), |c| AsBlocks::take_from(c)).map(Val::As).map_err(|e| e.to_string()),
                k => Mode::Der.decode(bytes.as_slice(), |c| IpBlocks::take_from_with_family(c, if k == Kind::V4 { AddressFamily::Ipv4 } else { AddressFamily::Ipv6 })).map(Val::Ip).map_err(|e| e.to_string()),
            }
        }
    }
}

/// Sets with 0..=40, 63..65, 127..129, 255..257 and 1023..1025 blocks from seven structured families:
/// construction, every per-item / per-block query at and around every block, round trips, and the
/// set operations between the families -- against the interval model.
fn scale(ctx: &Ctx, kind: Kind, name: &str) {
    let counts = block_counts();
    let max = kind.fam_max();
    let sp = ctx.space(&format!("{name}.scale.sets"),
        "number of blocks n in 0..=40, 63..65, 127..129, 255..257, 1023..1025 (all in both tiers) x 10 structured families (singles {2i}; aligned pairs [4i,4i+1]; triples [4i+1,4i+3]; irregular widths 1+(i%3)+(i%2) and gaps 1+(7i%5) from 5; the same mirrored so that it ends at MAX; singles with every third missing; aligned [256i,256i+127]; and on the grid S = 2^96 (IPv6: IPv4-shaped values) resp. 2^16 (IPv4, AS): single multiples {(i+1)S}, ranges between two multiples [4iS,(4i+1)S], ranges between two values one below a multiple [(4i+1)S-1,(4i+2)S-1]) x construction (FromIterator sorted / reversed / evens-then-odds, FromStr, DER from the independent encoder) compared literally with the interval model's canonical blocks; then, on every set: membership at the first, last and middle number of every block, one below and above it, the middle of every gap, 0 and MAX (contains_asn, ResourceSet::contains_asn, contains of a one-number set; contains_block / intersects_block / contains_roa / contains_roa_address of the single address); per block: the block itself, the block widened by one, the gap after it, the bridge to the next block (contains_block, intersects_block, contains; contains_roa of the block's prefix and its parent); iter_asns compared item by item; range-to-prefix decomposition of every stored block; Display->FromStr and DER round trips; non-trivial = probes on sets of 17 or more blocks");
    let work: Vec<(usize, usize)> = counts.iter().flat_map(|&n| (0..FAMILIES.len()).map(move |f| (n, f))).collect();
    let pfx = format!("C03.{name}.scale");
    let values: Vec<Option<(Iv, Val)>> = work.par_iter().map(|&(n, f)| {
        let iv = family(kind, f, n);
        debug_assert_eq!(iv_norm(iv.clone()), iv);
        let want = iv_repr(kind, &iv);
        let id = format!("family={} blocks={n}", FAMILIES[f]);
        let mut oc: BTreeMap<&'static str, u64> = BTreeMap::new();
        let (mut evals, mut nontriv) = (0u64, 0u64);
        let big = n >= 17;
        // construction
        let mut value: Option<Val> = None;
        for (p, pname) in SCALE_PATHS.iter().enumerate() {
            evals += 1;
            match guard(|| scale_build(kind, p, &iv)) {
                Err(pn) => ctx.fail(&format!("{pfx}.construct.{pname}.panic"), id.clone(), pn),
                Ok(Err(e)) => ctx.fail(&format!("{pfx}.construct.{pname}.accept"), id.clone(), format!("well-formed blocks rejected: {e}")),
                Ok(Ok(v)) => {
                    if same(&v, &want) { *oc.entry("constructed-canonical").or_insert(0) += 1; if value.is_none() { value = Some(v) } }
                    else {
                        *oc.entry("constructed-wrong").or_insert(0) += 1;
                        let r = repr_of(&v);
                        let law = if denoted(&r) != want.iter().map(|b| (b.min, b.max)).collect::<Vec<_>>() { "set" } else { "canonical" };
                        ctx.fail(&format!("{pfx}.construct.{pname}.{law}"), id.clone(), format!("stored {} blocks, first difference at block {}", r.len(), r.iter().zip(want.iter()).position(|(a, b)| a != b).unwrap_or(r.len().min(want.len()))));
                    }
                }
            }
        }
        let Some(v) = value else { sp.evals(evals); sp.merge_outcomes(&oc); return None };
        // probes
        let mut pts: Vec<u128> = vec![0, max];
        for (i, &(lo, hi)) in iv.iter().enumerate() {
            pts.extend([lo, hi, lo + (hi - lo) / 2]);
            if lo > 0 { pts.push(lo - 1) } if hi < max { pts.push(hi + 1) }
            if let Some(nx) = iv.get(i + 1) { pts.push(hi + (nx.0 - hi) / 2) }
        }
        pts.sort(); pts.dedup();
        for &x in &pts {
            let inside = iv_find(&iv, x).is_some();
            evals += 1; if big { nontriv += 1 }
            *oc.entry(if inside { "member" } else { "non-member" }).or_insert(0) += 1;
            let w = || format!("{id} item={}", kind_addr_txt(kind, x));
            match &v {
                Val::As(b) => {
                    ctx.check(&format!("{pfx}.contains_asn"), w, || { let g = b.contains_asn(asn(x)); if g == inside { Ok(()) } else { Err(format!("contains_asn returned {g}")) } });
                    ctx.check(&format!("{pfx}.resource_set_contains_asn"), w, || { let g = ResourceSet::new(b.clone(), Ipv4Blocks::empty(), Ipv6Blocks::empty()).contains_asn(asn(x)); if g == inside { Ok(()) } else { Err(format!("ResourceSet::contains_asn returned {g}")) } });
                    ctx.check(&format!("{pfx}.contains_one"), w, || { let o: AsBlocks = [AsBlock::from(asn(x))].into_iter().collect(); let g = b.contains(&o); if g == inside { Ok(()) } else { Err(format!("contains of the one-number set returned {g}")) } });
                }
                Val::Ip(b) => {
                    let (lo, hi) = (addr(kind.lib_min(x)), addr(kind.lib_max(x)));
                    ctx.check(&format!("{pfx}.contains_block"), w, || { let g = b.contains_block((lo, hi)); if g == inside { Ok(()) } else { Err(format!("contains_block(single address) returned {g}")) } });
                    ctx.check(&format!("{pfx}.intersects_block"), w, || { let g = b.intersects_block((lo, hi)); if g == inside { Ok(()) } else { Err(format!("intersects_block(single address) returned {g}")) } });
                    ctx.check(&format!("{pfx}.contains_roa"), w, || {
                        let roa = RoaIpAddress::new(Prefix::new(lo, kind.width() as u8), None);
                        let g = b.contains_roa(&roa);
                        let rs = if kind == Kind::V4 { ResourceSet::new(AsBlocks::empty(), b.clone().into(), Ipv6Blocks::empty()) } else { ResourceSet::new(AsBlocks::empty(), Ipv4Blocks::empty(), b.clone().into()) };
                        let g2 = rs.contains_roa_address(&roa);
                        if g == inside && g2 == inside { Ok(()) } else { Err(format!("contains_roa returned {g}, ResourceSet::contains_roa_address {g2}")) } });
                }
            }
        }
        // blocks around every block
        for (i, &(lo, hi)) in iv.iter().enumerate() {
            let mut qs: Vec<(u128, u128)> = vec![(lo, hi)];
            if lo > 0 { qs.push((lo - 1, hi)) } if hi < max { qs.push((lo, hi + 1)) }
            if let Some(nx) = iv.get(i + 1) { qs.push((hi + 1, nx.0 - 1)); qs.push((hi, nx.0)) }
            for (a, c) in qs {
                let (cov, meets) = (iv_covers(&iv, a, c), iv_meets(&iv, a, c));
                evals += 1; if big { nontriv += 1 }
                *oc.entry(if cov { "block-inside" } else if meets { "block-partly-inside" } else { "block-outside" }).or_insert(0) += 1;
                let w = || format!("{id} block={}", kind_block_txt(kind, a, c));
                match &v {
                    Val::As(b) => { ctx.check(&format!("{pfx}.contains_blocks_of_one"), w, || { let o: AsBlocks = [AsBlock::from((asn(a), asn(c)))].into_iter().collect(); let g = b.contains(&o); if g == cov { Ok(()) } else { Err(format!("contains returned {g}")) } }); }
                    Val::Ip(b) => {
                        let (l, h) = (addr(kind.lib_min(a)), addr(kind.lib_max(c)));
                        ctx.check(&format!("{pfx}.contains_block"), w, || { let g = b.contains_block((l, h)); if g == cov { Ok(()) } else { Err(format!("contains_block returned {g}")) } });
                        ctx.check(&format!("{pfx}.intersects_block"), w, || { let g = b.intersects_block((l, h)); if g == meets { Ok(()) } else { Err(format!("intersects_block returned {g}")) } });
                    }
                }
            }
            if let (Val::Ip(b), Some(l)) = (&v, prefix_len(lo, hi, kind.width())) {
                for len in [l, l.saturating_sub(1)] {
                    evals += 1;
                    let keep = (if len == 0 { 0 } else { u128::MAX << (kind.width() - len as u32) }) & max;
                    let host = if len as u32 == kind.width() { 0 } else { max >> len };
                    let (a, c) = (lo & keep, (lo & keep) | host);
                    let cov = iv_covers(&iv, a, c);
                    ctx.check(&format!("{pfx}.contains_roa"), || format!("{id} prefix={}/{len}", kind_addr_txt(kind, a)), || { let g = b.contains_roa(&RoaIpAddress::new(Prefix::new(addr(kind.lib_min(a)), len), None)); if g == cov { Ok(()) } else { Err(format!("contains_roa returned {g}")) } });
                }
            }
        }
        // iteration, prefix decomposition, round trips
        evals += 3;
        match &v {
            Val::As(b) => {
                ctx.check(&format!("{pfx}.iter_asns"), || id.clone(), || {
                    let total: u128 = iv.iter().map(|r| r.1 - r.0 + 1).sum();
                    if total <= u32::MAX as u128 && b.asn_count() as u128 != total { return Err(format!("asn_count returned {}, the set has {total} members", b.asn_count())) }
                    // item by item up to 2^21 members (the grid families with many blocks have more; their blocks are iterated in as.scale.iteration)
                    if total > 1 << 21 { return Ok(()) }
                    let mut model = iv.iter().flat_map(|&(a, c)| (a as u32)..=(c as u32));
                    let mut k = 0u64;
                    for got in b.iter_asns() { match model.next() { Some(w) if w == got.into_u32() => k += 1, other => return Err(format!("item {k} is {got}, the model has {other:?}")) } }
                    if let Some(w) = model.next() { return Err(format!("iter_asns ends after {k} items, the model continues with AS{w}")) }
                    Ok(()) });
            }
            Val::Ip(b) => {
                ctx.check(&format!("{pfx}.to_prefixes"), || id.clone(), || { for blk in b.iter() { let (a, c) = (blk.min().to_bits(), blk.max().to_bits()); check_prefixes(kind, a, c, &to_prefixes(kind, a, c)).map_err(|e| format!("block {a:#x}-{c:#x}: {e}"))? } Ok(()) });
            }
        }
        ctx.check(&format!("{pfx}.display_fromstr"), || id.clone(), || {
            let back = match &v { Val::As(b) => AsBlocks::from_str(&b.to_string()).map(Val::As).map_err(|e| e.to_string()),
                Val::Ip(b) => if kind == Kind::V4 { Ipv4Blocks::from_str(&Ipv4Blocks::from(b.clone()).to_string()).map(|x| Val::Ip((*x).clone())).map_err(|e| e.to_string()) } else { Ipv6Blocks::from_str(&Ipv6Blocks::from(b.clone()).to_string()).map(|x| Val::Ip((*x).clone())).map_err(|e| e.to_string()) } }?;
            if same(&back, &want) && val_eq(&back, &v) { Ok(()) } else { Err("the printed form parses back as another value".into()) } });
        ctx.check(&format!("{pfx}.der"), || id.clone(), || {
            let back = match &v { Val::As(b) => Mode::Der.decode(encode::sequence(b.encode_ref()).to_captured(Mode::Der).as_slice(), |c| AsBlocks::take_from(c)).map(Val::As).map_err(|e| e.to_string()),
                Val::Ip(b) => Mode::Der.decode(b.encode_ref().to_captured(Mode::Der).as_slice(), |c| IpBlocks::take_from(c)).map(Val::Ip).map_err(|e| e.to_string()) }?;
            if same(&back, &want) && val_eq(&back, &v) { Ok(()) } else { Err("the encoded form decodes as another value".into()) } });
        sp.evals(evals); sp.nontrivial(nontriv); sp.merge_outcomes(&oc);
        Some((iv, v))
    }).collect();
    sp.set("block_counts", json!(counts)); sp.set("families", json!(FAMILIES)); sp.set("paths", json!(SCALE_PATHS));
    sp.sample_str(|| format!("{name}: irregular family with 5 blocks = {:?}", family(kind, 3, 5)));
    sp.done(true, &format!("{} block counts x {} families x {} construction paths + all probes", counts.len(), FAMILIES.len(), SCALE_PATHS.len()));

    // operations between the families of one block count
    let sp = ctx.space(&format!("{name}.scale.ops"),
        "for every block count (as above) every ordered pair of the 10 structured families of that count: union, intersection, difference, intersection_assign, verify_issued(refuse), verify_issued(trim), RequestResourceLimit::apply_to, == and contains, each result compared literally with the interval model; where b is not contained in a, the refusals of a.verify_issued(b) and b.verify_covered(a) must name exactly b minus a (see the refusal spaces); non-trivial = pairs of different families with 17 or more blocks");
    let nf = FAMILIES.len();
    let pairs: Vec<(usize, usize, usize)> = (0..counts.len()).flat_map(|c| (0..nf * nf).map(move |p| (c, p / nf, p % nf))).collect();
    let pfx = format!("C03.{name}.scale.ops");
    pairs.par_iter().for_each(|&(c, f, g)| {
        let (Some((ia, a)), Some((ib, b))) = (values[c * nf + f].as_ref(), values[c * nf + g].as_ref()) else { return };
        let n = counts[c];
        let mut oc: BTreeMap<&'static str, u64> = BTreeMap::new();
        let wit = |op: &str| format!("op={op} a=(family={} blocks={n}) b=(family={} blocks={n})", FAMILIES[f], FAMILIES[g]);
        let sub = iv_subset(ib, ia);
        for (op, opname) in OPS.iter().enumerate() {
            let want: Option<Iv> = match op { 0 => Some(iv_union(ia, ib)), 1 | 3 | 5 | 7 | 8 => Some(iv_inter(ia, ib)), 2 => Some(iv_diff(ia, ib, max)), _ => if sub { Some(ib.clone()) } else { None } };
            match guard(|| apply_op(kind, op, a, b)) {
                Err(p) => ctx.fail(&format!("{pfx}.{opname}.panic"), wit(opname), p),
                Ok(got) => match (got, want) {
                    (None, None) => { *oc.entry("refused").or_insert(0) += 1; }
                    (Some(v), Some(w)) => {
                        let wr = iv_repr(kind, &w);
                        if same(&v, &wr) { *oc.entry(if w.is_empty() { "result-empty" } else { "result-nonempty" }).or_insert(0) += 1;
                            match guard(|| observe(kind, &v, w.is_empty(), None)) { Ok(Ok(())) => {} Ok(Err(d)) | Err(d) => ctx.fail(&format!("{pfx}.{opname}.observers"), wit(opname), d) } }
                        else { let r = repr_of(&v); ctx.fail(&format!("{pfx}.{opname}.{}", if denoted(&r) != wr.iter().map(|b| (b.min, b.max)).collect::<Vec<_>>() { "set" } else { "canonical" }), wit(opname),
                            format!("result has {} blocks, the model {}; first difference at block {}", r.len(), wr.len(), r.iter().zip(wr.iter()).position(|(x, y)| x != y).unwrap_or(r.len().min(wr.len())))) }
                    }
                    (Some(_), None) => ctx.fail(&format!("{pfx}.{opname}.refuse"), wit(opname), "b is not contained in a, yet the operation returned a value".to_string()),
                    (None, Some(_)) => ctx.fail(&format!("{pfx}.{opname}.accept"), wit(opname), "b is contained in a, yet the operation refused".to_string()),
                },
            }
        }
        if !sub {
            let over = iv_diff(ib, ia, max);
            let (want_txt, want) = (iv_txt(kind, &over), iv_repr(kind, &over));
            match guard(|| refuse_pair(kind, a, b)) {
                Err(p) => ctx.fail(&format!("{pfx}.refusal.panic"), wit("refusal"), p),
                Ok(r) => {
                    let texts = [("verify_issued", r.issued.err()), ("verify_covered", r.covered.err())];
                    for (via, t) in &texts { match t {
                        None => ctx.fail(&format!("{pfx}.refusal.{via}.verdict"), wit(via), "accepted although b is not contained in a".to_string()),
                        Some(t) => match judge_named(kind, &t.0, &want_txt, &want) {
                            Ok(_) => { *oc.entry("refusal-names-b-minus-a").or_insert(0) += 1; }
                            Err(_) => ctx.fail(&format!("{pfx}.refusal.{via}.names"), wit(via), format!("the refusal names {} where the model has the {} blocks of b minus a starting {}", rpki_verif::trunc(&t.0, 120), over.len(), rpki_verif::trunc(&want_txt, 80))),
                        },
                    } }
                    if let (Some(x), Some(y)) = (&texts[0].1, &texts[1].1) { if x.0 != y.0 { ctx.fail(&format!("{pfx}.refusal.entry_points_agree"), wit("refusal"), "verify_issued and verify_covered word the refusal differently".to_string()) } }
                }
            }
        }
        match guard(|| (val_eq(a, b), val_contains(a, b))) {
            Err(p) => ctx.fail(&format!("{pfx}.pair_query.panic"), wit("eq/contains"), p),
            Ok((e, cn)) => {
                if e != (ia == ib) { ctx.fail(&format!("{pfx}.eq"), wit("=="), format!("== returned {e}")) }
                if cn != sub { ctx.fail(&format!("{pfx}.contains"), wit("contains"), format!("a.contains(b) returned {cn}")) }
            }
        }
        sp.evals(OPS.len() as u64 + 2 + if sub { 0 } else { 2 }); if f != g && n >= 17 { sp.nontrivial(1) } sp.merge_outcomes(&oc);
    });
    sp.done(true, &format!("{} block counts x {} ordered pairs of families x {} operations", counts.len(), nf * nf, OPS.len() + 2));
}

/// AS block iteration at power-of-two item counts, and (thorough) the whole number space.
fn as_iteration(ctx: &Ctx) {
    let sp = ctx.space("as.scale.iteration",
        "AS blocks with 2^k-1, 2^k, 2^k+1 numbers for k in 0..=20, placed at AS0, AS1, AS12345, ending at MAX-1 and ending at MAX: AsBlock::iter() and AsBlocks::iter_asns() run to the end -- every item, the count, the last item, and the Iterator::size_hint contract (lower <= remaining <= upper) before and half way; size_hint against the model count (no iteration) also for AS0-MAX, AS1-MAX, AS0-MAX-1; THOROUGH ONLY: those three blocks iterated to the end (2^32 steps each; the iterator has no O(1) skip, so quick cannot reach their last item); non-trivial = blocks of more than one number");
    let max = u32::MAX as u64;
    let mut blocks: Vec<(u64, u64)> = Vec::new();
    for k in 0..=20u32 { for c in [(1u64 << k) - 1, 1 << k, (1 << k) + 1] { if c == 0 { continue }
        for lo in [0u64, 1, 12345] { blocks.push((lo, lo + c - 1)) }
        blocks.push((max - c, max - 1)); blocks.push((max + 1 - c, max));
    } }
    blocks.sort(); blocks.dedup();
    let hint_ok = |h: (usize, Option<usize>), remaining: u64| (h.0 as u64) <= remaining && h.1.map(|u| u as u64 >= remaining).unwrap_or(true);
    let run = |lo: u64, hi: u64, via_blocks: bool| -> Result<(), String> {
        let count = hi - lo + 1;
        let blk = AsBlock::from((asn(lo as u128), asn(hi as u128)));
        let set: AsBlocks = [blk].into_iter().collect();
        let mut it: Box<dyn Iterator<Item = Asn>> = if via_blocks { Box::new(set.iter_asns()) } else { Box::new(blk.iter()) };
        let h = it.size_hint();
        if !hint_ok(h, count) { return Err(format!("size_hint {h:?} at the start, {count} items remain")) }
        let mut k = 0u64; let mut last = None;
        while let Some(x) = it.next() {
            if x.into_u32() as u64 != lo + k { return Err(format!("item {k} is {x}, expected AS{}", lo + k)) }
            k += 1; last = Some(x.into_u32() as u64);
            if k > count { return Err(format!("more than {count} items")) }
            if k == count / 2 { let h = it.size_hint(); if !hint_ok(h, count - k) { return Err(format!("size_hint {h:?} after {k} items, {} remain", count - k)) } }
        }
        if k != count || last != Some(hi) { return Err(format!("{k} items ending at {last:?}; expected {count} items ending at AS{hi}")) }
        if it.next().is_some() { return Err("an item after the end".into()) }
        Ok(())
    };
    blocks.par_iter().for_each(|&(lo, hi)| {
        for via in [false, true] {
            sp.eval(); if hi > lo { sp.nontrivial(1) }
            ctx.check(if via { "C03.as.scale.iter_asns" } else { "C03.as.scale.block_iter" }, || format!("block=AS{lo}-AS{hi}"), || run(lo, hi, via));
        }
        sp.outcome(if (hi - lo + 1).is_power_of_two() { "count-power-of-two" } else { "count-next-to-power-of-two" });
    });
    let whole: [(u64, u64); 3] = [(0, max), (1, max), (0, max - 1)];
    for &(lo, hi) in &whole {
        sp.eval();
        ctx.check("C03.as.scale.size_hint", || format!("block=AS{lo}-AS{hi}"), || {
            let blk = AsBlock::from((asn(lo as u128), asn(hi as u128)));
            let set: AsBlocks = [blk].into_iter().collect();
            for (what, h) in [("AsBlock::iter", blk.iter().size_hint()), ("AsBlocks::iter_asns", set.iter_asns().size_hint())] {
                if !hint_ok(h, hi - lo + 1) { return Err(format!("{what}: size_hint {h:?}, the block has {} numbers", hi - lo + 1)) }
            }
            let first: Vec<u32> = set.iter_asns().take(3).map(|a| a.into_u32()).collect();
            if first != [lo as u32, lo as u32 + 1, lo as u32 + 2] { return Err(format!("first items {first:?}")) }
            Ok(()) });
        sp.outcome("whole-space-size-hint");
    }
    if ctx.tier.is_thorough() {
        whole.par_iter().for_each(|&(lo, hi)| {
            sp.eval();
            ctx.check("C03.as.scale.whole_space_iteration", || format!("block=AS{lo}-AS{hi}"), || {
                let set: AsBlocks = [AsBlock::from((asn(lo as u128), asn(hi as u128)))].into_iter().collect();
                let (mut k, mut last, mut ordered) = (0u64, None, true);
                for x in set.iter_asns() { let x = x.into_u32() as u64; ordered &= x == lo + k; k += 1; last = Some(x); if k > hi - lo + 1 { break } }
                if k != hi - lo + 1 || last != Some(hi) || !ordered { Err(format!("{k} items ending at {last:?} (in order: {ordered}); expected {} items ending at AS{hi}", hi - lo + 1)) } else { Ok(()) } });
            sp.outcome("whole-space-iterated");
        });
    }
    sp.set("blocks", json!(blocks.len()));
    sp.sample_str(|| "AS4294901760-AS4294967295 (2^16 numbers ending at MAX)".to_string());
    sp.done(true, &format!("{} blocks x 2 iterators; whole-space blocks: size_hint in both tiers, full iteration in thorough{}", blocks.len(), if ctx.tier.is_thorough() { " (done)" } else { " (not in this run)" }));
}

//------------ the history dimension: what ran before on this thread ------------------------------------

type Obs = Result<String, String>;
type Job<'a> = (String, Box<dyn Fn() -> Obs + Send + Sync + 'a>);

fn obs_val(kind: Kind, v: &Val) -> String {
    let blocks: Vec<String> = repr_of(v).iter().map(|b| format!("{}:{:x}-{:x}/{}", b.var, b.min, b.max, b.len)).collect();
    match v {
        Val::As(b) => format!("text={b} blocks=[{}] empty={} count={} present={} covered_by_missing={}", blocks.join(","), b.is_empty(),
            guard(|| b.asn_count()).map(|c| c.to_string()).unwrap_or_else(|e| e), AsResources::blocks(b.clone()).is_present(), b.verify_covered(&AsResources::missing()).is_ok()),
        Val::Ip(b) => format!("text={} blocks=[{}] empty={} present={} covered_by_missing={}", if kind == Kind::V4 { b.as_v4().to_string() } else { b.as_v6().to_string() }, blocks.join(","), b.is_empty(),
            IpResources::blocks(b.clone()).is_present(), b.verify_covered(&IpResources::missing()).is_ok()),
    }
}
fn obs_set(rs: &ResourceSet) -> String {
    format!("{rs} || {} || {} || {} || empty={} opts={}{}{}", obs_val(Kind::As, &Val::As(rs.asn().clone())), obs_val(Kind::V4, &Val::Ip((**rs.ipv4()).clone())), obs_val(Kind::V6, &Val::Ip((**rs.ipv6()).clone())),
        rs.is_empty(), rs.asn_opt().is_some(), rs.ipv4_opt().is_some(), rs.ipv6_opt().is_some())
}
fn obs_limit(l: &RequestResourceLimit) -> String {
    let f = |o: Option<String>| o.unwrap_or_else(|| "unlimited".into());
    format!("{l} || asn={} v4={} v6={} empty={}", f(l.asn().map(|x| obs_val(Kind::As, &Val::As(x.clone())))), f(l.ipv4().map(|x| obs_val(Kind::V4, &Val::Ip((**x).clone())))), f(l.ipv6().map(|x| obs_val(Kind::V6, &Val::Ip((**x).clone())))), l.is_empty())
}

struct FmtLimit(usize);
impl std::fmt::Write for FmtLimit { fn write_str(&mut self, s: &str) -> std::fmt::Result { if s.len() > self.0 { self.0 = 0; Err(std::fmt::Error) } else { self.0 -= s.len(); Ok(()) } } }
struct IoLimit(usize);
impl std::io::Write for IoLimit {
    fn write(&mut self, b: &[u8]) -> std::io::Result<usize> { if self.0 == 0 && !b.is_empty() { return Err(std::io::Error::other("sink full")) } let n = b.len().min(self.0); self.0 -= n; Ok(n) }
    fn flush(&mut self) -> std::io::Result<()> { Ok(()) }
}

fn issue_xml(csr: &rpki::ca::csr::RpkiCaCsr, a: &str, v4: &str, v6: &str) -> String {
    use rpki::ca::provisioning as prov;
    let mut l = RequestResourceLimit::new();
    l.with_asn(AsBlocks::from_str("AS64496").unwrap()); l.with_ipv4(Ipv4Blocks::from_str("192.0.2.0/24").unwrap()); l.with_ipv6(Ipv6Blocks::from_str("2001:db8::/32").unwrap());
    let msg = prov::Message::issue(FromStr::from_str("child").unwrap(), FromStr::from_str("parent").unwrap(), prov::IssuanceRequest::new(prov::ResourceClassName::from("rc0"), l, csr.clone()));
    msg.to_xml_string().replace("\"AS64496\"", &format!("\"{a}\"")).replace("\"192.0.2.0/24\"", &format!("\"{v4}\"")).replace("\"2001:db8::/32\"", &format!("\"{v6}\""))
}
fn issue_limit(xml: &str) -> Obs {
    use rpki::ca::provisioning as prov;
    match prov::Message::decode(xml.as_bytes()).map_err(|e| format!("rejected: {e}"))?.into_payload() { prov::Payload::Issue(r) => Ok(obs_limit(r.limit())), _ => Err("another payload".into()) }
}

/// Subjects: representative evaluations of every construction route and operation, each reduced to
/// one string of everything observable.
fn history_subjects<'a>(csr: &'a Option<rpki::ca::csr::RpkiCaCsr>) -> Vec<Job<'a>> {
    let mut v: Vec<Job<'a>> = Vec::new();
    let mut add = |n: &str, f: Box<dyn Fn() -> Obs + Send + Sync + 'a>| v.push((n.to_string(), f));
    let long_as: String = (0..40).map(|i| format!("AS{}-AS{}", 100 * i, 100 * i + 7)).collect::<Vec<_>>().join(", ");
    for t in ["AS10-AS12".to_string(), "AS1, AS3-AS5, AS4294967295".to_string(), String::new(), long_as, "AS5-AS3".to_string(), "AS1, ASx".to_string()] {
        let t2 = t.clone();
        add(&format!("AsBlocks::from_str({:?})", rpki_verif::trunc(&t, 40)), Box::new(move || AsBlocks::from_str(&t).map(|b| obs_val(Kind::As, &Val::As(b))).map_err(|e| e.to_string())));
        add(&format!("serde AsBlocks({:?})", rpki_verif::trunc(&t2, 40)), Box::new(move || serde_json::from_value::<AsBlocks>(json!(t2)).map(|b| obs_val(Kind::As, &Val::As(b))).map_err(|e| e.to_string())));
    }
    for t in ["inherit", "AS1-AS2", ""] { add(&format!("AsResources::from_str({t:?})"), Box::new(move || AsResources::from_str(t).map(|r| format!("{r} inherited={} present={}", r.is_inherited(), r.is_present())).map_err(|e| e.to_string()))) }
    for t in ["10.0.0.0/8, 192.168.0.0-192.168.0.5", "10.0.0.5-10.0.0.3", "10.0.0.0/8, zz"] {
        add(&format!("IpBlocks::from_str({t:?})"), Box::new(move || IpBlocks::from_str(t).map(|b| obs_val(Kind::V4, &Val::Ip(b))).map_err(|e| e.to_string())));
        add(&format!("Ipv4Blocks::from_str({t:?})"), Box::new(move || Ipv4Blocks::from_str(t).map(|b| obs_val(Kind::V4, &Val::Ip((*b).clone()))).map_err(|e| e.to_string())));
        add(&format!("serde Ipv4Blocks({t:?})"), Box::new(move || serde_json::from_value::<Ipv4Blocks>(json!(t)).map(|b| obs_val(Kind::V4, &Val::Ip((*b).clone()))).map_err(|e| e.to_string())));
    }
    for t in ["2001:db8::/32, ::1", "::5-::3", "::ffff:192.0.2.1, 2001:db8::-2001:db8::ffff"] {
        add(&format!("Ipv6Blocks::from_str({t:?})"), Box::new(move || Ipv6Blocks::from_str(t).map(|b| obs_val(Kind::V6, &Val::Ip((*b).clone()))).map_err(|e| e.to_string())));
        add(&format!("IpBlocks::from_str({t:?})"), Box::new(move || IpBlocks::from_str(t).map(|b| obs_val(Kind::V6, &Val::Ip(b))).map_err(|e| e.to_string())));
    }
    add("ResourceSet::from_strs", Box::new(|| ResourceSet::from_strs("AS1-AS3, AS7", "10.0.0.0/8", "::/0").map(|r| obs_set(&r)).map_err(|e| e.to_string())));
    add("ResourceSet::from_strs(bad v4)", Box::new(|| ResourceSet::from_strs("AS1-AS3", "10.0.0.0/8, 10.0.0.9-10.0.0.1", "::/0").map(|r| obs_set(&r)).map_err(|e| e.to_string())));
    add("serde ResourceSet", Box::new(|| serde_json::from_str::<ResourceSet>(r#"{"asn":"AS1-AS3, AS7","ipv4":"10.0.0.0/8","ipv6":"2001:db8::/32"}"#).map(|r| obs_set(&r)).map_err(|e| e.to_string())));
    add("serde RequestResourceLimit", Box::new(|| serde_json::from_str::<RequestResourceLimit>(r#"{"asn":"AS1-AS3","ipv4":"","ipv6":"none"}"#).map(|l| obs_limit(&l)).map_err(|e| e.to_string())));
    add("DER AsBlocks", Box::new(|| Mode::Der.decode(der::seq(&[der::int_u(7), der::seq(&[der::int_u(10), der::int_u(20)]), der::int_u(21)]).as_slice(), |c| AsBlocks::take_from(c)).map(|b| obs_val(Kind::As, &Val::As(b))).map_err(|e| e.to_string())));
    add("DER AsBlocks inverted", Box::new(|| Mode::Der.decode(der::seq(&[der::int_u(7), der::seq(&[der::int_u(20), der::int_u(10)])]).as_slice(), |c| AsBlocks::take_from(c)).map(|b| obs_val(Kind::As, &Val::As(b))).map_err(|e| e.to_string())));
    add("DER IpBlocks v4", Box::new(|| Mode::Der.decode(der::seq(&[der::ip_prefix_bits(0x0a000000, 8, 32), der::ip_range(0xc0a80000, 0xc0a80005, 32)]).as_slice(), |c| IpBlocks::take_from_with_family(c, AddressFamily::Ipv4)).map(|b| obs_val(Kind::V4, &Val::Ip(b))).map_err(|e| e.to_string())));
    add("DER IpBlocks v6 family list", Box::new(|| Mode::Der.decode(der::ip_addr_blocks([0, 2], 128, Some(&[der::IpItem::Prefix(0x2001_0db8u128 << 96, 32), der::IpItem::Range(1, 9)])).as_slice(), |c| IpResources::take_families_from(c)).map_err(|e| e.to_string())
        .and_then(|(_, b)| b.ok_or("no v6".to_string())).and_then(|r| r.to_blocks().map_err(|e| e.to_string())).map(|b| obs_val(Kind::V6, &Val::Ip(b)))));
    if let Some(csr) = csr {
        add("XML issue request", Box::new(move || issue_limit(&issue_xml(csr, "AS1-AS3, AS9", "10.0.0.0/8", "2001:db8::/32"))));
        add("XML issue request (bad v6)", Box::new(move || issue_limit(&issue_xml(csr, "AS1-AS3", "10.0.0.0/8", "2001:db8::/32, ::9-::1"))));
    }
    add("FromIterator AsBlocks (bridging)", Box::new(|| Ok(obs_val(Kind::As, &val_from_iv(Kind::As, [(10u128, 20u128), (30, 40), (15, 35), (50, 50)].into_iter())))));
    add("FromIterator IpBlocks (unsorted)", Box::new(|| Ok(obs_val(Kind::V4, &val_from_iv(Kind::V4, [(8u128, 15u128), (0, 3), (4, 7), (100, 100)].into_iter())))));
    add("set algebra AS", Box::new(|| { let a = AsBlocks::from_str("AS1-AS10, AS20").map_err(|e| e.to_string())?; let b = AsBlocks::from_str("AS5-AS25").map_err(|e| e.to_string())?; let mut c = a.clone(); c.intersection_assign(&b);
        Ok(format!("{} # {} # {} # {} # {:?}", obs_val(Kind::As, &Val::As(a.union(&b))), obs_val(Kind::As, &Val::As(a.intersection(&b))), obs_val(Kind::As, &Val::As(a.difference(&b))), obs_val(Kind::As, &Val::As(c)),
            a.verify_issued(&AsResources::blocks(b.clone()), Overclaim::Trim).map(|x| x.to_string()).map_err(|e| e.to_string()))) }));
    add("set algebra v6 + limit", Box::new(|| { let a = Ipv6Blocks::from_str("2001:db8::/32").map_err(|e| e.to_string())?; let b = Ipv6Blocks::from_str("2001:db8:8000::/33, ::1").map_err(|e| e.to_string())?;
        let mut l = RequestResourceLimit::new(); l.with_ipv6(Ipv6Blocks::from_str("2001:db8:8000::/33").map_err(|e| e.to_string())?);
        let set = ResourceSet::new(AsBlocks::all(), Ipv4Blocks::empty(), a.clone());
        Ok(format!("{} # {} # {:?}", obs_val(Kind::V6, &Val::Ip(a.intersection(&b))), obs_val(Kind::V6, &Val::Ip(b.difference(&a))), l.apply_to(&set).map(|r| obs_set(&r)).map_err(|e| e.to_string()))) }));
    add("write forms", Box::new(|| { let rs = ResourceSet::from_strs("AS1-AS3, AS7", "10.0.0.0/8, 192.0.2.1", "2001:db8::/32").map_err(|e| e.to_string())?;
        Ok(format!("{rs} # {} # {} # {}", serde_json::to_string(&rs).map_err(|e| e.to_string())?, rpki_verif::hex(encode::sequence(rs.asn().encode_ref()).to_captured(Mode::Der).as_slice()), rpki_verif::hex(rs.ipv4().encode_ref().to_captured(Mode::Der).as_slice()))) }));
    v
}

/// Predecessors: operations of the same API family chosen so that every exit path is taken --
/// successes on other values, errors after 0, 1, 2 valid elements at every text / serde / XML / DER
/// entry point, iterators that panic after k items, sinks that fail after k octets for every k.
fn history_predecessors<'a>(csr: &'a Option<rpki::ca::csr::RpkiCaCsr>) -> Vec<Job<'a>> {
    let mut v: Vec<Job<'a>> = Vec::new();
    let mut add = |n: String, f: Box<dyn Fn() -> Obs + Send + Sync + 'a>| v.push((n, f));
    fn done(r: Result<(), String>) -> Obs { Ok(match r { Ok(()) => "ok".into(), Err(e) => format!("failed: {e}") }) }
    add("nothing".into(), Box::new(|| Ok("-".into())));
    // text with an error after k valid elements, two kinds of error
    let as_ok = ["AS64496-AS64500", "AS700"]; let v4_ok = ["198.51.100.0/24", "203.0.113.7"]; let v6_ok = ["2001:db8:ffff::/48", "::7"];
    for k in 0..=2usize { for (kind_i, bad) in [("garbage", ["ASx", "zz", "zz"]), ("inverted", ["AS7-AS3", "10.0.0.9-10.0.0.1", "::9-::1"])] {
        let mk = |ok: &[&str; 2], bad: &str| { let mut p: Vec<String> = ok.iter().take(k).map(|s| s.to_string()).collect(); p.push(bad.to_string()); p.push(ok[0].to_string()); p.join(", ") };
        let (ta, t4, t6) = (mk(&as_ok, bad[0]), mk(&v4_ok, bad[1]), mk(&v6_ok, bad[2]));
        let tag = format!("{kind_i} after {k} valid");
        { let t = ta.clone(); add(format!("AsBlocks::from_str {tag}"), Box::new(move || done(AsBlocks::from_str(&t).map(|_| ()).map_err(|e| e.to_string())))); }
        { let t = ta.clone(); add(format!("AsResources::from_str {tag}"), Box::new(move || done(AsResources::from_str(&t).map(|_| ()).map_err(|e| e.to_string())))); }
        { let t = ta.clone(); add(format!("serde AsBlocks {tag}"), Box::new(move || done(serde_json::from_value::<AsBlocks>(json!(t)).map(|_| ()).map_err(|e| e.to_string())))); }
        { let t = t4.clone(); add(format!("IpBlocks::from_str v4 {tag}"), Box::new(move || done(IpBlocks::from_str(&t).map(|_| ()).map_err(|e| e.to_string())))); }
        { let t = t4.clone(); add(format!("Ipv4Blocks::from_str {tag}"), Box::new(move || done(Ipv4Blocks::from_str(&t).map(|_| ()).map_err(|e| e.to_string())))); }
        { let t = t4.clone(); add(format!("serde Ipv4Blocks {tag}"), Box::new(move || done(serde_json::from_value::<Ipv4Blocks>(json!(t)).map(|_| ()).map_err(|e| e.to_string())))); }
        { let t = t6.clone(); add(format!("IpBlocks::from_str v6 {tag}"), Box::new(move || done(IpBlocks::from_str(&t).map(|_| ()).map_err(|e| e.to_string())))); }
        { let t = t6.clone(); add(format!("Ipv6Blocks::from_str {tag}"), Box::new(move || done(Ipv6Blocks::from_str(&t).map(|_| ()).map_err(|e| e.to_string())))); }
        { let t = t6.clone(); add(format!("serde Ipv6Blocks {tag}"), Box::new(move || done(serde_json::from_value::<Ipv6Blocks>(json!(t)).map(|_| ()).map_err(|e| e.to_string())))); }
        for which in 0..3usize {
            let (a, b, c) = (if which == 0 { ta.clone() } else { as_ok[0].to_string() }, if which == 1 { t4.clone() } else { v4_ok[0].to_string() }, if which == 2 { t6.clone() } else { v6_ok[0].to_string() });
            let fam = ["asn", "ipv4", "ipv6"][which];
            { let (a, b, c) = (a.clone(), b.clone(), c.clone()); add(format!("ResourceSet::from_strs {fam} {tag}"), Box::new(move || done(ResourceSet::from_strs(&a, &b, &c).map(|_| ()).map_err(|e| e.to_string())))); }
            { let (a, b, c) = (a.clone(), b.clone(), c.clone()); add(format!("serde ResourceSet {fam} {tag}"), Box::new(move || done(serde_json::from_value::<ResourceSet>(json!({"asn": a, "ipv4": b, "ipv6": c})).map(|_| ()).map_err(|e| e.to_string())))); }
            { let (a, b, c) = (a.clone(), b.clone(), c.clone()); add(format!("serde RequestResourceLimit {fam} {tag}"), Box::new(move || done(serde_json::from_value::<RequestResourceLimit>(json!({"asn": a, "ipv4": b, "ipv6": c})).map(|_| ()).map_err(|e| e.to_string())))); }
            if let Some(csr) = csr { let (a, b, c) = (a.clone(), b.clone(), c.clone()); add(format!("XML issue request {fam} {tag}"), Box::new(move || done(issue_limit(&issue_xml(csr, &a, &b, &c)).map(|_| ())))); }
        }
    } }
    // DER with an error after k valid blocks
    for k in 0..=2usize { for bad in ["inverted", "wrong tag", "truncated"] {
        let as_items = move || { let mut it: Vec<Vec<u8>> = (0..k).map(|i| der::seq(&[der::int_u(64496 + 10 * i as u128), der::int_u(64499 + 10 * i as u128)])).collect();
            it.push(match bad { "inverted" => der::seq(&[der::int_u(9), der::int_u(3)]), "wrong tag" => der::octets(&[1]), _ => vec![0x30, 0x06, 0x02, 0x01] }); it };
        add(format!("DER AsBlocks {bad} after {k} valid"), Box::new(move || done(Mode::Der.decode(der::seq(&as_items()).as_slice(), |c| AsBlocks::take_from(c)).map(|_| ()).map_err(|e| e.to_string()))));
        add(format!("DER AsResources {bad} after {k} valid"), Box::new(move || done(Mode::Der.decode(der::seq(&[der::ctx(0, true, &der::seq(&as_items()))]).as_slice(), |c| AsResources::take_from(c)).map(|_| ()).map_err(|e| e.to_string()))));
        for (w, fam) in [(32u8, AddressFamily::Ipv4), (128, AddressFamily::Ipv6)] {
            let ip_items = move || { let mut it: Vec<Vec<u8>> = (0..k).map(|i| der::ip_range(1000 + 100 * i as u128, 1009 + 100 * i as u128, w)).collect();
                it.push(match bad { "inverted" => der::ip_range(9, 3, w), "wrong tag" => der::int_u(1), _ => vec![0x30, 0x06, 0x03, 0x02] }); it };
            add(format!("DER IpBlocks /{w} {bad} after {k} valid"), Box::new(move || done(Mode::Der.decode(der::seq(&ip_items()).as_slice(), |c| IpBlocks::take_from_with_family(c, fam)).map(|_| ()).map_err(|e| e.to_string()))));
            add(format!("DER IPAddrBlocks /{w} {bad} after {k} valid"), Box::new(move || done(Mode::Der.decode(der::seq(&[der::seq(&[der::octets(&[0, if w == 32 { 1 } else { 2 }]), der::seq(&ip_items())])]).as_slice(), |c| IpResources::take_families_from(c)).map(|_| ()).map_err(|e| e.to_string()))));
        }
    } }
    // collecting from an iterator that panics after k items
    for k in 0..=3usize {
        add(format!("AsBlocks from an iterator panicking after {k} items"), Box::new(move || done(guard(|| { let _: AsBlocks = (0..).map(|i: usize| { if i == k { panic!("iterator gives up") } AsBlock::from((asn(64496 + 10 * i as u128), asn(64499 + 10 * i as u128))) }).collect(); }))));
        add(format!("AsBlocksBuilder::extend from an iterator panicking after {k} items"), Box::new(move || done(guard(|| { let mut b = AsBlocksBuilder::new(); b.extend((0..).map(|i: usize| { if i == k { panic!("iterator gives up") } AsBlock::from(asn(64496 + 2 * i as u128)) })); let _ = b.finalize(); }))));
        add(format!("IpBlocks from an iterator panicking after {k} items"), Box::new(move || done(guard(|| { let _: IpBlocks = (0..).map(|i: usize| { if i == k { panic!("iterator gives up") } IpBlock::from((addr(1000 + 100 * i as u128), addr(1009 + 100 * i as u128))) }).collect(); }))));
        add(format!("IpBlocksBuilder::extend from an iterator panicking after {k} items"), Box::new(move || done(guard(|| { let mut b = IpBlocksBuilder::new(); b.extend((0..).map(|i: usize| { if i == k { panic!("iterator gives up") } IpBlock::from((addr(1000 + 100 * i as u128), addr(1009 + 100 * i as u128))) })); let _ = b.finalize(); }))));
        add(format!("Ipv4Blocks from an iterator panicking after {k} items"), Box::new(move || done(guard(|| { let _: Ipv4Blocks = (0..).map(|i: usize| { if i == k { panic!("iterator gives up") } Ipv4Block::from_str(&format!("198.51.{i}.0/24")).unwrap() }).collect(); }))));
    }
    // sinks that fail after k octets, for every k
    let rs = ResourceSet::from_strs("AS64496-AS64500, AS700", "198.51.100.0/24, 203.0.113.7", "2001:db8:ffff::/48").unwrap();
    let mut lim = RequestResourceLimit::new(); lim.with_asn(rs.asn().clone()); lim.with_ipv4(rs.ipv4().clone());
    let texts = [rs.asn().to_string().len(), rs.ipv4().to_string().len(), rs.ipv6().to_string().len(), rs.to_string().len(), lim.to_string().len()];
    for (what, len) in texts.into_iter().enumerate() { for k in 0..len {
        let (rs, lim) = (rs.clone(), lim.clone());
        add(format!("Display {} into a sink of {k} octets", ["AsBlocks", "Ipv4Blocks", "Ipv6Blocks", "ResourceSet", "RequestResourceLimit"][what]), Box::new(move || { use std::fmt::Write; let mut w = FmtLimit(k);
            done(match what { 0 => write!(w, "{}", rs.asn()), 1 => write!(w, "{}", rs.ipv4()), 2 => write!(w, "{}", rs.ipv6()), 3 => write!(w, "{rs}"), _ => write!(w, "{lim}") }.map_err(|e| e.to_string())) }));
    } }
    let ders = [encode::sequence(rs.asn().encode_ref()).to_captured(Mode::Der).len(), rs.ipv4().encode_ref().to_captured(Mode::Der).len(), rs.ipv6().encode_family(AddressFamily::Ipv6).to_captured(Mode::Der).len()];
    for (what, len) in ders.into_iter().enumerate() { for k in 0..len {
        let rs = rs.clone();
        add(format!("DER of {} into a sink of {k} octets", ["AsBlocks", "Ipv4Blocks", "IPv6 family"][what]), Box::new(move || { let mut w = IoLimit(k);
            done(match what { 0 => encode::sequence(rs.asn().encode_ref()).write_encoded(Mode::Der, &mut w), 1 => rs.ipv4().encode_ref().write_encoded(Mode::Der, &mut w), _ => rs.ipv6().encode_family(AddressFamily::Ipv6).write_encoded(Mode::Der, &mut w) }.map_err(|e| e.to_string())) }));
    } }
    let jl = serde_json::to_string(&rs).unwrap().len();
    for k in 0..jl { let rs = rs.clone(); add(format!("JSON of a ResourceSet into a sink of {k} octets"), Box::new(move || done(serde_json::to_writer(IoLimit(k), &rs).map_err(|e| e.to_string())))); }
    // successes on other values
    let long_as: String = (0..300).map(|i| format!("AS{}", 3 * i)).collect::<Vec<_>>().join(", ");
    add("AsBlocks::from_str of 300 blocks".into(), Box::new(move || done(AsBlocks::from_str(&long_as).map(|_| ()).map_err(|e| e.to_string()))));
    add("ResourceSet::from_strs success".into(), Box::new(|| done(ResourceSet::from_strs("AS64496-AS64500", "198.51.100.0/24", "2001:db8:ffff::/48").map(|_| ()).map_err(|e| e.to_string()))));
    v
}

fn history(ctx: &Ctx) {
    let sp = ctx.space("history.independent",
        "sequences on one fresh OS thread (std::thread, never a pool worker): one predecessor (thorough: every ordered pair of predecessors) and then every subject, forwards and backwards; a subject's complete observation (text, stored blocks, is_empty, count, present, covered-by-missing, or the error) must equal the observation of the same subject run first thing on its own fresh thread. Predecessors take every exit path of the API family: parse errors (garbage / inverted range) after 0, 1, 2 valid elements at AsBlocks / AsResources / IpBlocks / Ipv4Blocks / Ipv6Blocks::from_str, their serde forms, each field of ResourceSet::from_strs, serde ResourceSet, serde RequestResourceLimit and the XML issue-request attributes; DER errors (inverted, wrong tag, truncated) after 0, 1, 2 valid blocks; collecting from an iterator that panics after 0..3 items; Display / DER / JSON writers into a sink that fails after k octets for every k; successes on other values; non-trivial = (predecessor, subject) runs where the predecessor failed part-way");
    let csr = std::fs::read(format!("{}/test-data/ca/drl-csr.der", rpki_verif::engine::report::repo_dir())).ok().and_then(|b| rpki::ca::csr::RpkiCaCsr::decode(b.as_slice()).ok());
    let (subjects, preds) = match guard(|| (history_subjects(&csr), history_predecessors(&csr))) {
        Ok(x) => x,
        Err(p) => { ctx.fail("C03.history.setup", "building the subject and predecessor menus", p); sp.outcome("setup-failed"); sp.outcome("not-run"); sp.evals(2); sp.done(false, "not run"); return }
    };
    let eval = |j: &Job| -> Obs { match guard(|| (j.1)()) { Ok(o) => o, Err(p) => Err(format!("panic: {p}")) } };
    let alone: Vec<Obs> = subjects.iter().map(|s| std::thread::scope(|sc| sc.spawn(|| eval(s)).join().unwrap_or_else(|_| Err("thread died".into())))).collect();
    for o in &alone { sp.outcome(if o.is_ok() { "subject-accepted" } else { "subject-rejected" }) }
    let run = |seq: &[usize]| {
        let got: Vec<(usize, Obs)> = std::thread::scope(|sc| sc.spawn(|| {
            for &p in seq { let _ = eval(&preds[p]); }
            let mut out = Vec::new();
            for i in 0..subjects.len() { out.push((i, eval(&subjects[i]))) }
            for i in (0..subjects.len()).rev() { out.push((i, eval(&subjects[i]))) }
            out
        }).join().unwrap_or_default());
        if got.is_empty() { ctx.fail("C03.history.independent", format!("after=[{}]", seq.iter().map(|p| preds[*p].0.as_str()).collect::<Vec<_>>().join(" ; ")), "the thread running the sequence died".to_string()) }
        for (i, o) in got {
            sp.eval();
            if o != alone[i] {
                ctx.fail("C03.history.independent", format!("after=[{}] subject={}", seq.iter().map(|p| preds[*p].0.as_str()).collect::<Vec<_>>().join(" ; "), subjects[i].0),
                    format!("observed {:?}; run first on a fresh thread the same call gives {:?}", rpki_verif::trunc(&format!("{o:?}"), 400), rpki_verif::trunc(&format!("{:?}", alone[i]), 400)));
            }
        }
        sp.nontrivial(2 * subjects.len() as u64);
    };
    (0..preds.len()).into_par_iter().for_each(|p| run(&[p]));
    sp.outcomes_n("sequences-one-predecessor", preds.len() as u64);
    if ctx.tier.is_thorough() {
        let n = preds.len();
        (0..n * n).into_par_iter().for_each(|i| run(&[i / n, i % n]));
        sp.outcomes_n("sequences-two-predecessors", (n * n) as u64);
    }
    sp.set("subjects", json!(subjects.iter().map(|s| s.0.clone()).collect::<Vec<_>>())); sp.set("predecessors", json!(preds.len()));
    sp.sample_str(|| format!("predecessors e.g. {:?}", preds.iter().skip(1).step_by(37).take(5).map(|p| p.0.clone()).collect::<Vec<_>>()));
    sp.done(true, &format!("{} predecessors{} x {} subjects x 2 directions, each sequence on its own OS thread", preds.len(), if ctx.tier.is_thorough() { " and all ordered pairs of them" } else { "" }, subjects.len()));
}

//------------ ResourceSet: product of the three families ------------------------------------------

struct Rs3<'a> { a: &'a Dom, v4: &'a Dom, v6: &'a Dom }

impl Rs3<'_> {
    fn bits(&self) -> (usize, usize, usize) { (self.a.natoms(), self.v4.natoms(), self.v6.natoms()) }
    fn pack(&self, t: (u32, u32, u32)) -> usize { let (na, n4, _) = self.bits(); (t.0 | t.1 << na | t.2 << (na + n4)) as usize }
    fn unpack(&self, i: usize) -> (u32, u32, u32) { let (na, n4, n6) = self.bits(); let i = i as u32; (i & ((1 << na) - 1), (i >> na) & ((1 << n4) - 1), (i >> (na + n4)) & ((1 << n6) - 1)) }
    fn show(&self, t: (u32, u32, u32)) -> String { format!("{{asn={} v4={} v6={}}}", self.a.show_mask(t.0), self.v4.show_mask(t.1), self.v6.show_mask(t.2)) }
    /// None if the value is literally the model's representation of `t`, else what differs.
    fn diff(&self, rs: &ResourceSet, t: (u32, u32, u32)) -> Option<Vec<(&'static str, String)>> {
        let a = Val::As(rs.asn().clone()); let b = Val::Ip((**rs.ipv4()).clone()); let c = Val::Ip((**rs.ipv6()).clone());
        if same(&a, &self.a.canon[t.0 as usize]) && same(&b, &self.v4.canon[t.1 as usize]) && same(&c, &self.v6.canon[t.2 as usize]) { return None }
        let mut out = analyze(self.a, &repr_of(&a), t.0);
        out.extend(analyze(self.v4, &repr_of(&b), t.1));
        out.extend(analyze(self.v6, &repr_of(&c), t.2));
        Some(out)
    }
}

fn rs_build(path: usize, sa: &[&ABlock], s4: &[&ABlock], s6: &[&ABlock]) -> Result<ResourceSet, String> {
    match path {
        0 => {
            let a: AsBlocks = sa.iter().map(|b| AsBlock::from((asn(b.lo), asn(b.hi)))).collect();
            let b: IpBlocks = s4.iter().map(|b| IpBlock::from((addr(Kind::V4.lib_min(b.lo)), addr(Kind::V4.lib_max(b.hi))))).collect();
            let c: IpBlocks = s6.iter().map(|b| IpBlock::from((addr(b.lo), addr(b.hi)))).collect();
            Ok(ResourceSet::new(a, b.into(), c.into()))
        }
        1 => ResourceSet::from_strs(&join_txt(sa, true), &join_txt(s4, true), &join_txt(s6, false)).map_err(|e| e.to_string()),
        2 => serde_json::from_value::<ResourceSet>(json!({"asn": join_txt(sa, false), "ipv4": join_txt(s4, false), "ipv6": join_txt(s6, true)})).map_err(|e| e.to_string()),
        3 => serde_json::from_str::<ResourceSet>(&json!({"asn": join_txt(sa, true), "v4": join_txt(s4, true), "v6": join_txt(s6, true)}).to_string()).map_err(|e| e.to_string()),
        _ => unreachable!(),
    }
}

const RS_PATHS: &[&str] = &["new", "from_strs", "serde", "serde_alias"];

fn resource_set(ctx: &Ctx, pts: &[u128], pts6: &[u128], max_len: u32) {
    let da = Dom::from_points("rs.asn", Kind::As, pts);
    let d4 = Dom::from_points("rs.v4", Kind::V4, pts);
    let d6 = Dom::from_points("rs.v6", Kind::V6, pts6);
    let rs3 = Rs3 { a: &da, v4: &d4, v6: &d6 };
    let (na, n4, n6) = rs3.bits();
    let nstates_max = 1usize << (na + n4 + n6);

    // (1) construction
    let sp = ctx.space("rs.construct",
        "ResourceSet: every triple of block sequences (<= N blocks per family over a small end-point domain incl. inverted pairs) x ResourceSet::new / from_strs / serde (+ field aliases); non-trivial = triples with at least one family not given in canonical form");
    let k = da.blocks.len() as u64; assert_eq!(k, d4.blocks.len() as u64); assert_eq!(k, d6.blocks.len() as u64);
    let per = seq_count(k, max_len);
    let seeds: Mutex<BTreeMap<usize, ResourceSet>> = Mutex::new(BTreeMap::new());
    par_chunks(per * per * per, 1024, |lo, hi| {
        let mut oc: BTreeMap<&'static str, u64> = BTreeMap::new();
        let mut local: BTreeMap<usize, ResourceSet> = BTreeMap::new();
        let (mut evals, mut nontriv) = (0u64, 0u64);
        let (mut ia, mut i4, mut i6) = (Vec::new(), Vec::new(), Vec::new());
        for n in lo..hi {
            seq_at(k, max_len, n % per, &mut ia); seq_at(k, max_len, (n / per) % per, &mut i4); seq_at(k, max_len, n / per / per, &mut i6);
            let sa: Vec<&ABlock> = ia.iter().map(|&i| &da.blocks[i]).collect();
            let s4: Vec<&ABlock> = i4.iter().map(|&i| &d4.blocks[i]).collect();
            let s6: Vec<&ABlock> = i6.iter().map(|&i| &d6.blocks[i]).collect();
            let proper = sa.iter().chain(s4.iter()).chain(s6.iter()).all(|b| !b.inverted);
            let t = (sa.iter().fold(0, |m, b| m | b.mask), s4.iter().fold(0, |m, b| m | b.mask), s6.iter().fold(0, |m, b| m | b.mask));
            let given = |d: &Dom, s: &[&ABlock], m: u32| { let r = d.runs(m); r.len() == s.len() && r.iter().zip(s.iter()).all(|(r, b)| r.0 == b.lo && r.1 == b.hi) };
            if !(proper && given(&da, &sa, t.0) && given(&d4, &s4, t.1) && given(&d6, &s6, t.2)) { nontriv += 1 }
            let wit = |p: &str| format!("asn=[{}] v4=[{}] v6=[{}] path={p}", join_txt(&sa, false), join_txt(&s4, false), join_txt(&s6, false));
            for (p, pname) in RS_PATHS.iter().enumerate() {
                if p == 0 && !proper { continue } // inverted API pairs: outside the quantifier
                evals += 1;
                match guard(|| rs_build(p, &sa, &s4, &s6)) {
                    Err(panic) => ctx.fail(&format!("C03.rs.construct.{pname}.panic"), wit(pname), panic),
                    Ok(Err(e)) => if proper { ctx.fail(&format!("C03.rs.construct.{pname}.accept"), wit(pname), format!("well-formed blocks rejected: {e}")) } else { *oc.entry("inverted-block-rejected").or_insert(0) += 1 },
                    Ok(Ok(rs)) => {
                        if !proper { *oc.entry("inverted-block-accepted").or_insert(0) += 1; ctx.fail(&format!("C03.rs.construct.{pname}.reject_inverted"), wit(pname), format!("a block with min > max was accepted; stored {rs}")); }
                        else { match rs3.diff(&rs, t) {
                            None => { *oc.entry("accepted-canonical").or_insert(0) += 1; local.entry(rs3.pack(t)).or_insert(rs); }
                            Some(laws) => { *oc.entry("accepted-wrong").or_insert(0) += 1; for (law, d) in laws { ctx.fail(&format!("C03.rs.construct.{pname}.{law}"), wit(pname), d) } }
                        } }
                    }
                }
            }
        }
        sp.evals(evals); sp.nontrivial(nontriv); sp.merge_outcomes(&oc);
        let mut g = seeds.lock().unwrap(); for (m, v) in local { g.entry(m).or_insert(v); }
    });
    let seeds = seeds.into_inner().unwrap();
    sp.set("alphabet_blocks_per_family", json!(k)); sp.set("sequences_per_family", json!(per)); sp.set("distinct_canonical_values_reached", json!(seeds.len()));
    sp.sample_str(|| format!("atoms per family: asn {:?}", da.atoms));
    sp.done(true, &format!("all {}^3 triples of sequences of <= {} blocks x {} paths", per, max_len, RS_PATHS.len()));

    // (2)+(3) closure with pair queries
    let sp = ctx.space("rs.closure",
        "ResourceSet: explicit-state BFS to fixpoint over triples (asn, v4, v6) of stored block lists; transitions on every ordered pair: union, intersection, difference (added and removed, read back through ResourceDiff's serde form), RequestResourceLimit::apply_to with each of the 8 choices of limited families; queries ==, contains, ResourceDiff::is_empty, serde round trip; non-trivial = ordered pairs that differ in at least two families and are neither nested nor disjoint in one of them");
    let mut have: Vec<Option<ResourceSet>> = vec![None; nstates_max];
    let mut order: Vec<usize> = Vec::new();
    for (i, v) in seeds { have[i] = Some(v); order.push(i) }
    let seed_states = order.len();
    let bad = std::sync::atomic::AtomicU64::new(0);
    let mut done_upto = 0usize; let mut rounds = 0u32;
    let sub = |x: (u32, u32, u32), y: (u32, u32, u32)| x.0 & !y.0 == 0 && x.1 & !y.1 == 0 && x.2 & !y.2 == 0;
    while done_upto < order.len() {
        let cur = order.len();
        let new: Mutex<BTreeMap<usize, ResourceSet>> = Mutex::new(BTreeMap::new());
        (0..cur).into_par_iter().for_each(|i| {
            let mut oc: BTreeMap<&'static str, u64> = BTreeMap::new();
            let mut local_new: BTreeMap<usize, ResourceSet> = BTreeMap::new();
            let (mut trans, mut pairs, mut nontriv) = (0u64, 0u64, 0u64);
            let ta = rs3.unpack(order[i]); let a = have[order[i]].as_ref().unwrap();
            let j0 = if i >= done_upto { 0 } else { done_upto };
            for j in j0..cur {
                let tb = rs3.unpack(order[j]); let b = have[order[j]].as_ref().unwrap();
                pairs += 1;
                let part = |x: u32, y: u32| x & y != 0 && x & !y != 0 && y & !x != 0;
                let differ = (ta.0 != tb.0) as u32 + (ta.1 != tb.1) as u32 + (ta.2 != tb.2) as u32;
                if differ >= 2 && (part(ta.0, tb.0) || part(ta.1, tb.1) || part(ta.2, tb.2)) { nontriv += 1 }
                let wit = |op: &str| format!("op={op} a={} b={}", rs3.show(ta), rs3.show(tb));
                let mut result = |opname: &str, got: Option<ResourceSet>, want: Option<(u32, u32, u32)>, oc: &mut BTreeMap<&'static str, u64>| {
                    trans += 1;
                    match (got, want) {
                        (None, None) => { *oc.entry("refused").or_insert(0) += 1; }
                        (Some(v), Some(w)) => match rs3.diff(&v, w) {
                            None => {
                                let obs = v.is_empty() == (w == (0, 0, 0)) && v.asn().is_empty() == (w.0 == 0) && v.ipv4().is_empty() == (w.1 == 0) && v.ipv6().is_empty() == (w.2 == 0)
                                    && v.asn_opt().is_some() == (w.0 != 0) && v.ipv4_opt().is_some() == (w.1 != 0) && v.ipv6_opt().is_some() == (w.2 != 0)
                                    && v.to_as_resources().is_present() == (w.0 != 0) && v.to_ip_resources_v4().is_present() == (w.1 != 0) && v.to_ip_resources_v6().is_present() == (w.2 != 0);
                                if !obs { ctx.fail(&format!("C03.rs.closure.{opname}.observers"), wit(opname), format!("is_empty / *_opt / to_*_resources of the result {v} disagree with its content")) }
                                if have[rs3.pack(w)].is_none() { *oc.entry("new-state").or_insert(0) += 1; local_new.entry(rs3.pack(w)).or_insert(v); } else { *oc.entry("known-state").or_insert(0) += 1; } }
                            Some(laws) => { bad.fetch_add(1, std::sync::atomic::Ordering::Relaxed); for (law, d) in laws { ctx.fail(&format!("C03.rs.closure.{opname}.{law}"), wit(opname), d) } }
                        },
                        (Some(v), None) => ctx.fail(&format!("C03.rs.closure.{opname}.refuse"), wit(opname), format!("the limit exceeds the set, yet apply_to returned {v}")),
                        (None, Some(_)) => ctx.fail(&format!("C03.rs.closure.{opname}.accept"), wit(opname), "the limit is within the set, yet apply_to refused".to_string()),
                    }
                };
                let r = guard(|| {
                    let u = a.union(b); let n = a.intersection(b); let d = a.difference(b);
                    let dj = serde_json::to_value(&d).map_err(|e| e.to_string())?;
                    let added: ResourceSet = serde_json::from_value(dj["added"].clone()).map_err(|e| format!("ResourceDiff.added does not deserialize: {e}"))?;
                    let removed: ResourceSet = serde_json::from_value(dj["removed"].clone()).map_err(|e| format!("ResourceDiff.removed does not deserialize: {e}"))?;
                    let back: rpki::repository::resources::ResourceDiff = serde_json::from_value(dj).map_err(|e| e.to_string())?;
                    Ok::<_, String>((u, n, added, removed, d.is_empty(), back == d, a == b, a.contains(b)))
                });
                match r {
                    Err(p) => ctx.fail("C03.rs.closure.panic", wit("union/intersection/difference"), p),
                    Ok(Err(e)) => ctx.fail("C03.rs.closure.difference.serde", wit("difference"), e),
                    Ok(Ok((u, n, added, removed, dempty, dback, eq, cont))) => {
                        result("union", Some(u), Some((ta.0 | tb.0, ta.1 | tb.1, ta.2 | tb.2)), &mut oc);
                        result("intersection", Some(n), Some((ta.0 & tb.0, ta.1 & tb.1, ta.2 & tb.2)), &mut oc);
                        result("difference_added", Some(added), Some((ta.0 & !tb.0, ta.1 & !tb.1, ta.2 & !tb.2)), &mut oc);
                        result("difference_removed", Some(removed), Some((tb.0 & !ta.0, tb.1 & !ta.1, tb.2 & !ta.2)), &mut oc);
                        if dempty != (ta == tb) { ctx.fail("C03.rs.closure.diff_is_empty", wit("difference.is_empty"), format!("is_empty returned {dempty}")) }
                        if !dback { ctx.fail("C03.rs.closure.difference.serde", wit("difference"), "ResourceDiff does not survive its serde round trip".to_string()) }
                        if eq != (ta == tb) { ctx.fail("C03.rs.closure.eq", wit("=="), format!("== returned {eq}")) }
                        if cont != sub(tb, ta) { ctx.fail("C03.rs.closure.contains", wit("contains"), format!("a.contains(b) returned {cont}")) }
                    }
                }
                // limit = b (each subset of families limited), applied to a
                for pat in 0..8u32 {
                    let r = guard(|| {
                        let mut l = RequestResourceLimit::new();
                        if pat & 1 != 0 { l.with_asn(b.asn().clone()) }
                        if pat & 2 != 0 { l.with_ipv4(b.ipv4().clone()) }
                        if pat & 4 != 0 { l.with_ipv6(b.ipv6().clone()) }
                        l.apply_to(a).ok()
                    });
                    let pick = |bit: u32, x: u32, y: u32| if pat & bit != 0 { if y & !x == 0 { Some(y) } else { None } } else { Some(x) };
                    let want = match (pick(1, ta.0, tb.0), pick(2, ta.1, tb.1), pick(4, ta.2, tb.2)) { (Some(x), Some(y), Some(z)) => Some((x, y, z)), _ => None };
                    match r {
                        Err(p) => ctx.fail("C03.rs.closure.limit_apply_to.panic", format!("{} limited_families={pat:03b}", wit("apply_to")), p),
                        Ok(got) => result("limit_apply_to", got, want, &mut oc),
                    }
                }
            }
            sp.transitions(trans); sp.traces(trans); sp.evals(trans + 4 * pairs); sp.nontrivial(nontriv); sp.merge_outcomes(&oc);
            if !local_new.is_empty() { let mut g = new.lock().unwrap(); for (m, v) in local_new { g.entry(m).or_insert(v); } }
        });
        done_upto = cur; rounds += 1;
        for (m, v) in new.into_inner().unwrap() { if have[m].is_none() { have[m] = Some(v); order.push(m) } }
    }
    // serde round trip of every state
    for &i in &order {
        let v = have[i].as_ref().unwrap(); let t = rs3.unpack(i);
        sp.eval();
        ctx.check("C03.rs.serde", || format!("set={}", rs3.show(t)), || {
            let s = serde_json::to_string(v).map_err(|e| e.to_string())?;
            let x: ResourceSet = serde_json::from_str(&s).map_err(|e| format!("json {s} does not parse back: {e}"))?;
            if rs3.diff(&x, t).is_some() || &x != v { Err(format!("json {s} parses back as {x}")) } else { Ok(()) } });
    }
    // accessors and conversions of every state: what they return must be what is in the set
    let full = (((1u32 << na) - 1), ((1u32 << n4) - 1), ((1u32 << n6) - 1));
    for &i in &order {
        let v = have[i].as_ref().unwrap(); let t = rs3.unpack(i);
        sp.eval();
        ctx.check("C03.rs.accessors", || format!("set={}", rs3.show(t)), || {
            if v.asn_opt().is_some() != !v.asn().is_empty() || v.asn_opt().map(|x| x == v.asn()).unwrap_or(true) == false { return Err("asn_opt disagrees with asn()".into()) }
            if v.ipv4_opt().is_some() != !v.ipv4().is_empty() || v.ipv4_opt().map(|x| x == v.ipv4()).unwrap_or(true) == false { return Err("ipv4_opt disagrees with ipv4()".into()) }
            if v.ipv6_opt().is_some() != !v.ipv6().is_empty() || v.ipv6_opt().map(|x| x == v.ipv6()).unwrap_or(true) == false { return Err("ipv6_opt disagrees with ipv6()".into()) }
            if v.to_as_resources() != AsResources::blocks(v.asn().clone()) { return Err("to_as_resources differs from AsResources::blocks(asn)".into()) }
            if v.to_ip_resources_v4() != IpResources::blocks((**v.ipv4()).clone()) { return Err("to_ip_resources_v4 differs from IpResources::blocks(ipv4)".into()) }
            if v.to_ip_resources_v6() != IpResources::blocks((**v.ipv6()).clone()) { return Err("to_ip_resources_v6 differs from IpResources::blocks(ipv6)".into()) }
            let all = ResourceSet::all();
            if !all.contains(v) || (all == *v) != (t == full) || (v.contains(&all)) != (t == full) { return Err("ResourceSet::all() is not the set that contains everything".into()) }
            if all != ResourceSet::new(AsBlocks::all(), Ipv4Blocks::all(), Ipv6Blocks::all()) { return Err("ResourceSet::all() differs from the set of the three all() collections".into()) }
            Ok(()) });
    }
    // textual round trip of every state (the three Display forms back through from_strs)
    for &i in &order {
        let v = have[i].as_ref().unwrap(); let t = rs3.unpack(i);
        sp.eval();
        ctx.check("C03.rs.display_from_strs", || format!("set={}", rs3.show(t)), || {
            let (a, b, c) = (v.asn().to_string(), v.ipv4().to_string(), v.ipv6().to_string());
            let x = ResourceSet::from_strs(&a, &b, &c).map_err(|e| format!("text ({a:?}, {b:?}, {c:?}) does not parse back: {e}"))?;
            if rs3.diff(&x, t).is_some() || &x != v { Err(format!("text ({a:?}, {b:?}, {c:?}) parses back as {x}")) } else { Ok(()) } });
    }
    let nbad = bad.load(std::sync::atomic::Ordering::Relaxed);
    sp.states(order.len() as u64);
    sp.set("seed_states", json!(seed_states)); sp.set("canonical_states", json!(order.len())); sp.set("noncanonical_results", json!(nbad));
    sp.set("subsets_of_atoms", json!(nstates_max)); sp.set("bfs_rounds", json!(rounds)); sp.set("fixpoint_reached", json!(true));
    sp.sample_str(|| format!("rs: {} seed states -> {} states after {} rounds (2^{} = {})", seed_states, order.len(), rounds, na + n4 + n6, nstates_max));
    if order.len() != nstates_max && ctx.violations_so_far() == 0 { ctx.machinery_error(format!("rs: closure reached only {} of {} triples", order.len(), nstates_max)); }
    sp.done(true, &format!("fixpoint after {} rounds: {} states, all ordered pairs x (4 set results + 8 limit patterns)", rounds, order.len()));
    if order.len() == nstates_max { limit_forms(ctx, &rs3, &have); json_orders(ctx, &rs3, &have); set_ownership(ctx, &rs3, &have); interactions(ctx, &rs3, &have) }
}

//------------ JSON member order, setters under shared ownership, policy x shape x depth ----------------------

/// All orders of the members of the JSON forms, through from_str and through serde_json::Value.
fn json_orders(ctx: &Ctx, rs3: &Rs3, have: &[Option<ResourceSet>]) {
    let sp = ctx.space("rs.json_member_order",
        "every ResourceSet state written as a JSON object with its three members in each of the 6 orders, with the canonical names and with the v4 / v6 aliases, read through serde_json::from_str and through serde_json::Value; the same for a RequestResourceLimit naming all three families, and for a ResourceDiff {added, removed} in both orders; the value read must be the state; non-trivial = orders other than the one the serializer writes");
    let perms: [[usize; 3]; 6] = [[0, 1, 2], [0, 2, 1], [1, 0, 2], [1, 2, 0], [2, 0, 1], [2, 1, 0]];
    (0..have.len()).into_par_iter().for_each(|i| {
        let v = have[i].as_ref().unwrap(); let t = rs3.unpack(i);
        let vals = match guard(|| [json!(v.asn().to_string()), json!(v.ipv4().to_string()), json!(v.ipv6().to_string())]) { Ok(x) => x, Err(p) => { ctx.fail("C03.rs.json_member_order.panic", format!("set={}", rs3.show(t)), p); return } };
        for (pi, perm) in perms.iter().enumerate() { for alias in [false, true] {
            let names = if alias { ["asn", "v4", "v6"] } else { ["asn", "ipv4", "ipv6"] };
            let text = format!("{{{}}}", perm.iter().map(|&k| format!("{}:{}", json!(names[k]), vals[k])).collect::<Vec<_>>().join(","));
            sp.evals(3); if pi != 0 { sp.nontrivial(1) }
            sp.outcome(if alias { "alias-names" } else { "canonical-names" });
            ctx.check("C03.rs.json_member_order", || format!("json={text}"), || {
                let a: ResourceSet = serde_json::from_str(&text).map_err(|e| format!("from_str refuses: {e}"))?;
                let val: serde_json::Value = serde_json::from_str(&text).map_err(|e| e.to_string())?;
                let b: ResourceSet = serde_json::from_value(val).map_err(|e| format!("from_value refuses: {e}"))?;
                let l: RequestResourceLimit = serde_json::from_str(&text).map_err(|e| format!("as a limit, from_str refuses: {e}"))?;
                if rs3.diff(&a, t).is_some() || &a != v || &b != v { return Err(format!("reads as {a} / {b}")) }
                if l.asn() != Some(v.asn()) || l.ipv4() != Some(v.ipv4()) || l.ipv6() != Some(v.ipv6()) { return Err(format!("as a limit it reads as {l}")) }
                Ok(()) });
        } }
        // ResourceDiff in both member orders (against the empty set: added = the state)
        sp.eval();
        ctx.check("C03.rs.json_member_order", || format!("diff of {} against the empty set", rs3.show(t)), || {
            let d = v.difference(&ResourceSet::empty());
            let j = serde_json::to_value(&d).map_err(|e| e.to_string())?;
            let swapped = format!("{{\"removed\":{},\"added\":{}}}", j["removed"], j["added"]);
            let back: rpki::repository::resources::ResourceDiff = serde_json::from_str(&swapped).map_err(|e| format!("{swapped} is refused: {e}"))?;
            if back != d || back.is_empty() != d.is_empty() || back.to_string() != d.to_string() { return Err(format!("{swapped} reads as another diff")) }
            Ok(()) });
    });
    sp.done(true, &format!("{} states x 6 member orders x 2 name sets x 3 readers", have.len()));
}

/// Setters and in-place changes on a ResourceSet / limit that is the sole owner of its parts, has a
/// live clone, or had one dropped just before.
fn set_ownership(ctx: &Ctx, rs3: &Rs3, have: &[Option<ResourceSet>]) {
    let sp = ctx.space("rs.ownership",
        "every ResourceSet state x every subset of a family's atoms as the new part x {set_asn, set_ipv4, set_ipv6, RequestResourceLimit::with_asn / with_ipv4 / with_ipv6} x ownership {the target rebuilt so that it owns its parts alone, the target with a live clone, the target whose clone was dropped just before}: the result must be the set built directly from the parts, every observer agreeing (is_empty, *_opt, to_*_resources), and the live clone must be unchanged; non-trivial = pairs where the new part differs from the old one");
    let fresh = |v: &ResourceSet| ResourceSet::new(v.asn().iter().collect(), Ipv4Blocks::from(v.ipv4().iter().collect::<IpBlocks>()), Ipv6Blocks::from(v.ipv6().iter().collect::<IpBlocks>()));
    (0..have.len()).into_par_iter().for_each(|i| {
        let v = have[i].as_ref().unwrap(); let t = rs3.unpack(i);
        let mut nt = 0u64; let mut ev = 0u64;
        let (na, n4, n6) = rs3.bits();
        for part in 0..3usize { for m in 0..(1u32 << [na, n4, n6][part]) {
            // the new part: every subset of the family's atoms, taken from a state that has it
            let u = match part { 0 => (m, 0, 0), 1 => (0, m, 0), _ => (0, 0, m) };
            let src = have[rs3.pack(u)].as_ref().unwrap();
            for own in 0..3 { {
                ev += 1;
                let want = match part { 0 => (u.0, t.1, t.2), 1 => (t.0, u.1, t.2), _ => (t.0, t.1, u.2) };
                if want != t { nt += 1 }
                let r = guard(|| {
                    let mut x = match own { 0 => fresh(v), _ => v.clone() };
                    let keep = match own { 1 => Some(x.clone()), 2 => { let c = x.clone(); drop(c); None } _ => None };
                    match part { 0 => x.set_asn(src.asn().clone()), 1 => x.set_ipv4(src.ipv4().clone()), _ => x.set_ipv6(src.ipv6().clone()) }
                    let mut l = RequestResourceLimit::new(); l.with_asn(v.asn().clone()); l.with_ipv4(v.ipv4().clone()); l.with_ipv6(v.ipv6().clone());
                    let lk = l.clone();
                    match part { 0 => l.with_asn(src.asn().clone()), 1 => l.with_ipv4(src.ipv4().clone()), _ => l.with_ipv6(src.ipv6().clone()) }
                    (x, keep, l, lk)
                });
                match r {
                    Err(p) => ctx.fail("C03.rs.ownership.panic", format!("target={} source={} part={part} ownership={own}", rs3.show(t), rs3.show(u)), p),
                    Ok((x, keep, l, lk)) => {
                        let obs = x.is_empty() == (want == (0, 0, 0)) && x.asn_opt().is_some() == (want.0 != 0) && x.ipv4_opt().is_some() == (want.1 != 0) && x.ipv6_opt().is_some() == (want.2 != 0) && x.to_as_resources().is_present() == (want.0 != 0);
                        let lim_ok = l.asn().map(|a| same(&Val::As(a.clone()), &rs3.a.canon[want.0 as usize])) == Some(true) && l.ipv4().map(|a| same(&Val::Ip((**a).clone()), &rs3.v4.canon[want.1 as usize])) == Some(true)
                            && l.ipv6().map(|a| same(&Val::Ip((**a).clone()), &rs3.v6.canon[want.2 as usize])) == Some(true) && lk.asn() == Some(v.asn()) && lk.ipv4() == Some(v.ipv4()) && lk.ipv6() == Some(v.ipv6());
                        if rs3.diff(&x, want).is_some() || !obs || !lim_ok || keep.map(|k| rs3.diff(&k, t).is_some()).unwrap_or(false) || rs3.diff(v, t).is_some() {
                            ctx.fail("C03.rs.ownership", format!("target={} source={} part={part} ownership={own}", rs3.show(t), rs3.show(u)), format!("after the setter the set is {x}, the limit {l}"));
                        }
                    }
                }
            } }
        } }
        sp.evals(ev); sp.nontrivial(nt);
    });
    sp.outcome("sole-owner"); sp.outcome("live-clone"); sp.outcome("clone-dropped");
    sp.done(true, &format!("{} states x every new part of each family x 3 ownership situations", have.len()));
}

/// Trim / refuse policy x shape of the resources (inherit, missing, blocks) x three levels deep.
fn interactions(ctx: &Ctx, rs3: &Rs3, have: &[Option<ResourceSet>]) {
    let sp = ctx.space("rs.interactions",
        "certificate-chain style composition per family: every root set x every chain of three levels, each level = (inherit | missing | blocks(any subset)) x (refuse | trim): the effective resources after each verify_issued are compared literally and through every cheap observer with the model's fold (inherit keeps the issuer's, missing gives none, blocks are intersected under trim and must be contained under refuse); a refusal ends the chain; non-trivial = chains that contain an inherit level and a trim level and a blocks level");
    for (dom, kind) in [(rs3.a, Kind::As), (rs3.v4, Kind::V4), (rs3.v6, Kind::V6)] {
        let n = 1u32 << dom.natoms();
        let vals: Vec<Val> = (0..n).map(|m| { let rs = have[match kind { Kind::As => rs3.pack((m, 0, 0)), Kind::V4 => rs3.pack((0, m, 0)), Kind::V6 => rs3.pack((0, 0, m)) }].as_ref().unwrap();
            match kind { Kind::As => Val::As(rs.asn().clone()), Kind::V4 => Val::Ip((**rs.ipv4()).clone()), Kind::V6 => Val::Ip((**rs.ipv6()).clone()) } }).collect();
        let levels: Vec<(Option<u32>, bool)> = std::iter::once(None).chain((0..n).map(Some)).flat_map(|s| [(s, false), (s, true)]).collect(); // None = inherit, Some(0) = missing
        let nl = levels.len();
        (0..n as usize * nl).into_par_iter().for_each(|i| {
            let (root, l1) = ((i / nl) as u32, levels[i % nl]);
            let mut oc: BTreeMap<&'static str, u64> = BTreeMap::new(); let (mut ev, mut nt) = (0u64, 0u64);
            for &l2 in &levels { for &l3 in &levels {
                ev += 1;
                let chain = [l1, l2, l3];
                if chain.iter().any(|l| l.0.is_none()) && chain.iter().any(|l| l.1) && chain.iter().any(|l| l.0.map(|m| m != 0).unwrap_or(false)) { nt += 1 }
                let wit = || format!("family={} root={} chain={}", dom.name, dom.show_mask(root), chain.iter().map(|(s, t)| format!("{}:{}", match s { None => "inherit".to_string(), Some(0) => "missing".to_string(), Some(m) => dom.show_mask(*m) }, if *t { "trim" } else { "refuse" })).collect::<Vec<_>>().join(" > "));
                let r = guard(|| -> Result<&'static str, String> {
                    let mut cur_m = root; let mut cur = vals[root as usize].clone();
                    for (depth, (shape, trim)) in chain.iter().enumerate() {
                        let mode = if *trim { Overclaim::Trim } else { Overclaim::Refuse };
                        let want = match shape { None => Some(cur_m), Some(m) => if *trim { Some(m & cur_m) } else if m & !cur_m == 0 { Some(*m) } else { None } };
                        let got: Option<Val> = match (&cur, shape) {
                            (Val::As(c), None) => c.verify_issued(&AsResources::inherit(), mode).ok().map(Val::As),
                            (Val::As(c), Some(m)) => match &vals[*m as usize] { Val::As(x) => c.verify_issued(&AsResources::blocks(x.clone()), mode).ok().map(Val::As), _ => unreachable!() },
                            (Val::Ip(c), None) => c.verify_issued(&IpResources::inherit(), mode).ok().map(Val::Ip),
                            (Val::Ip(c), Some(m)) => match &vals[*m as usize] { Val::Ip(x) => c.verify_issued(&IpResources::blocks(x.clone()), mode).ok().map(Val::Ip), _ => unreachable!() },
                        };
                        match (got, want) {
                            (None, None) => return Ok("chain-refused"),
                            (Some(v), Some(w)) => { if !same(&v, &dom.canon[w as usize]) { return Err(format!("level {depth}: effective resources {}, expected {}", dom.show_repr(&repr_of(&v)), dom.show_mask(w))) }
                                observers(dom, &v, w, false).map_err(|e| format!("level {depth}: {e}"))?; cur = v; cur_m = w }
                            (Some(_), None) => return Err(format!("level {depth}: an overclaim was accepted")),
                            (None, Some(_)) => return Err(format!("level {depth}: covered resources were refused")),
                        }
                    }
                    Ok("chain-accepted")
                });
                match r { Ok(Ok(o)) => { *oc.entry(o).or_insert(0) += 1 } Ok(Err(d)) | Err(d) => ctx.fail("C03.rs.interactions", wit(), d) }
            } }
            sp.evals(ev); sp.nontrivial(nt); sp.merge_outcomes(&oc);
        });
    }
    sp.done(true, "every root x every chain of 3 levels over (inherit, missing, every subset) x (refuse, trim), for each family");
}

//------------ value -> form -> value for the request limit --------------------------------------------

const LIMIT_FORMS: &[&str] = &["serde", "json_legacy_none", "json_alias_absent", "xml_issue_request", "issuance_request_serde"];

/// Every RequestResourceLimit over the product domain (per family: no limit, or exactly one of
/// the subsets of atoms incl. the empty set) through each of its forms and back.
fn limit_forms(ctx: &Ctx, rs3: &Rs3, have: &[Option<ResourceSet>]) {
    use rpki::ca::provisioning as prov;
    let sp = ctx.space("limit.forms",
        "RequestResourceLimit: per family None or Some(subset of atoms) (so all 27 combinations of None / Some(empty) / Some(non-empty)) x forms {serde JSON; JSON with the legacy \"none\" for unlimited families; JSON with the v4/v6 aliases and unlimited families absent; the req_resource_set_* attributes of an RFC 6492 issue request written and parsed as XML; serde of the whole IssuanceRequest}; the value read back must be ==, field by field literally the model's representation, print the same, and apply_to must give the model's answer on EVERY ResourceSet of the product domain; non-trivial = limits that name at least one family with the empty set");
    let (na, n4, n6) = rs3.bits();
    let (oa, o4, o6) = ((1u32 << na) + 1, (1u32 << n4) + 1, (1u32 << n6) + 1); // option 0 = None, 1+m = Some(m)
    // real canonical values per family, taken from the closure's states
    let va: Vec<AsBlocks> = (0..1u32 << na).map(|m| have[rs3.pack((m, 0, 0))].as_ref().unwrap().asn().clone()).collect();
    let v4: Vec<Ipv4Blocks> = (0..1u32 << n4).map(|m| have[rs3.pack((0, m, 0))].as_ref().unwrap().ipv4().clone()).collect();
    let v6: Vec<Ipv6Blocks> = (0..1u32 << n6).map(|m| have[rs3.pack((0, 0, m))].as_ref().unwrap().ipv6().clone()).collect();
    let csr = match std::fs::read(format!("{}/test-data/ca/drl-csr.der", rpki_verif::engine::report::repo_dir())).map_err(|e| e.to_string())
        .and_then(|b| rpki::ca::csr::RpkiCaCsr::decode(b.as_slice()).map_err(|e| e.to_string())) {
        Ok(c) => Some(c), Err(e) => { ctx.machinery_error(format!("CSR fixture test-data/ca/drl-csr.der: {e}")); None }
    };
    let txt = |d: &Dom, m: u32| d.runs(m).into_iter().map(|(a, b)| d.block_txt(a, b, true)).collect::<Vec<_>>().join(", ");
    let total = (oa * o4 * o6) as u64;
    par_chunks(total, 8, |lo, hi| {
        let mut oc: BTreeMap<&'static str, u64> = BTreeMap::new();
        let (mut evals, mut nontriv) = (0u64, 0u64);
        for n in lo..hi {
            let n = n as u32;
            let opt = (n % oa, (n / oa) % o4, n / oa / o4);
            let sel = |o: u32| if o == 0 { None } else { Some(o - 1) };
            let (ma, m4, m6) = (sel(opt.0), sel(opt.1), sel(opt.2));
            let mut l = RequestResourceLimit::new();
            if let Some(m) = ma { l.with_asn(va[m as usize].clone()) }
            if let Some(m) = m4 { l.with_ipv4(v4[m as usize].clone()) }
            if let Some(m) = m6 { l.with_ipv6(v6[m as usize].clone()) }
            if ma == Some(0) || m4 == Some(0) || m6 == Some(0) { nontriv += 1 }
            let show = |o: Option<u32>, d: &Dom| match o { None => "unlimited".to_string(), Some(m) => d.show_mask(m) };
            let wit = |form: &str| format!("limit={{asn={} v4={} v6={}}} form={form}", show(ma, rs3.a), show(m4, rs3.v4), show(m6, rs3.v6));
            let field = |o: Option<u32>, d: &Dom| -> serde_json::Value { match o { None => json!("none"), Some(m) => json!(txt(d, m)) } };
            for (f, fname) in LIMIT_FORMS.iter().enumerate() {
                if f >= 3 && csr.is_none() { continue }
                evals += 1;
                let back: Result<Result<RequestResourceLimit, String>, String> = guard(|| match f {
                    0 => { let js = serde_json::to_string(&l).map_err(|e| e.to_string())?; serde_json::from_str(&js).map_err(|e| format!("json {js} does not parse back: {e}")) }
                    1 => { let js = json!({"asn": field(ma, rs3.a), "ipv4": field(m4, rs3.v4), "ipv6": field(m6, rs3.v6)}); serde_json::from_value(js.clone()).map_err(|e| format!("json {js} is refused: {e}")) }
                    2 => {
                        let mut o = serde_json::Map::new();
                        if let Some(m) = ma { o.insert("asn".into(), json!(txt(rs3.a, m))); }
                        if let Some(m) = m4 { o.insert("v4".into(), json!(txt(rs3.v4, m))); }
                        if let Some(m) = m6 { o.insert("v6".into(), json!(txt(rs3.v6, m))); }
                        let js = serde_json::Value::Object(o).to_string();
                        serde_json::from_str(&js).map_err(|e| format!("json {js} is refused: {e}"))
                    }
                    3 => {
                        let req = prov::IssuanceRequest::new(prov::ResourceClassName::from("rc0"), l.clone(), csr.clone().unwrap());
                        let msg = prov::Message::issue(FromStr::from_str("child").unwrap(), FromStr::from_str("parent").unwrap(), req);
                        let xml = msg.to_xml_bytes();
                        match prov::Message::decode(xml.as_ref()).map_err(|e| format!("the written request does not parse back: {e}"))?.into_payload() {
                            prov::Payload::Issue(r) => Ok(r.limit().clone()), _ => Err("the written request parses back as another payload".to_string()) }
                    }
                    _ => {
                        let req = prov::IssuanceRequest::new(prov::ResourceClassName::from("rc0"), l.clone(), csr.clone().unwrap());
                        let js = serde_json::to_value(&req).map_err(|e| e.to_string())?;
                        let r: prov::IssuanceRequest = serde_json::from_value(js).map_err(|e| format!("the serialized request does not parse back: {e}"))?;
                        Ok(r.limit().clone())
                    }
                });
                let got = match back {
                    Err(p) => { ctx.fail(&format!("C03.limit.{fname}.panic"), wit(fname), p); continue }
                    Ok(Err(e)) => { ctx.fail(&format!("C03.limit.{fname}.accept"), wit(fname), e); continue }
                    Ok(Ok(g)) => g,
                };
                // equality, literal fields, printing
                let fa = match (got.asn(), ma) { (None, None) => true, (Some(x), Some(m)) => same(&Val::As(x.clone()), &rs3.a.canon[m as usize]), _ => false };
                let f4 = match (got.ipv4(), m4) { (None, None) => true, (Some(x), Some(m)) => same(&Val::Ip((**x).clone()), &rs3.v4.canon[m as usize]), _ => false };
                let f6 = match (got.ipv6(), m6) { (None, None) => true, (Some(x), Some(m)) => same(&Val::Ip((**x).clone()), &rs3.v6.canon[m as usize]), _ => false };
                let same_value = got == l && fa && f4 && f6 && got.is_empty() == (ma.is_none() && m4.is_none() && m6.is_none()) && got.to_string() == l.to_string();
                if same_value { *oc.entry("same-value-after-trip").or_insert(0) += 1 }
                else { *oc.entry("different-value-after-trip").or_insert(0) += 1;
                    ctx.fail(&format!("C03.limit.{fname}.value"), wit(fname), format!("the limit reads back as \"{got}\" (==: {}), the original prints as \"{l}\"", got == l)); }
                // behaviour: apply_to on every set of the domain, against the model
                let mut refused = 0u64; let mut granted = 0u64; let mut bad: Option<String> = None;
                for (i, set) in have.iter().enumerate() {
                    let set = set.as_ref().unwrap(); let t = rs3.unpack(i);
                    let pick = |lim: Option<u32>, x: u32| match lim { None => Some(x), Some(y) => if y & !x == 0 { Some(y) } else { None } };
                    let want = match (pick(ma, t.0), pick(m4, t.1), pick(m6, t.2)) { (Some(x), Some(y), Some(z)) => Some((x, y, z)), _ => None };
                    let r = got.apply_to(set).ok();
                    let ok = match (&r, want) { (None, None) => { refused += 1; true } (Some(v), Some(w)) => { granted += 1; rs3.diff(v, w).is_none() } _ => false };
                    if !ok && bad.is_none() { bad = Some(format!("applied to {}: {}, expected {}", rs3.show(t), match &r { None => "refused".to_string(), Some(v) => format!("granted {v}") }, match want { None => "refusal".to_string(), Some(w) => rs3.show(w) })) }
                }
                evals += have.len() as u64;
                *oc.entry("apply_to:refused").or_insert(0) += refused; *oc.entry("apply_to:granted").or_insert(0) += granted;
                if let Some(d) = bad { ctx.fail(&format!("C03.limit.{fname}.apply_to"), wit(fname), d) }
            }
        }
        sp.evals(evals); sp.nontrivial(nontriv); sp.merge_outcomes(&oc);
    });
    sp.set("limits", json!(total)); sp.set("forms", json!(LIMIT_FORMS)); sp.set("sets_applied_to", json!(have.len()));
    sp.sample_str(|| { let mut l = RequestResourceLimit::new(); l.with_asn(va[0].clone()); l.with_ipv4(v4[1].clone()); format!("limit \"{l}\" serializes as {}", serde_json::to_string(&l).unwrap_or_default()) });
    sp.done(true, &format!("all {} limits x {} forms x apply_to on all {} sets", total, LIMIT_FORMS.len(), have.len()));
}

//------------ builder.sequences: object-level history of builders and incremental constructors ------------

/// One argument of a builder call: the blocks of a subset of atoms, spelled either as the subset's
/// canonical run list (ascending) or atom by atom from the top down (unsorted and adjacent).
struct Operand<B> { mask: u32, desc: bool, raw: Vec<(u128, u128)>, blocks: Vec<B> }

fn operand_list<B>(dom: &Dom, masks: &[u32], desc_masks: &[u32], mk: impl Fn(Kind, u128, u128) -> B) -> Vec<Operand<B>> {
    let mut v = Vec::new();
    for &m in masks {
        for desc in [false, true] {
            if desc && (m.count_ones() < 2 || !desc_masks.contains(&m)) { continue }
            let raw: Vec<(u128, u128)> = if desc { (0..dom.natoms()).rev().filter(|i| m & (1 << i) != 0).map(|i| dom.atoms[i]).collect() } else { dom.runs(m) };
            let blocks = raw.iter().map(|&(lo, hi)| mk(dom.kind, lo, hi)).collect();
            v.push(Operand { mask: m, desc, raw, blocks });
        }
    }
    v
}

/// The blocks of an operand in the order they are handed over.
fn operand_txt<B>(dom: &Dom, o: &Operand<B>) -> String { format!("[{}]", o.raw.iter().map(|&(lo, hi)| dom.block_txt(lo, hi, true)).collect::<Vec<_>>().join(", ")) }

fn as_block(_k: Kind, lo: u128, hi: u128) -> AsBlock { if lo == hi { AsBlock::from(asn(lo)) } else { AsBlock::from((asn(lo), asn(hi))) } }
fn ip_block(k: Kind, lo: u128, hi: u128) -> IpBlock {
    match prefix_len(lo, hi, k.width()) { Some(l) => IpBlock::from(Prefix::new(addr(k.lib_min(lo)), l)), None => IpBlock::from((addr(k.lib_min(lo)), addr(k.lib_max(hi)))) }
}

/// The two families of builders behind one interface, so that one explorer runs both (and compares them).
trait BuilderFam {
    type Block: Copy + Send + Sync;
    type BB: Clone;
    type RB: Clone;
    type Res;
    fn block(k: Kind, lo: u128, hi: u128) -> Self::Block;
    fn bb_new(default: bool) -> Self::BB;
    fn bb_push(b: &mut Self::BB, k: Kind, lo: u128, hi: u128);
    fn bb_extend(b: &mut Self::BB, blocks: &[Self::Block]);
    fn bb_finalize(b: Self::BB) -> Val;
    fn collect(blocks: &[Self::Block]) -> Val;
    fn rb_new(default: bool) -> Self::RB;
    fn rb_inherit(r: &mut Self::RB);
    fn rb_blocks(r: &mut Self::RB, f: impl FnOnce(&mut Self::BB));
    fn rb_finalize(r: Self::RB) -> Self::Res;
    /// (is_inherited, is_present, to_blocks)
    fn res_shape(r: &Self::Res) -> (bool, bool, Option<Val>);
    /// == the value made directly: None = inherit(), Some(v) = blocks(v)
    fn res_is(r: &Self::Res, twin: Option<&Val>) -> bool;
}

struct AsFam; struct IpFam;

impl BuilderFam for AsFam {
    type Block = AsBlock; type BB = AsBlocksBuilder; type RB = AsResourcesBuilder; type Res = AsResources;
    fn block(k: Kind, lo: u128, hi: u128) -> AsBlock { as_block(k, lo, hi) }
    fn bb_new(default: bool) -> AsBlocksBuilder { if default { AsBlocksBuilder::default() } else { AsBlocksBuilder::new() } }
    fn bb_push(b: &mut AsBlocksBuilder, _k: Kind, lo: u128, hi: u128) { if lo == hi { b.push(asn(lo)) } else { b.push((asn(lo), asn(hi))) } }
    fn bb_extend(b: &mut AsBlocksBuilder, blocks: &[AsBlock]) { b.extend(blocks.iter().copied()) }
    fn bb_finalize(b: AsBlocksBuilder) -> Val { Val::As(b.finalize()) }
    fn collect(blocks: &[AsBlock]) -> Val { Val::As(blocks.iter().copied().collect()) }
    fn rb_new(default: bool) -> AsResourcesBuilder { if default { AsResourcesBuilder::default() } else { AsResourcesBuilder::new() } }
    fn rb_inherit(r: &mut AsResourcesBuilder) { r.inherit() }
    fn rb_blocks(r: &mut AsResourcesBuilder, f: impl FnOnce(&mut AsBlocksBuilder)) { r.blocks(f) }
    fn rb_finalize(r: AsResourcesBuilder) -> AsResources { r.finalize() }
    fn res_shape(r: &AsResources) -> (bool, bool, Option<Val>) { (r.is_inherited(), r.is_present(), r.to_blocks().ok().map(Val::As)) }
    fn res_is(r: &AsResources, twin: Option<&Val>) -> bool { match twin { None => *r == AsResources::inherit(), Some(Val::As(v)) => *r == AsResources::blocks(v.clone()), _ => false } }
}

impl BuilderFam for IpFam {
    type Block = IpBlock; type BB = IpBlocksBuilder; type RB = IpResourcesBuilder; type Res = IpResources;
    fn block(k: Kind, lo: u128, hi: u128) -> IpBlock { ip_block(k, lo, hi) }
    fn bb_new(default: bool) -> IpBlocksBuilder { if default { IpBlocksBuilder::default() } else { IpBlocksBuilder::new() } }
    fn bb_push(b: &mut IpBlocksBuilder, k: Kind, lo: u128, hi: u128) {
        match prefix_len(lo, hi, k.width()) { Some(l) => b.push(Prefix::new(addr(k.lib_min(lo)), l)), None => b.push((addr(k.lib_min(lo)), addr(k.lib_max(hi)))) }
    }
    fn bb_extend(b: &mut IpBlocksBuilder, blocks: &[IpBlock]) { b.extend(blocks.iter().copied()) }
    fn bb_finalize(b: IpBlocksBuilder) -> Val { Val::Ip(b.finalize()) }
    fn collect(blocks: &[IpBlock]) -> Val { Val::Ip(blocks.iter().copied().collect()) }
    fn rb_new(default: bool) -> IpResourcesBuilder { if default { IpResourcesBuilder::default() } else { IpResourcesBuilder::new() } }
    fn rb_inherit(r: &mut IpResourcesBuilder) { r.inherit() }
    fn rb_blocks(r: &mut IpResourcesBuilder, f: impl FnOnce(&mut IpBlocksBuilder)) { r.blocks(f) }
    fn rb_finalize(r: IpResourcesBuilder) -> IpResources { r.finalize() }
    fn res_shape(r: &IpResources) -> (bool, bool, Option<Val>) { (r.is_inherited(), r.is_present(), r.to_blocks().ok().map(Val::Ip)) }
    fn res_is(r: &IpResources, twin: Option<&Val>) -> bool { match twin { None => *r == IpResources::inherit(), Some(Val::Ip(v)) => *r == IpResources::blocks(v.clone()), _ => false } }
}

/// What a block collection denotes in terms of the domain's atoms, read off the stored blocks alone
/// (no model involved): "blocks:<mask>" if it is exactly a union of atoms, else the stored list.
fn abstract_val(dom: &Dom, v: &Val) -> String {
    let r = repr_of(v);
    let mut m = 0u32;
    for b in &r { if b.min <= b.max { let (lo, hi) = if dom.kind == Kind::V4 { (b.min >> 96, b.max >> 96) } else { (b.min, b.max) }; m |= dom.touched(lo, hi) } }
    if denoted(&r) == dom.lib_runs(m) && structural(dom.kind, &r).is_ok() { format!("blocks:{m:b}") } else { format!("other:{} blocks, first {:?}", r.len(), r.first().map(|b| (b.var, b.len))) }
}

/// Judges one finalized block collection against the model's subset of atoms: literal representation
/// (set, canonical, one state per set), every observer, and == a twin collected directly from the runs.
fn judge_blocks<F: BuilderFam>(dom: &Dom, v: &Val, want: u32) -> Vec<(&'static str, String)> {
    if !same(v, &dom.canon[want as usize]) { return analyze(dom, &repr_of(v), want) }
    let mut out = Vec::new();
    if let Err(e) = observers(dom, v, want, true) { out.push(("observers", e)) }
    let runs: Vec<F::Block> = dom.runs(want).into_iter().map(|(lo, hi)| F::block(dom.kind, lo, hi)).collect();
    let twin = F::collect(&runs);
    if !val_eq(v, &twin) || !val_eq(&twin, v) || !val_contains(v, &twin) || !val_contains(&twin, v) { out.push(("twin", "the result is not == / does not mutually contain the collection made directly from the same set".to_string())) }
    out
}

/// The same for a finalized AsResources / IpResources; `want`: None = inherit, Some(0) = missing, Some(m) = blocks.
fn judge_res<F: BuilderFam>(dom: &Dom, r: &F::Res, want: Option<u32>) -> Vec<(&'static str, String)> {
    let (inh, present, blocks) = F::res_shape(r);
    let mut out = Vec::new();
    let shape_txt = |inh: bool, present: bool| if inh { "inherit" } else if present { "blocks" } else { "missing" };
    match want {
        None => {
            if !inh || !present || blocks.is_some() { out.push(("shape", format!("the result is {} (is_inherited={inh} is_present={present} to_blocks().is_ok()={}), the calls made ask for inherit", shape_txt(inh, present), blocks.is_some()))) }
            else if !F::res_is(r, None) { out.push(("twin", "the result is not == inherit()".to_string())) }
        }
        Some(m) => {
            if inh || present != (m != 0) { out.push(("shape", format!("the result is {}{}, the calls made collect {}", shape_txt(inh, present), blocks.as_ref().map(|v| format!(" {}", dom.show_repr(&repr_of(v)))).unwrap_or_default(), if m == 0 { "nothing (missing)".to_string() } else { dom.show_mask(m) }))) }
            match blocks {
                None => if !inh { out.push(("shape", "to_blocks() fails on resources that are not inherited".to_string())) },
                Some(v) => {
                    let laws = judge_blocks::<F>(dom, &v, m);
                    let clean = laws.is_empty();
                    out.extend(laws);
                    if clean && out.is_empty() && !F::res_is(r, Some(&v)) { out.push(("twin", "the result is not == blocks(..) of its own blocks".to_string())) }
                }
            }
        }
    }
    out
}

fn abstract_res<F: BuilderFam>(dom: &Dom, r: &F::Res) -> String {
    let (inh, present, blocks) = F::res_shape(r);
    if inh { "inherit".to_string() } else if !present { "missing".to_string() } else { blocks.map(|v| abstract_val(dom, &v)).unwrap_or_else(|| "unreadable".to_string()) }
}

/// Operations on a blocks builder / a resources builder; indices refer to the operand list.
#[derive(Clone, Copy)]
enum BOp { Push(usize), Extend(usize), Blocks(usize), BlocksExtend(usize), Inherit, CloneContinue, CloneKeep }

fn bop_txt<B>(dom: &Dom, op: BOp, opnds: &[Operand<B>]) -> String {
    match op {
        BOp::Push(i) => format!("push({})", operand_txt(dom, &opnds[i]).trim_matches(|c| c == '[' || c == ']')),
        BOp::Extend(i) => format!("extend({})", operand_txt(dom, &opnds[i])),
        BOp::Blocks(i) => if opnds[i].raw.is_empty() { "blocks(push nothing)".to_string() } else { format!("blocks(push each of {})", operand_txt(dom, &opnds[i])) },
        BOp::BlocksExtend(i) => format!("blocks(extend({}))", operand_txt(dom, &opnds[i])),
        BOp::Inherit => "inherit()".to_string(),
        BOp::CloneContinue => "clone() and continue on the clone".to_string(),
        BOp::CloneKeep => "clone() and keep it".to_string(),
    }
}

/// Finalized objects of one run: (what it is, abstract outcome, violated laws).
type RunOut = Vec<(&'static str, String, Vec<(&'static str, String)>)>;

/// Runs one operation sequence on a real blocks builder; the model is the union of everything pushed.
fn run_bb<F: BuilderFam>(dom: &Dom, opnds: &[Operand<F::Block>], ops: &[BOp], default: bool) -> RunOut {
    let mut cur = F::bb_new(default); let mut m = 0u32;
    let mut fin: Vec<(&'static str, F::BB, u32)> = Vec::new(); let mut kept: Vec<(F::BB, u32)> = Vec::new();
    for &op in ops { match op {
        BOp::Push(i) => { let o = &opnds[i]; for &(lo, hi) in &o.raw { F::bb_push(&mut cur, dom.kind, lo, hi) } m |= o.mask }
        BOp::Extend(i) => { let o = &opnds[i]; F::bb_extend(&mut cur, &o.blocks); m |= o.mask }
        BOp::CloneContinue => { let c = cur.clone(); fin.push(("the original, finalized right after it was cloned", std::mem::replace(&mut cur, c), m)) }
        BOp::CloneKeep => kept.push((cur.clone(), m)),
        _ => unreachable!(),
    } }
    let mut out: RunOut = Vec::new();
    for (what, b, bm) in fin { let v = F::bb_finalize(b); out.push((what, abstract_val(dom, &v), judge_blocks::<F>(dom, &v, bm))) }
    let v = F::bb_finalize(cur); out.push(("the builder", abstract_val(dom, &v), judge_blocks::<F>(dom, &v, m)));
    for (b, bm) in kept { let v = F::bb_finalize(b); out.push(("the clone taken earlier, finalized last", abstract_val(dom, &v), judge_blocks::<F>(dom, &v, bm))) }
    out
}

/// The same on a real resources builder; model: None = inherit, Some(mask) = blocks collected since
/// the builder was made or since the last inherit().
fn run_rb<F: BuilderFam>(dom: &Dom, opnds: &[Operand<F::Block>], ops: &[BOp], default: bool) -> RunOut {
    let mut cur = F::rb_new(default); let mut m: Option<u32> = Some(0);
    let mut fin: Vec<(&'static str, F::RB, Option<u32>)> = Vec::new(); let mut kept: Vec<(F::RB, Option<u32>)> = Vec::new();
    for &op in ops { match op {
        BOp::Blocks(i) => { let o = &opnds[i]; F::rb_blocks(&mut cur, |b| for &(lo, hi) in &o.raw { F::bb_push(b, dom.kind, lo, hi) }); m = Some(m.unwrap_or(0) | o.mask) }
        BOp::BlocksExtend(i) => { let o = &opnds[i]; F::rb_blocks(&mut cur, |b| F::bb_extend(b, &o.blocks)); m = Some(m.unwrap_or(0) | o.mask) }
        BOp::Inherit => { F::rb_inherit(&mut cur); m = None }
        BOp::CloneContinue => { let c = cur.clone(); fin.push(("the original, finalized right after it was cloned", std::mem::replace(&mut cur, c), m)) }
        BOp::CloneKeep => kept.push((cur.clone(), m)),
        _ => unreachable!(),
    } }
    let mut out: RunOut = Vec::new();
    for (what, b, bm) in fin { let r = F::rb_finalize(b); out.push((what, abstract_res::<F>(dom, &r), judge_res::<F>(dom, &r, bm))) }
    let r = F::rb_finalize(cur); out.push(("the builder", abstract_res::<F>(dom, &r), judge_res::<F>(dom, &r, m)));
    for (b, bm) in kept { let r = F::rb_finalize(b); out.push(("the clone taken earlier, finalized last", abstract_res::<F>(dom, &r), judge_res::<F>(dom, &r, bm))) }
    out
}

/// Everything one family needs for the two single-family builder spaces.
struct FamSetup<F: BuilderFam> { dom: Dom, opnds: Vec<Operand<F::Block>> }

fn fam_setup<F: BuilderFam>(dom: Dom) -> FamSetup<F> {
    let masks: Vec<u32> = (0..(1u32 << dom.natoms())).collect();
    let opnds = operand_list(&dom, &masks, &masks, F::block);
    FamSetup { dom, opnds }
}

/// Blocks builders and resources builders of the three families over two isomorphic 4-atom universes.
fn builder_sequences_single(ctx: &Ctx, max_len: u32) {
    let universes: Vec<(&str, FamSetup<AsFam>, FamSetup<IpFam>, FamSetup<IpFam>)> = vec![
        ("ends", fam_setup(Dom::from_points("bseq.as", Kind::As, &[0, 1, u32::MAX as u128])), fam_setup(Dom::from_points("bseq.v4", Kind::V4, &[0, 1, u32::MAX as u128])), fam_setup(Dom::from_points("bseq.v6", Kind::V6, &[0, 1, u128::MAX]))),
        ("quarters", fam_setup(Dom::aligned("bseq.asq", Kind::As, 2)), fam_setup(Dom::aligned("bseq.v4q", Kind::V4, 2)), fam_setup(Dom::aligned("bseq.v6q", Kind::V6, 2))),
    ];
    for which in ["blocks", "resources"] {
        let resources = which == "resources";
        let sp = ctx.space(&format!("builder.sequences.{which}"), if resources {
            "AsResourcesBuilder / IpResourcesBuilder (as IPv4 and as IPv6) as objects with a history: every sequence of <= N calls out of {blocks(|b| push each block of X), blocks(|b| b.extend(X)) for every subset X of a 4-atom universe (the empty call included; X spelled as its run list or atom by atom from the top, i.e. unsorted and adjacent), inherit(), clone() and continue on the clone (the original is finalized at once), clone() and keep it (finalized last)} starting from new() and from default(), then finalize(); universes: atoms {0},{1},{2..MAX-1},{MAX} and the four quarters of the space (prefixes). Reading of the (sparse) documentation, stated here because the oracle depends on it: the builder holds ONE blocks builder ('an empty builder will be transformed into missing resources', 'None means inherited') which every blocks() call is handed, so blocks() ACCUMULATES; inherit() REPLACES everything collected by the inherit marker and a later blocks() starts again from nothing -- the two families' in-tree code agrees on all of this. Model: inherit | union of everything pushed since construction / the last inherit(). The finalized value must have the model's shape (inherit / missing / blocks), be literally the canonical block list, satisfy every observer and be == the value made directly; independently of the model the three families must give the same abstract outcome for the same sequence (siblings_agree). Non-trivial = sequences with at least two block-collecting calls, or a block-collecting call after inherit()"
        } else {
            "AsBlocksBuilder / IpBlocksBuilder (as IPv4 and as IPv6) as objects with a history: every sequence of <= N calls out of {push(b) for every single run b of a 4-atom universe (through the Asn / (Asn, Asn) / Prefix / (Addr, Addr) conversions), Extend::extend(X) for every subset X (the empty one included; spelled as its run list or atom by atom from the top, i.e. unsorted and adjacent), clone() and continue on the clone (the original is finalized at once), clone() and keep it (finalized last)} starting from new() and from default(), then finalize(). push and Extend by their names and std's contract ADD to what was collected; nothing replaces. Model: union of everything pushed. The finalized collection must be literally the canonical block list of the union, satisfy every observer and be == the collection made directly from the set; independently of the model the three families must give the same abstract outcome (siblings_agree). Non-trivial = sequences with at least two collecting calls whose sets touch or overlap"
        });
        let pfx = format!("C03.builder.sequences.{which}");
        let states: Mutex<BTreeSet<String>> = Mutex::new(BTreeSet::new());
        let mut alphabet = 0usize; let mut total_seqs = 0u64;
        for (uname, fa, f4, f6) in &universes {
            // the operation alphabet is the same for the three families (isomorphic atoms)
            let n_op = fa.opnds.len(); assert_eq!(n_op, f4.opnds.len()); assert_eq!(n_op, f6.opnds.len());
            let mut ops: Vec<BOp> = Vec::new();
            if resources {
                for i in 0..n_op { ops.push(BOp::Blocks(i)); ops.push(BOp::BlocksExtend(i)) }
                ops.push(BOp::Inherit);
            } else {
                for i in 0..n_op { let o = &fa.opnds[i]; if !o.desc && o.raw.len() == 1 { ops.push(BOp::Push(i)) } }
                for i in 0..n_op { ops.push(BOp::Extend(i)) }
            }
            ops.push(BOp::CloneContinue); ops.push(BOp::CloneKeep);
            let k = ops.len() as u64; alphabet = ops.len();
            let total = seq_count(k, max_len); total_seqs += total * 2;
            // one sweep per sequence length, shortest first, so that the witnesses printed are the shortest
            for len in 0..=max_len { let (from, to) = (if len == 0 { 0 } else { seq_count(k, len - 1) } * 2, seq_count(k, len) * 2);
            par_chunks(to - from, 512, |lo, hi| {
                let (lo, hi) = (lo + from, hi + from);
                let mut oc: BTreeMap<&'static str, u64> = BTreeMap::new();
                let mut local_states: BTreeSet<String> = BTreeSet::new();
                let (mut evals, mut nontriv, mut trans) = (0u64, 0u64, 0u64);
                let mut idx: Vec<usize> = Vec::new();
                for n in lo..hi {
                    let default = n % 2 == 1;
                    seq_at(k, max_len, n / 2, &mut idx);
                    let seq: Vec<BOp> = idx.iter().map(|&i| ops[i]).collect();
                    // non-triviality, measured on the sequence
                    let mut collected: Vec<u32> = Vec::new(); let mut after_inherit = false; let mut seen_inherit = false;
                    for op in &seq { match *op {
                        BOp::Push(i) | BOp::Extend(i) | BOp::Blocks(i) | BOp::BlocksExtend(i) => { collected.push(fa.opnds[i].mask); if seen_inherit { after_inherit = true } }
                        BOp::Inherit => seen_inherit = true, _ => {} } }
                    let touching = |a: u32, b: u32| a & b != 0 || (a << 1) & b != 0 || (b << 1) & a != 0;
                    let nt = if resources { collected.len() >= 2 || after_inherit } else { (0..collected.len()).any(|i| (i + 1..collected.len()).any(|j| touching(collected[i], collected[j]))) };
                    if nt { nontriv += 1 }
                    let wit = |fam: &str, dom: &Dom, txt: &dyn Fn(BOp) -> String| format!("builder={}{} start={} calls=[{}finalize()]", if fam == "as" { "As" } else { "Ip" }, if resources { "ResourcesBuilder" } else { "BlocksBuilder" }, if default { "default()" } else { "new()" }, seq.iter().map(|o| txt(*o) + "; ").collect::<String>()) + &format!(" family={fam} universe={uname}:{}", dom.atoms.len());
                    let ra = guard(|| if resources { run_rb::<AsFam>(&fa.dom, &fa.opnds, &seq, default) } else { run_bb::<AsFam>(&fa.dom, &fa.opnds, &seq, default) });
                    let r4 = guard(|| if resources { run_rb::<IpFam>(&f4.dom, &f4.opnds, &seq, default) } else { run_bb::<IpFam>(&f4.dom, &f4.opnds, &seq, default) });
                    let r6 = guard(|| if resources { run_rb::<IpFam>(&f6.dom, &f6.opnds, &seq, default) } else { run_bb::<IpFam>(&f6.dom, &f6.opnds, &seq, default) });
                    evals += 3; trans += 3 * (seq.len() as u64 + 1);
                    let wa = || wit("as", &fa.dom, &|o| bop_txt(&fa.dom, o, &fa.opnds));
                    let w4 = || wit("v4", &f4.dom, &|o| bop_txt(&f4.dom, o, &f4.opnds));
                    let w6 = || wit("v6", &f6.dom, &|o| bop_txt(&f6.dom, o, &f6.opnds));
                    let mut abstracts: Vec<Option<Vec<String>>> = Vec::new();
                    for (fam, r, w) in [("as", ra, &wa as &dyn Fn() -> String), ("v4", r4, &w4), ("v6", r6, &w6)] {
                        match r {
                            Err(p) => { ctx.fail(&format!("{pfx}.panic"), w(), p); abstracts.push(None) }
                            Ok(outs) => {
                                for (what, abs, laws) in &outs {
                                    if fam == "as" { local_states.insert(abs.clone()); }
                                    let cls: &'static str = if abs == "inherit" { "finalized:inherit" } else if abs == "missing" || abs == "blocks:0" { "finalized:empty-or-missing" } else if abs.starts_with("blocks:") { "finalized:blocks" } else { "finalized:malformed" };
                                    *oc.entry(cls).or_insert(0) += 1;
                                    for (law, d) in laws { ctx.fail(&format!("{pfx}.{law}"), w(), format!("{what}: {d}")) }
                                }
                                abstracts.push(Some(outs.into_iter().map(|o| o.1).collect()));
                            }
                        }
                    }
                    if let (Some(a), Some(b), Some(c)) = (&abstracts[0], &abstracts[1], &abstracts[2]) {
                        if a != b || a != c { ctx.fail(&format!("{pfx}.siblings_agree"), wa(), format!("the same calls give {a:?} on the AS builder, {b:?} on the IP builder with IPv4 blocks and {c:?} with IPv6 blocks (blocks:<bitmask over the atoms>)")) }
                    }
                }
                sp.evals(evals); sp.nontrivial(nontriv); sp.transitions(trans); sp.traces(evals); sp.merge_outcomes(&oc);
                states.lock().unwrap().extend(local_states);
            }); }
        }
        let states = states.into_inner().unwrap();
        sp.states(states.len() as u64);
        sp.set("universes", json!(universes.iter().map(|u| u.0).collect::<Vec<_>>()));
        sp.set("operation_alphabet", json!(alphabet)); sp.set("sequences_per_family", json!(total_seqs)); sp.set("families", json!(["as", "v4", "v6"]));
        sp.set("model_states_reached", json!(states.iter().cloned().collect::<Vec<_>>()));
        for (uname, fa, f4, _) in &universes {
            sp.sample_str(|| format!("universe {uname}: atoms {} resp. {}; operands e.g. {}", fa.dom.atoms.iter().map(|a| fa.dom.block_txt(a.0, a.1, true)).collect::<Vec<_>>().join(" | "), f4.dom.atoms.iter().map(|a| f4.dom.block_txt(a.0, a.1, true)).collect::<Vec<_>>().join(" | "), f4.opnds.iter().skip(5).step_by(6).take(4).map(|o| operand_txt(&f4.dom, o)).collect::<Vec<_>>().join(" | ")));
        }
        sp.done(true, &format!("all sequences of <= {max_len} calls over {alphabet} calls x 2 starts x 3 families x 2 universes, each finalized"));
    }
}

/// A family's shape inside a multi-family object: None = inherit, Some(0) = missing / empty, Some(m) = blocks.
type Sh = Option<u32>;

fn sh_txt(dom: &Dom, s: Sh) -> String { match s { None => "inherit".to_string(), Some(0) => "missing".to_string(), Some(m) => dom.show_mask(m) } }

/// Operations on the three-family objects; family 0 = asn, 1 = v4, 2 = v6; `usize` = index into the family's operand list.
#[derive(Clone, Copy)]
enum MOp { Set(usize, usize), SetShape(usize, Sh), SetInherit(usize), Build(usize, usize), FromIter(usize, usize), CloneContinue, CloneKeep }

struct Multi { doms: [Dom; 3], oa: Vec<Operand<AsBlock>>, o4: Vec<Operand<IpBlock>>, o6: Vec<Operand<IpBlock>> }

impl Multi {
    fn new(pts: &[u128], pts6: &[u128]) -> Multi {
        let doms = [Dom::from_points("bseq.rs.asn", Kind::As, pts), Dom::from_points("bseq.rs.v4", Kind::V4, pts), Dom::from_points("bseq.rs.v6", Kind::V6, pts6)];
        let masks: Vec<u32> = (0..(1u32 << doms[0].natoms())).collect();
        let full = (1u32 << doms[0].natoms()) - 1;
        // atom-by-atom spellings for the two sets that merge across atoms
        let desc = [3u32, full];
        let oa = operand_list(&doms[0], &masks, &desc, as_block); let o4 = operand_list(&doms[1], &masks, &desc, ip_block); let o6 = operand_list(&doms[2], &masks, &desc, ip_block);
        Multi { doms, oa, o4, o6 }
    }
    fn n_operands(&self) -> usize { self.oa.len() }
    fn mask(&self, i: usize) -> u32 { self.oa[i].mask }
    fn desc(&self, i: usize) -> bool { self.oa[i].desc }
    fn as_val(&self, i: usize) -> AsBlocks { self.oa[i].blocks.iter().copied().collect() }
    fn v4_val(&self, i: usize) -> IpBlocks { self.o4[i].blocks.iter().copied().collect() }
    fn v6_val(&self, i: usize) -> IpBlocks { self.o6[i].blocks.iter().copied().collect() }
    fn twin_as(&self, m: u32) -> AsBlocks { self.doms[0].runs(m).into_iter().map(|(a, b)| as_block(Kind::As, a, b)).collect() }
    fn twin_ip(&self, f: usize, m: u32) -> IpBlocks { self.doms[f].runs(m).into_iter().map(|(a, b)| ip_block(self.doms[f].kind, a, b)).collect() }
    fn fam_name(f: usize) -> &'static str { ["as", "v4", "v6"][f] }
    fn operand_txt(&self, f: usize, i: usize) -> String { match f { 0 => operand_txt(&self.doms[0], &self.oa[i]), 1 => operand_txt(&self.doms[1], &self.o4[i]), _ => operand_txt(&self.doms[2], &self.o6[i]) } }
    fn show3(&self, t: [Sh; 3]) -> String { format!("{{asn={} v4={} v6={}}}", sh_txt(&self.doms[0], t[0]), sh_txt(&self.doms[1], t[1]), sh_txt(&self.doms[2], t[2])) }
    /// Literal comparison of a family's stored blocks with the model's canonical list.
    fn lit_as(&self, v: &AsBlocks, m: u32) -> bool { same(&Val::As(v.clone()), &self.doms[0].canon[m as usize]) }
    fn lit_ip(&self, f: usize, v: &IpBlocks, m: u32) -> bool { same(&Val::Ip(v.clone()), &self.doms[f].canon[m as usize]) }
}

fn mop_txt(mu: &Multi, target: &str, op: MOp) -> String {
    let (set, build) = match target { "set" => ("set_", ""), "limit" => ("with_", ""), _ => ("set_", "build_") };
    match op {
        MOp::Set(f, i) => if target == "tbs" { format!("set_{}_resources(blocks({}))", Multi::fam_name(f), mu.operand_txt(f, i)) } else { format!("{set}{}({})", ["asn", "ipv4", "ipv6"][f], mu.operand_txt(f, i)) },
        MOp::SetShape(f, s) => format!("set_{}_resources({})", Multi::fam_name(f), if s.is_none() { "inherit()" } else { "missing()" }),
        MOp::SetInherit(f) => format!("set_{}_resources_inherit()", Multi::fam_name(f)),
        MOp::Build(f, i) => if mu.oa[i].raw.is_empty() { format!("{build}{}_resource_blocks(push nothing)", Multi::fam_name(f)) } else { format!("{build}{}_resource_blocks(push each of {})", Multi::fam_name(f), mu.operand_txt(f, i)) },
        MOp::FromIter(f, i) => format!("{}_resources_from_iter({})", Multi::fam_name(f), mu.operand_txt(f, i)),
        MOp::CloneContinue => "clone() and continue on the clone".to_string(),
        MOp::CloneKeep => "clone() and keep it".to_string(),
    }
}

/// Every observer of a ResourceSet against the model triple, and against a twin that only ever saw the final state.
fn judge_set(mu: &Multi, x: &ResourceSet, t: [u32; 3]) -> Result<(), String> {
    if !mu.lit_as(x.asn(), t[0]) || !mu.lit_ip(1, x.ipv4(), t[1]) || !mu.lit_ip(2, x.ipv6(), t[2]) { return Err(format!("the set is {x}, the calls made leave {}", mu.show3([Some(t[0]), Some(t[1]), Some(t[2])]))) }
    let obs = x.is_empty() == (t == [0, 0, 0]) && x.asn_opt().is_some() == (t[0] != 0) && x.ipv4_opt().is_some() == (t[1] != 0) && x.ipv6_opt().is_some() == (t[2] != 0)
        && x.to_as_resources().is_present() == (t[0] != 0) && x.to_ip_resources_v4().is_present() == (t[1] != 0) && x.to_ip_resources_v6().is_present() == (t[2] != 0);
    if !obs { return Err(format!("is_empty / *_opt / to_*_resources of {x} disagree with its content")) }
    let twin = ResourceSet::new(mu.twin_as(t[0]), mu.twin_ip(1, t[1]).into(), mu.twin_ip(2, t[2]).into());
    if *x != twin || twin != *x || !x.contains(&twin) || !twin.contains(x) || x.to_string() != twin.to_string() || !x.difference(&twin).is_empty() { return Err(format!("{x} differs (==, contains, Display or difference) from the set made directly from the same three parts")) }
    let (a, b) = (serde_json::to_string(x).map_err(|e| e.to_string())?, serde_json::to_string(&twin).map_err(|e| e.to_string())?);
    if a != b { return Err(format!("serializes as {a}, the set made directly as {b}")) }
    Ok(())
}

/// The same for a request limit; per family None = no limit.
fn judge_limit(mu: &Multi, l: &RequestResourceLimit, t: [Sh; 3], probes: &[([u32; 3], ResourceSet)]) -> Result<(), String> {
    let fa = match (l.asn(), t[0]) { (None, None) => true, (Some(v), Some(m)) => mu.lit_as(v, m), _ => false };
    let f4 = match (l.ipv4(), t[1]) { (None, None) => true, (Some(v), Some(m)) => mu.lit_ip(1, v, m), _ => false };
    let f6 = match (l.ipv6(), t[2]) { (None, None) => true, (Some(v), Some(m)) => mu.lit_ip(2, v, m), _ => false };
    let want_txt = || format!("{{asn={} v4={} v6={}}}", t[0].map(|m| mu.doms[0].show_mask(m)).unwrap_or("unlimited".into()), t[1].map(|m| mu.doms[1].show_mask(m)).unwrap_or("unlimited".into()), t[2].map(|m| mu.doms[2].show_mask(m)).unwrap_or("unlimited".into()));
    if !fa || !f4 || !f6 { return Err(format!("the limit is \"{l}\", the calls made leave {}", want_txt())) }
    if l.is_empty() != (t == [None, None, None]) { return Err(format!("is_empty() is {} for {}", l.is_empty(), want_txt())) }
    let mut twin = RequestResourceLimit::new();
    if let Some(m) = t[0] { twin.with_asn(mu.twin_as(m)) } if let Some(m) = t[1] { twin.with_ipv4(mu.twin_ip(1, m).into()) } if let Some(m) = t[2] { twin.with_ipv6(mu.twin_ip(2, m).into()) }
    if *l != twin || l.to_string() != twin.to_string() { return Err(format!("\"{l}\" differs (== or Display) from the limit made directly, \"{twin}\"")) }
    let (a, b) = (serde_json::to_string(l).map_err(|e| e.to_string())?, serde_json::to_string(&twin).map_err(|e| e.to_string())?);
    if a != b { return Err(format!("serializes as {a}, the limit made directly as {b}")) }
    for (pt, set) in probes {
        let pick = |lim: Sh, x: u32| match lim { None => Some(x), Some(y) => if y & !x == 0 { Some(y) } else { None } };
        let want = match (pick(t[0], pt[0]), pick(t[1], pt[1]), pick(t[2], pt[2])) { (Some(a), Some(b), Some(c)) => Some([a, b, c]), _ => None };
        match (l.apply_to(set).ok(), want) {
            (None, None) => {}
            (Some(got), Some(w)) if mu.lit_as(got.asn(), w[0]) && mu.lit_ip(1, got.ipv4(), w[1]) && mu.lit_ip(2, got.ipv6(), w[2]) => {}
            (got, _) => return Err(format!("apply_to({set}) gives {}, expected {}", got.map(|g| g.to_string()).unwrap_or("a refusal".into()), want.map(|w| mu.show3([Some(w[0]), Some(w[1]), Some(w[2])])).unwrap_or("a refusal".into()))),
        }
    }
    Ok(())
}

fn find(hay: &[u8], needle: &[u8]) -> bool { needle.len() <= hay.len() && hay.windows(needle.len()).any(|w| w == needle) }

/// The RFC 3779 extensions the model's shapes call for, written by the independent encoder.
struct TbsExpect { ip_oid: Vec<u8>, as_oid: Vec<u8>, ip_ext: Option<Vec<u8>>, as_ext: Option<Vec<u8>> }

fn tbs_expect(mu: &Multi, t: [Sh; 3]) -> TbsExpect {
    let ip_oid = der::oid(&[1, 3, 6, 1, 5, 5, 7, 1, 7]); let as_oid = der::oid(&[1, 3, 6, 1, 5, 5, 7, 1, 8]);
    let fam = |f: usize| -> Option<Vec<u8>> {
        let dom = &mu.doms[f]; let w = dom.kind.width();
        let afi = der::octets(&[0, if f == 1 { 1 } else { 2 }]);
        match t[f] {
            Some(0) => None,
            None => Some(der::seq(&[afi, der::null()])),
            Some(m) => { let items: Vec<Vec<u8>> = dom.runs(m).into_iter().map(|(lo, hi)| match prefix_len(lo, hi, w) { Some(l) => der::ip_prefix_bits(lo, l, w as u8), None => der::ip_range(lo, hi, w as u8) }).collect(); Some(der::seq(&[afi, der::seq(&items)])) }
        }
    };
    let fams: Vec<Vec<u8>> = [fam(1), fam(2)].into_iter().flatten().collect();
    let ip_ext = if fams.is_empty() { None } else { Some(der::seq(&[ip_oid.clone(), der::boolean(true), der::octets(&der::seq(&fams))])) };
    let as_ext = match t[0] {
        Some(0) => None,
        None => Some(der::as_identifiers(None)),
        Some(m) => { let items: Vec<der::AsItem> = mu.doms[0].runs(m).into_iter().map(|(lo, hi)| if lo == hi { der::AsItem::Id(lo) } else { der::AsItem::Range(lo, hi) }).collect(); Some(der::as_identifiers(Some(&items))) }
    }.map(|v| der::seq(&[as_oid.clone(), der::boolean(true), der::octets(&v)]));
    TbsExpect { ip_oid, as_oid, ip_ext, as_ext }
}

/// Accessors and the encoded extensions of a TbsCert against the model's three shapes.
fn judge_tbs(mu: &Multi, tbs: &rpki::repository::cert::TbsCert, t: [Sh; 3]) -> Result<(), String> {
    let shape_ip = |f: usize, r: &IpResources| -> bool { match t[f] {
        None => r.is_inherited() && r.is_present() && r.to_blocks().is_err() && *r == IpResources::inherit(),
        Some(0) => !r.is_inherited() && !r.is_present() && r.to_blocks().map(|b| b.is_empty()).unwrap_or(false) && *r == IpResources::missing(),
        Some(m) => !r.is_inherited() && r.is_present() && r.to_blocks().map(|b| mu.lit_ip(f, &b, m)).unwrap_or(false) && *r == IpResources::blocks(mu.twin_ip(f, m)),
    } };
    let a = tbs.as_resources();
    let as_ok = match t[0] {
        None => a.is_inherited() && a.is_present() && a.to_blocks().is_err() && *a == AsResources::inherit(),
        Some(0) => !a.is_inherited() && !a.is_present() && a.to_blocks().map(|b| b.is_empty()).unwrap_or(false) && *a == AsResources::missing(),
        Some(m) => !a.is_inherited() && a.is_present() && a.to_blocks().map(|b| mu.lit_as(&b, m)).unwrap_or(false) && *a == AsResources::blocks(mu.twin_as(m)),
    };
    let show_ip = |r: &IpResources, f: usize| if r.is_inherited() { "inherit".to_string() } else if !r.is_present() { "missing".to_string() } else { r.to_blocks().map(|b| mu.doms[f].show_repr(&repr_of(&Val::Ip(b)))).unwrap_or_default() };
    if !as_ok || !shape_ip(1, tbs.v4_resources()) || !shape_ip(2, tbs.v6_resources()) {
        return Err(format!("the certificate data hold {{asn={} v4={} v6={}}}, the calls made leave {}", if a.is_present() { a.to_string() } else { "missing".to_string() }, show_ip(tbs.v4_resources(), 1), show_ip(tbs.v6_resources(), 2), mu.show3(t)))
    }
    if tbs.has_ip_resources() != (t[1] != Some(0) || t[2] != Some(0)) { return Err(format!("has_ip_resources() is {} for {}", tbs.has_ip_resources(), mu.show3(t))) }
    let bytes = tbs.encode_ref().to_captured(Mode::Der);
    let e = tbs_expect(mu, t);
    match &e.ip_ext { Some(x) => if !find(bytes.as_slice(), x) { return Err(format!("the encoded certificate data do not contain the IP address extension of {}", mu.show3(t))) }, None => if find(bytes.as_slice(), &e.ip_oid) { return Err("the encoded certificate data contain an IP address extension although both families are missing".to_string()) } }
    match &e.as_ext { Some(x) => if !find(bytes.as_slice(), x) { return Err(format!("the encoded certificate data do not contain the AS extension of {}", mu.show3(t))) }, None => if find(bytes.as_slice(), &e.as_oid) { return Err("the encoded certificate data contain an AS extension although the AS resources are missing".to_string()) } }
    Ok(())
}

/// ResourceSet setters, RequestResourceLimit::with_*, and TbsCert's resource setters / builders, as objects with a history.
fn builder_sequences_multi(ctx: &Ctx, max_len: u32) {
    let thorough = ctx.tier.is_thorough();
    let mu = if thorough { Multi::new(&[0, 1, u32::MAX as u128], &[0, 1, u128::MAX]) } else { Multi::new(&[0, u32::MAX as u128], &[0, u128::MAX]) };
    let mu3 = Multi::new(&[0, u32::MAX as u128], &[0, u128::MAX]); // the certificate data always over the 3-atom universe
    let signer = rpki_verif::engine::signer::PoolSigner::load();
    let base_tbs = {
        use rpki::repository::cert::{KeyUsage, TbsCert};
        let key = signer.public(0);
        TbsCert::new(rpki::repository::x509::Serial::from(1u64), key.to_subject_name(), rpki_verif::engine::pki::default_validity(), None, key, KeyUsage::Ca, Overclaim::Refuse)
    };
    for target in ["set", "limit", "tbs"] {
        let mu = if target == "tbs" { &mu3 } else { &mu };
        let nat = mu.doms[0].natoms(); let full = (1u32 << nat) - 1;
        let sp = ctx.space(&format!("builder.sequences.{target}"), match target {
            "set" => "ResourceSet as an object with a history: every sequence of <= N calls out of {set_asn(X), set_ipv4(X), set_ipv6(X) for every subset X of the family's atoms (collected from its run list or atom by atom, highest first), clone() and continue on the clone (the original is judged at once), clone() and keep it (judged last)} starting from empty(), default() and all(). The setters carry no documentation; by their name and in-tree they REPLACE the one family and leave the other two alone, the three siblings alike. Model: per family the last set given. After the sequence the set must be literally the three canonical block lists, with every observer (is_empty, *_opt, to_*_resources, ==, contains, difference, Display, serde) agreeing with a twin made directly from the final parts; non-trivial = sequences that set one family at least twice or two different families",
            "limit" => "RequestResourceLimit as an object with a history: every sequence of <= N calls out of {with_asn(X), with_ipv4(X), with_ipv6(X) for every subset X (the empty set included: 'ask for nothing' differs from 'no limit'), clone() and continue on the clone, clone() and keep it} starting from new() and default(). Undocumented per method; the type's comment says a limit given for a type limits 'that type only', in-tree each call REPLACES that family's limit. Model: per family None or the last set given. Afterwards accessors (literal block lists), is_empty, ==, Display and serde must equal a twin made directly, and apply_to on four probe sets (everything, nothing, two mixed) must answer as the model; non-trivial = sequences that limit one family at least twice or two different families",
            _ => "TbsCert's resources as an object with a history (no signing needed): every sequence of <= N calls out of, per family (as, v4, v6): {set_*_resources(missing() | inherit() | blocks(X)), set_*_resources_inherit(), build_*_resource_blocks(|b| push X), *_resources_from_iter(X) for every subset X of a 3-atom universe incl. the empty one, two of them also atom by atom from the top}, clone() and continue on the clone, clone() and keep it; starting from TbsCert::new (all missing). Documentation: 'Set(s) the ... resources', 'Builds the blocks ... resources', 'Builds the ... resources from an iterator' -- every call REPLACES that family's resources (build_* makes a fresh builder each time) and must leave the other two families alone. Model: per family the shape given last (inherit | missing | blocks). Afterwards the three accessors (shape, literal block list, == the value made directly), has_ip_resources() and the encoded certificate data (must contain exactly the RFC 3779 extensions the independent encoder writes for the model's shapes, none for missing families) are judged; non-trivial = sequences that touch one family at least twice or two different families",
        });
        let pfx = format!("C03.builder.sequences.{target}");
        let n_op = mu.n_operands();
        let mut ops: Vec<MOp> = Vec::new();
        for f in 0..3 {
            for i in 0..n_op { ops.push(MOp::Set(f, i)) }
            if target == "tbs" {
                ops.push(MOp::SetShape(f, None)); ops.push(MOp::SetShape(f, Some(0))); ops.push(MOp::SetInherit(f));
                for i in 0..n_op { ops.push(MOp::Build(f, i)); if !mu.desc(i) { ops.push(MOp::FromIter(f, i)) } }
            }
        }
        ops.push(MOp::CloneContinue); ops.push(MOp::CloneKeep);
        let starts: &[&str] = match target { "set" => &["empty()", "default()", "all()"], "limit" => &["new()", "default()"], _ => &["TbsCert::new(..)"] };
        let ns = starts.len() as u64;
        let k = ops.len() as u64;
        let total = seq_count(k, max_len);
        // probe sets for apply_to
        let mk_set = |t: [u32; 3]| ResourceSet::new(mu.twin_as(t[0]), mu.twin_ip(1, t[1]).into(), mu.twin_ip(2, t[2]).into());
        let probes: Vec<([u32; 3], ResourceSet)> = [[full, full, full], [0, 0, 0], [3, full & !1, 1], [full & !2, 1, full]].into_iter().map(|t| (t, mk_set(t))).collect();
        let states: Mutex<BTreeSet<[Sh; 3]>> = Mutex::new(BTreeSet::new());
        for len in 0..=max_len { let (from, to) = (if len == 0 { 0 } else { seq_count(k, len - 1) } * ns, seq_count(k, len) * ns);
        par_chunks(to - from, 256, |lo, hi| {
            let (lo, hi) = (lo + from, hi + from);
            let mut oc: BTreeMap<&'static str, u64> = BTreeMap::new();
            let mut local_states: BTreeSet<[Sh; 3]> = BTreeSet::new();
            let (mut evals, mut nontriv, mut trans) = (0u64, 0u64, 0u64);
            let mut idx: Vec<usize> = Vec::new();
            for n in lo..hi {
                let start = (n % ns) as usize;
                seq_at(k, max_len, n / ns, &mut idx);
                let seq: Vec<MOp> = idx.iter().map(|&i| ops[i]).collect();
                let fams: Vec<usize> = seq.iter().filter_map(|o| match *o { MOp::Set(f, _) | MOp::SetShape(f, _) | MOp::SetInherit(f) | MOp::Build(f, _) | MOp::FromIter(f, _) => Some(f), _ => None }).collect();
                if fams.len() >= 2 { nontriv += 1 }
                evals += 1; trans += seq.len() as u64 + 1;
                let wit = || format!("object={} start={} calls=[{}]", match target { "set" => "ResourceSet", "limit" => "RequestResourceLimit", _ => "TbsCert" }, starts[start], seq.iter().map(|o| mop_txt(mu, target, *o)).collect::<Vec<_>>().join("; "));
                // the model: per family the shape given last
                let init: [Sh; 3] = match (target, start) { ("set", 2) => [Some(full); 3], ("set", _) => [Some(0); 3], ("limit", _) => [None; 3], _ => [Some(0); 3] };
                let step = |t: &mut [Sh; 3], op: MOp| match op {
                    MOp::Set(f, i) | MOp::Build(f, i) | MOp::FromIter(f, i) => t[f] = Some(mu.mask(i)),
                    MOp::SetShape(f, s) => t[f] = s, MOp::SetInherit(f) => t[f] = None, _ => {} };
                let r = guard(|| -> Vec<(&'static str, [Sh; 3], Result<(), String>)> {
                    let mut t = init; let mut out = Vec::new();
                    match target {
                        "set" => {
                            let mut cur = match start { 0 => ResourceSet::empty(), 1 => ResourceSet::default(), _ => ResourceSet::all() };
                            let mut kept: Vec<(ResourceSet, [Sh; 3])> = Vec::new();
                            let plain = |t: [Sh; 3]| [t[0].unwrap(), t[1].unwrap(), t[2].unwrap()];
                            for &op in &seq { match op {
                                MOp::Set(0, i) => cur.set_asn(mu.as_val(i)), MOp::Set(1, i) => cur.set_ipv4(mu.v4_val(i).into()), MOp::Set(_, i) => cur.set_ipv6(mu.v6_val(i).into()),
                                MOp::CloneContinue => { let c = cur.clone(); let orig = std::mem::replace(&mut cur, c); out.push(("the original, judged right after it was cloned", t, judge_set(mu, &orig, plain(t)))) }
                                MOp::CloneKeep => kept.push((cur.clone(), t)),
                                _ => unreachable!() }
                                step(&mut t, op) }
                            out.push(("the object", t, judge_set(mu, &cur, plain(t))));
                            for (c, ct) in kept { out.push(("the clone taken earlier, judged last", ct, judge_set(mu, &c, plain(ct)))) }
                        }
                        "limit" => {
                            let mut cur = if start == 0 { RequestResourceLimit::new() } else { RequestResourceLimit::default() };
                            let mut kept: Vec<(RequestResourceLimit, [Sh; 3])> = Vec::new();
                            for &op in &seq { match op {
                                MOp::Set(0, i) => cur.with_asn(mu.as_val(i)), MOp::Set(1, i) => cur.with_ipv4(mu.v4_val(i).into()), MOp::Set(_, i) => cur.with_ipv6(mu.v6_val(i).into()),
                                MOp::CloneContinue => { let c = cur.clone(); let orig = std::mem::replace(&mut cur, c); out.push(("the original, judged right after it was cloned", t, judge_limit(mu, &orig, t, &probes))) }
                                MOp::CloneKeep => kept.push((cur.clone(), t)),
                                _ => unreachable!() }
                                step(&mut t, op) }
                            out.push(("the object", t, judge_limit(mu, &cur, t, &probes)));
                            for (c, ct) in kept { out.push(("the clone taken earlier, judged last", ct, judge_limit(mu, &c, ct, &probes))) }
                        }
                        _ => {
                            let mut cur = base_tbs.clone();
                            let mut kept: Vec<(rpki::repository::cert::TbsCert, [Sh; 3])> = Vec::new();
                            for &op in &seq { match op {
                                MOp::Set(0, i) => cur.set_as_resources(AsResources::blocks(mu.as_val(i))),
                                MOp::Set(1, i) => cur.set_v4_resources(IpResources::blocks(mu.v4_val(i))),
                                MOp::Set(_, i) => cur.set_v6_resources(IpResources::blocks(mu.v6_val(i))),
                                MOp::SetShape(0, s) => cur.set_as_resources(if s.is_none() { AsResources::inherit() } else { AsResources::missing() }),
                                MOp::SetShape(1, s) => cur.set_v4_resources(if s.is_none() { IpResources::inherit() } else { IpResources::missing() }),
                                MOp::SetShape(_, s) => cur.set_v6_resources(if s.is_none() { IpResources::inherit() } else { IpResources::missing() }),
                                MOp::SetInherit(0) => cur.set_as_resources_inherit(), MOp::SetInherit(1) => cur.set_v4_resources_inherit(), MOp::SetInherit(_) => cur.set_v6_resources_inherit(),
                                MOp::Build(0, i) => cur.build_as_resource_blocks(|b| for &(lo, hi) in &mu.oa[i].raw { AsFam::bb_push(b, Kind::As, lo, hi) }),
                                MOp::Build(1, i) => cur.build_v4_resource_blocks(|b| for &(lo, hi) in &mu.o4[i].raw { IpFam::bb_push(b, Kind::V4, lo, hi) }),
                                MOp::Build(_, i) => cur.build_v6_resource_blocks(|b| for &(lo, hi) in &mu.o6[i].raw { IpFam::bb_push(b, Kind::V6, lo, hi) }),
                                MOp::FromIter(0, i) => cur.as_resources_from_iter(mu.oa[i].blocks.iter().copied()),
                                MOp::FromIter(1, i) => cur.v4_resources_from_iter(mu.o4[i].blocks.iter().copied()),
                                MOp::FromIter(_, i) => cur.v6_resources_from_iter(mu.o6[i].blocks.iter().copied()),
                                MOp::CloneContinue => { let c = cur.clone(); let orig = std::mem::replace(&mut cur, c); out.push(("the original, judged right after it was cloned", t, judge_tbs(mu, &orig, t))) }
                                MOp::CloneKeep => kept.push((cur.clone(), t)),
                            }
                                step(&mut t, op) }
                            out.push(("the object", t, judge_tbs(mu, &cur, t)));
                            for (c, ct) in kept { out.push(("the clone taken earlier, judged last", ct, judge_tbs(mu, &c, ct))) }
                        }
                    }
                    out
                });
                match r {
                    Err(p) => ctx.fail(&format!("{pfx}.panic"), wit(), p),
                    Ok(outs) => for (what, t, verdict) in outs {
                        local_states.insert(t);
                        let cls: &'static str = if t.iter().any(|s| s.is_none()) { if target == "limit" { "final:some-family-unlimited" } else { "final:some-family-inherits" } } else if t.iter().all(|s| *s == Some(0)) { "final:all-empty" } else { "final:blocks-only" };
                        *oc.entry(cls).or_insert(0) += 1;
                        if let Err(d) = verdict { ctx.fail(&pfx, wit(), format!("{what}: {d}")) }
                    },
                }
            }
            sp.evals(evals); sp.nontrivial(nontriv); sp.transitions(trans); sp.traces(evals); sp.merge_outcomes(&oc);
            states.lock().unwrap().extend(local_states);
        }); }
        let states = states.into_inner().unwrap();
        sp.states(states.len() as u64);
        sp.set("operation_alphabet", json!(ops.len())); sp.set("starts", json!(starts)); sp.set("sequences", json!(total * ns)); sp.set("atoms_per_family", json!(nat));
        sp.sample_str(|| format!("calls e.g. {}", ops.iter().step_by(ops.len() / 5 + 1).map(|o| mop_txt(mu, target, *o)).collect::<Vec<_>>().join(" | ")));
        sp.done(true, &format!("all sequences of <= {max_len} calls over {} calls x {} starts; {} model states reached", ops.len(), ns, states.len()));
    }
}

//------------ main ---------------------------------------------------------------------------------

fn boundary(kind: Kind, lows: u128, highs: u128) -> Vec<u128> {
    let mut v: Vec<u128> = (0..lows).collect();
    for i in 0..highs { v.push(kind.fam_max() - (highs - 1 - i)) }
    v
}

/// The k that the representation singles out, per family: octet / hextet boundaries of the text and
/// of the DER bit strings, the sign and length boundaries of DER integers (AS), the 32-bit IPv4 part
/// of the shared 128-bit `Addr` (k = 96) and the halves and quarters of an IPv6 address.
fn grid_ks(kind: Kind) -> &'static [u32] { match kind { Kind::As => &[7, 8, 15, 16, 24, 31], Kind::V4 => &[8, 16, 24], Kind::V6 => &[8, 16, 32, 64, 96] } }
fn grid_group(kind: Kind) -> &'static str { match kind { Kind::As => "asgrid", Kind::V4 => "v4grid", Kind::V6 => "v6grid" } }

/// The points of the three placements of the 2^k grid (S = 2^k, every point is m*S or m*S - 1):
/// a = at zero {0, S-1, S, 2S-1, 2S}; b = {2S-1, 2S, 3S-1, 3S, 4S-1, 4S}; c = at the top
/// {MAX-2S, MAX-2S+1, MAX-S, MAX-S+1, MAX}; `wide` = a and b together (construction only).
/// Points beyond the number space are dropped.
fn grid_points(kind: Kind, k: u32) -> [Vec<u128>; 4] {
    let s = 1u128 << k; let max = kind.fam_max();
    let keep = |v: Vec<Option<u128>>| -> Vec<u128> { let mut v: Vec<u128> = v.into_iter().flatten().filter(|x| *x <= max).collect(); v.sort(); v.dedup(); v };
    let m = |n: u128| s.checked_mul(n);
    let a = keep(vec![Some(0), Some(s - 1), Some(s), m(2).map(|x| x - 1), m(2)]);
    let b = keep(vec![m(2).map(|x| x - 1), m(2), m(3).map(|x| x - 1), m(3), m(4).map(|x| x - 1), m(4)]);
    let c = keep(vec![m(2).and_then(|x| max.checked_sub(x)), m(2).and_then(|x| max.checked_sub(x)).map(|x| x + 1), max.checked_sub(s), max.checked_sub(s).map(|x| x + 1), Some(max)]);
    let mut wide = a.clone(); wide.extend(&b); wide.sort(); wide.dedup();
    [a, b, c, wide]
}

/// The value-pattern domains of one family: for every k, the placements that add points.
fn grid_doms(kind: Kind) -> Vec<Dom> {
    let mut out = Vec::new();
    for &k in grid_ks(kind) {
        let pts = grid_points(kind, k);
        let mut seen: Vec<&Vec<u128>> = Vec::new();
        for (i, tag) in ["a", "b", "c"].iter().enumerate() {
            let p = &pts[i];
            if p.len() < 3 || seen.iter().any(|q| p.iter().all(|x| q.contains(x))) { continue }
            seen.push(p);
            let mut d = Dom::from_points(&format!("{}k{k}{tag}", match kind { Kind::As => "as", Kind::V4 => "v4", Kind::V6 => "v6" }), kind, p);
            d.grid = Some((grid_group(kind), k));
            out.push(d);
        }
    }
    out
}

/// Completes the shared spaces of a group once all its domains have run.
fn finish_group(doms: &[Dom], group: &str, what: &str) {
    let listing: Vec<serde_json::Value> = doms.iter().map(|d| json!({"domain": d.name, "k": d.grid.map(|g| g.1), "points": d.ends.iter().map(|&i| format!("{:#x}", d.atoms[i].0)).collect::<Vec<_>>(), "alphabet_blocks": d.blocks.len()})).collect();
    for (name, sp) in GROUP_SPACES.lock().unwrap().iter() {
        if name.split('.').next() != Some(group) { continue }
        if name.ends_with(".construct") { sp.set("domains", json!(listing)) }
        sp.set("domain_count", json!(doms.len()));
        for d in doms.iter().step_by(doms.len().div_ceil(3).max(1)) { sp.sample_str(|| format!("{}: points {}", d.name, d.ends.iter().map(|&i| d.addr_txt(d.atoms[i].0)).collect::<Vec<_>>().join(" "))) }
        sp.done(true, &format!("all {} domains of the group ({what}), each to the bound its rule states", doms.len()));
    }
}

fn main() {
    let ctx = Ctx::new("C03", "model_checking");
    ctx.assume("the property statement is the specification; a block handed to an API constructor with min > max is outside its quantifier (observed, not judged), the same block arriving as text or DER must be rejected");
    ctx.assume("a BER spelling of an RFC 3779 value (non-zero unused bits, long or indefinite lengths, constructed bit strings) may be refused; if it is accepted it must denote the same set as the DER spelling");
    ctx.assume("std's Ipv4Addr/Ipv6Addr text form, serde_json and the independent DER encoder (engine::der) are trusted");
    ctx.assume("the errors of verify_issued(Refuse) / verify_covered read 'overclaimed <family> resources: <blocks>' (their doc comments only say the resources 'are not covered by its issuer'); the blocks are judged as what the words say, the claimed resources the issuer does not hold, in any spelling that parses to that set; a message without a block list is counted, not judged");
    let thorough = ctx.tier.is_thorough();
    let n = ctx.tier.pick(3, 4);

    // full three-layer exploration: boundary domains (11 atoms), aligned prefix domains (8 atoms),
    // and an IPv6 domain around the IPv4-mapped range, whose text form contains dots
    let mapped: Vec<u128> = vec![0xfffe_ffff_ffff, 0xffff_0000_0000, 0xffff_0000_0001, 0xffff_ffff_ffff, 0x1_0000_0000_0000];
    let doms: Vec<Dom> = vec![
        Dom::from_points("as", Kind::As, &boundary(Kind::As, 6, 4)),
        Dom::from_points("v4", Kind::V4, &boundary(Kind::V4, 6, 4)),
        Dom::from_points("v6", Kind::V6, &boundary(Kind::V6, 6, 4)),
        Dom::aligned("v4p", Kind::V4, 3),
        Dom::aligned("v6p", Kind::V6, 3),
        Dom::from_points("v6m", Kind::V6, &mapped),
    ];
    for dom in &doms {
        let seeds = construct(&ctx, dom, n);
        let res = closure(&ctx, dom, seeds);
        queries(&ctx, dom, &res.have);
        choice_forms(&ctx, dom, &res.have);
        api_variants(&ctx, dom);
        handed_out(&ctx, dom, &res.have);
        display_params(&ctx, dom, &res.have);
        if dom.kind.is_ip() { ber_spellings(&ctx, dom) }
        refusals(&ctx, dom, &res.have);
    }
    // the value-pattern dimension: the same layers over points m*2^k and m*2^k - 1 for every k the
    // representation singles out, placed at zero, in the middle and at the top of the number space
    for kind in [Kind::As, Kind::V4, Kind::V6] {
        let grid = grid_doms(kind);
        grid.par_iter().for_each(|dom| {
            let seeds = construct(&ctx, dom, n);
            let res = closure(&ctx, dom, seeds);
            queries(&ctx, dom, &res.have);
            choice_forms(&ctx, dom, &res.have);
            api_variants(&ctx, dom);
            handed_out(&ctx, dom, &res.have);
            display_params(&ctx, dom, &res.have);
            if dom.kind.is_ip() { ber_spellings(&ctx, dom) }
            refusals(&ctx, dom, &res.have);
        });
        finish_group(&grid, grid_group(kind), &format!("k in {:?} x placements a (at zero), b (multiples 2..4), c (at the top)", grid_ks(kind)));
    }
    bit_strings(&ctx);
    for (kind, name) in [(Kind::As, "as"), (Kind::V4, "v4"), (Kind::V6, "v6")] { scale(&ctx, kind, name) }
    as_iteration(&ctx);
    history(&ctx);
    builder_sequences_single(&ctx, n);
    builder_sequences_multi(&ctx, n);
    if thorough {
        // wider boundary domain, construction only (2^15 subsets are too many for the pairwise closure)
        for (name, kind) in [("as14", Kind::As), ("v4x14", Kind::V4), ("v6x14", Kind::V6)] {
            let dom = Dom::from_points(name, kind, &boundary(kind, 8, 6));
            let _ = construct(&ctx, &dom, 3);
        }
        // the 2^k grid with the multiples 0..4 in one domain (13 coverable atoms), construction only
        for kind in [Kind::As, Kind::V4, Kind::V6] {
            let wide: Vec<Dom> = grid_ks(kind).iter().filter_map(|&k| {
                let p = grid_points(kind, k); if p[3].len() <= p[0].len() { return None }
                let mut d = Dom::from_points(&format!("{}k{k}w", match kind { Kind::As => "as", Kind::V4 => "v4", Kind::V6 => "v6" }), kind, &p[3]);
                d.grid = Some((match kind { Kind::As => "asgridw", Kind::V4 => "v4gridw", Kind::V6 => "v6gridw" }, k)); Some(d) }).collect();
            wide.par_iter().for_each(|dom| { let _ = construct(&ctx, dom, 3); });
            finish_group(&wide, wide[0].grid.unwrap().0, "every k, the points 0, S-1, S, ..., 4S-1, 4S in one domain");
        }
        resource_set(&ctx, &[0, 1, u32::MAX as u128], &[0, 1, u128::MAX], 2);
    } else {
        resource_set(&ctx, &[0, u32::MAX as u128], &[0, u128::MAX], 2);
    }
    ctx.finish();
}
