//! C09 — RRDP files round-trip; hostile XML is rejected within fixed bounds.
//!
//! (a) write -> parse round trips of notification / snapshot / delta values
//!     over boundary field domains (own `ProcessSnapshot`/`ProcessDelta`
//!     collector next to the library's `parse`);
//! (b) hostile streams: never-ending generators inserted at every byte
//!     position of a skeleton document per file type, pulled through a
//!     counting reader + `BufReader`; finite "bomb" shapes; every
//!     single-byte substitution / truncation of the captured files; all
//!     short byte strings; pairs of deviations on the skeletons;
//! (c) `sort_and_verify_deltas` and `has_matching_origins` against a
//!     reference model;
//! (d) the sink as a dimension: every file value of (a) written into every
//!     kind of `io::Write` behaviour (short writes, interrupted calls,
//!     buffering wrappers, sinks that fail for good or once at every
//!     position): `Ok` obliges the arrived octets to parse back equal;
//! (e) the construction route as a dimension: the URIs inside the files
//!     made by every public constructor / serde route from texts with
//!     scheme and authority in every case form.
//!
//! Nothing is sampled: every space below is a finite product that is
//! enumerated completely (or reported as cut).

use std::alloc::{GlobalAlloc, Layout, System};
use std::cell::Cell;
use std::collections::BTreeMap;
use std::io::{self, BufReader, Read};
use std::str::FromStr;
use std::sync::atomic::{AtomicU64, Ordering};
use std::sync::Mutex;

use bytes::Bytes;
use rayon::prelude::*;
use rpki::rrdp::{
    Delta, DeltaElement, DeltaInfo, Hash, NotificationFile, ObjectReader,
    ProcessDelta, ProcessError, ProcessSnapshot, PublishElement, Snapshot,
    UpdateElement, UriAndHash, WithdrawElement,
};
use rpki::uri;
use rpki::xml::decode as xd;
use rpki::xml::encode as xe;
use rpki_verif::engine::enumerate::{par_for, seq_at, seq_count};
use rpki_verif::engine::report::repo_dir;
use rpki_verif::{guard, hex, trunc, Ctx};
use serde_json::json;
use uuid::Uuid;

//============ allocation meter (facts only, never an oracle) ================

struct Meter;

thread_local! {
    static CUR: Cell<isize> = const { Cell::new(0) };
    static PEAK: Cell<isize> = const { Cell::new(0) };
}

fn note(d: isize) {
    let _ = CUR.try_with(|c| {
        let v = c.get() + d;
        c.set(v);
        let _ = PEAK.try_with(|p| if v > p.get() { p.set(v) });
    });
}

unsafe impl GlobalAlloc for Meter {
    unsafe fn alloc(&self, l: Layout) -> *mut u8 {
        let p = unsafe { System.alloc(l) };
        if !p.is_null() { note(l.size() as isize) }
        p
    }
    unsafe fn alloc_zeroed(&self, l: Layout) -> *mut u8 {
        let p = unsafe { System.alloc_zeroed(l) };
        if !p.is_null() { note(l.size() as isize) }
        p
    }
    unsafe fn dealloc(&self, p: *mut u8, l: Layout) {
        unsafe { System.dealloc(p, l) };
        note(-(l.size() as isize));
    }
    unsafe fn realloc(&self, p: *mut u8, l: Layout, new: usize) -> *mut u8 {
        let q = unsafe { System.realloc(p, l, new) };
        if !q.is_null() { note(new as isize - l.size() as isize) }
        q
    }
}

#[global_allocator]
static METER: Meter = Meter;

/// Runs `f` and returns the peak of live heap octets (above the level at
/// entry) that this thread allocated while it ran.
fn metered<T>(f: impl FnOnce() -> T) -> (T, u64) {
    CUR.with(|c| c.set(0));
    PEAK.with(|p| p.set(0));
    let r = f();
    (r, PEAK.with(|p| p.get()).max(0) as u64)
}

//============ logger: every log record of the library is formatted ==========

/// Log statements are code that runs in production once the application has
/// a logger. This one is enabled at every level and formats every record, so
/// that a panic inside an argument's Display/Debug impl surfaces in whatever
/// parse triggered the record (and is caught by that case's panic guard).
struct FormattingLogger;
static LOG_RECORDS: AtomicU64 = AtomicU64::new(0);
static LOG_OCTETS: AtomicU64 = AtomicU64::new(0);

impl log::Log for FormattingLogger {
    fn enabled(&self, _: &log::Metadata) -> bool { true }
    fn log(&self, record: &log::Record) {
        use std::fmt::Write as _;
        let mut s = String::new();
        let _ = write!(s, "[{} {}] {}", record.level(), record.target(), record.args());
        LOG_RECORDS.fetch_add(1, Ordering::Relaxed);
        LOG_OCTETS.fetch_add(s.len() as u64, Ordering::Relaxed);
    }
    fn flush(&self) {}
}
static LOGGER: FormattingLogger = FormattingLogger;

//============ deterministic failure reporting ===============================

/// Failures found inside parallel loops are collected with an enumeration
/// index and reported in that order afterwards, so that the printed
/// witnesses (first three per oracle) do not depend on thread timing and are
/// the simplest ones.
struct Fails { v: Mutex<Vec<(u64, &'static str, String, String)>> }

impl Fails {
    fn new() -> Self { Fails { v: Mutex::new(Vec::new()) } }
    fn push(&self, order: u64, oracle: &'static str, wit: String, detail: String) {
        self.v.lock().unwrap().push((order, oracle, wit, detail));
    }
    fn check(&self, order: u64, oracle: &'static str, wit: impl FnOnce() -> String, f: impl FnOnce() -> Result<(), String>) -> bool {
        match guard(f) {
            Ok(Ok(())) => true,
            Ok(Err(d)) => { self.push(order, oracle, wit(), d); false }
            Err(p) => { self.push(order, oracle, wit(), p); false }
        }
    }
    /// Reports in enumeration order, except that per oracle up to three
    /// failures with *different* kinds of detail (text up to the first ';')
    /// go first, so that two distinct defects behind one oracle are both
    /// among the printed witnesses.
    fn flush(&self, ctx: &Ctx) -> u64 {
        let mut v = std::mem::take(&mut *self.v.lock().unwrap());
        v.sort();
        let n = v.len() as u64;
        let mut lead: Vec<usize> = Vec::new();
        let mut seen: BTreeMap<&'static str, Vec<String>> = BTreeMap::new();
        for (i, (_, oracle, _, detail)) in v.iter().enumerate() {
            let class = detail.split(';').next().unwrap_or("").to_string();
            let classes = seen.entry(oracle).or_default();
            if classes.len() < 3 && !classes.contains(&class) { classes.push(class); lead.push(i) }
        }
        for &i in &lead { let (_, oracle, wit, detail) = &v[i]; ctx.fail(oracle, wit.clone(), detail.clone()) }
        for (i, (_, oracle, wit, detail)) in v.into_iter().enumerate() {
            if !lead.contains(&i) { ctx.fail(oracle, wit, detail) }
        }
        n
    }
    /// Reports the failures and records them as an outcome class of the
    /// space, so that a space in which the library misbehaves on every case
    /// is never mistaken for a vacuous one (that would turn real violations
    /// into a machinery exit).
    fn flush_into(&self, ctx: &Ctx, sp: &rpki_verif::Space) {
        let n = self.flush(ctx);
        sp.outcomes_n("oracle-violated", n);
    }
}

//============ small helpers =================================================

const MAX: u64 = u64::MAX;
const HEADER_LIMIT: u64 = 1_000_000; // rrdp.rs MAX_HEADER_SIZE
const FILE_LIMIT: u64 = 100_000_000; // rrdp.rs MAX_FILE_SIZE

fn https(s: &str) -> uri::Https { uri::Https::from_str(s).unwrap_or_else(|e| panic!("alphabet URI {s}: {e}")) }
fn rsync(s: &str) -> uri::Rsync { uri::Rsync::from_str(s).unwrap_or_else(|e| panic!("alphabet URI {s}: {e}")) }

fn sessions() -> [Uuid; 3] {
    [Uuid::nil(), Uuid::from_u128(u128::MAX), Uuid::from_u128(0x9df4b597_af9e_4dca_bdda_719cce2c4e28)]
}
const SERIALS: [u64; 4] = [0, 1, 1 << 63, MAX];

fn hashes() -> [Hash; 3] {
    let mut m = [0u8; 32];
    for (i, b) in m.iter_mut().enumerate() { *b = (i as u8).wrapping_mul(37).wrapping_add(0xAB) }
    [Hash::from([0u8; 32]), Hash::from([0xFFu8; 32]), Hash::from(m)]
}

/// HTTPS URIs: plain, upper-case host and scheme, every URI-legal character
/// that XML escapes (`&`, `'`), text that looks like an entity, no path, and
/// all punctuation `check_uri_ascii` lets through.
const HTTPS_URIS: [&str; 7] = [
    "https://h.example/n/s.xml",
    "https://H.EXAMPLE/N/S.XML",
    "https://h.example/a&b.xml",
    "https://h.example/a'b.xml",
    "https://h.example/&amp;&lt;&apos;'&'.xml",
    "https://h.example",
    "HTTPS://h.example:8443/!$%25&'()*+,-.:;=_~/",
];
const RSYNC_URIS: [&str; 6] = [
    "rsync://h.example/m/a.cer",
    "rsync://H.EXAMPLE/M/A.CER",
    "rsync://h.example/m/a&b.cer",
    "rsync://h.example/m/a'b.cer",
    "rsync://h.example/m/&amp;&quot;'/",
    "RSYNC://h.example:873/m/!$%25&'()*+,-.:;=_~",
];

/// Object content: length and fill pattern (0 = 00.., 1 = ff.., 2 = mixed).
#[derive(Clone, Copy, Debug, PartialEq, Eq)]
struct DataSpec { len: usize, pat: u8 }

impl DataSpec {
    fn bytes(self) -> Bytes {
        let v: Vec<u8> = match self.pat {
            0 => vec![0u8; self.len],
            1 => vec![0xFFu8; self.len],
            _ => (0..self.len).map(|i| (i as u8).wrapping_mul(0x6D).wrapping_add(0xFB)).collect(),
        };
        Bytes::from(v)
    }
    fn show(self) -> String { format!("{}x{}", self.len, ["00", "ff", "mix"][self.pat as usize]) }
}

/// Lengths 0-7, 255, 256, and 3k±1 around the 768-octet input chunk of the
/// base64 `EncoderWriter` (1024-char buffer) and its multiples / the
/// 1024-char buffer of the `DecoderReader`.
fn data_full() -> Vec<DataSpec> {
    let mut v = vec![DataSpec { len: 0, pat: 0 }];
    for len in [1usize, 2, 3, 4, 5, 6, 7, 255, 256, 766, 767, 768, 769, 770, 1023, 1024, 1025, 1535, 1536, 1537] {
        for pat in 0..3u8 { v.push(DataSpec { len, pat }) }
    }
    v
}
fn data_mid() -> Vec<DataSpec> {
    [(0, 0), (1, 2), (2, 1), (3, 2), (4, 0), (255, 2), (767, 2), (768, 1), (769, 2)]
        .iter().map(|&(len, pat)| DataSpec { len, pat }).collect()
}
fn data_small() -> Vec<DataSpec> {
    [(0, 0), (1, 1), (3, 2)].iter().map(|&(len, pat)| DataSpec { len, pat }).collect()
}

//============ collector: what the parser reports ============================

#[derive(Clone, Debug, PartialEq, Eq)]
enum Seen {
    Publish { uri: uri::Rsync, hash: Option<Hash>, data: Vec<u8> },
    Withdraw { uri: uri::Rsync, hash: Hash },
}

/// A `ProcessSnapshot` + `ProcessDelta` implementation that records every
/// callback, reading object data in chunks of `chunk` octets (0 = read_to_end).
struct Collect { chunk: usize, meta: Vec<(Uuid, u64)>, seen: Vec<Seen> }

impl Collect {
    fn new(chunk: usize) -> Self { Collect { chunk, meta: vec![], seen: vec![] } }
    fn slurp(&self, data: &mut ObjectReader) -> Result<Vec<u8>, ProcessError> {
        let mut out = Vec::new();
        if self.chunk == 0 {
            data.read_to_end(&mut out)?;
        } else {
            let mut buf = vec![0u8; self.chunk];
            loop {
                let n = data.read(&mut buf)?;
                if n == 0 { break }
                out.extend_from_slice(&buf[..n]);
            }
        }
        Ok(out)
    }
}

impl ProcessSnapshot for Collect {
    type Err = ProcessError;
    fn meta(&mut self, s: Uuid, n: u64) -> Result<(), ProcessError> { self.meta.push((s, n)); Ok(()) }
    fn publish(&mut self, uri: uri::Rsync, data: &mut ObjectReader) -> Result<(), ProcessError> {
        let data = self.slurp(data)?;
        self.seen.push(Seen::Publish { uri, hash: None, data });
        Ok(())
    }
}

impl ProcessDelta for Collect {
    type Err = ProcessError;
    fn meta(&mut self, s: Uuid, n: u64) -> Result<(), ProcessError> { self.meta.push((s, n)); Ok(()) }
    fn publish(&mut self, uri: uri::Rsync, hash: Option<Hash>, data: &mut ObjectReader) -> Result<(), ProcessError> {
        let data = self.slurp(data)?;
        self.seen.push(Seen::Publish { uri, hash, data });
        Ok(())
    }
    fn withdraw(&mut self, uri: uri::Rsync, hash: Hash) -> Result<(), ProcessError> {
        self.seen.push(Seen::Withdraw { uri, hash });
        Ok(())
    }
}

#[derive(Clone, Copy, Debug, PartialEq, Eq)]
enum Kind { Notification, Snapshot, Delta }

impl Kind {
    fn name(self) -> &'static str { match self { Kind::Notification => "notification", Kind::Snapshot => "snapshot", Kind::Delta => "delta" } }
}

/// Display text of an error; its Debug form and its `source()` chain are
/// formatted as well (inside the caller's panic guard) and thrown away.
fn show_err<E: std::error::Error>(e: &E) -> String {
    let _ = format!("{e:?}");
    let mut src = e.source();
    while let Some(s) = src { let _ = format!("{s} {s:?}"); src = s.source() }
    e.to_string()
}

/// Parses `r` as the given file type with the real parser. Ok(summary) / Err(text).
fn parse_as<R: io::BufRead>(kind: Kind, r: R) -> Result<u64, String> {
    match kind {
        Kind::Notification => NotificationFile::parse(r).map(|n| n.deltas().len() as u64).map_err(|e| show_err(&e)),
        Kind::Snapshot => {
            let mut c = Collect::new(0);
            <Collect as ProcessSnapshot>::process(&mut c, r).map(|_| c.seen.len() as u64).map_err(|e| show_err(&e))
        }
        Kind::Delta => {
            let mut c = Collect::new(0);
            <Collect as ProcessDelta>::process(&mut c, r).map(|_| c.seen.len() as u64).map_err(|e| show_err(&e))
        }
    }
}

//============ (c) delta chain and origins ===================================

fn mk_notification(serials: &[u64]) -> NotificationFile {
    let h = Hash::from([0u8; 32]);
    NotificationFile::new(
        Uuid::nil(), 0,
        UriAndHash::new(https("https://h.example/s.xml"), h),
        serials.iter().enumerate().map(|(i, s)| DeltaInfo::new(*s, https(&format!("https://h.example/d{i}.xml")), h)).collect(),
    )
}

/// Reference: sort, keep the newest `limit`, success <=> consecutive (in Z).
fn model_deltas(serials: &[u64], limit: Option<usize>) -> (Vec<u64>, bool) {
    let mut v = serials.to_vec();
    v.sort();
    if let Some(l) = limit { if l < v.len() { v = v[v.len() - l..].to_vec() } }
    let ok = consecutive(&v);
    (v, ok)
}

fn consecutive(v: &[u64]) -> bool { v.windows(2).all(|w| w[0] as u128 + 1 == w[1] as u128) }

fn show_serial(s: u64) -> String {
    if s == MAX { "MAX".into() } else if s == MAX - 1 { "MAX-1".into() } else { s.to_string() }
}
fn show_serials(v: &[u64]) -> String { format!("[{}]", v.iter().map(|s| show_serial(*s)).collect::<Vec<_>>().join(",")) }

fn space_deltas(ctx: &Ctx) {
    let alphabet: [u64; 7] = [0, 1, 2, 3, 5, MAX - 1, MAX];
    let max_len: u32 = ctx.tier.pick(5, 6);
    let mut limits: Vec<Option<usize>> = vec![None];
    for l in 0..=5usize { limits.push(Some(l)) }
    if ctx.tier.is_thorough() { limits.extend([Some(6), Some(7), Some(usize::MAX)]) }
    let sp = ctx.space("deltas.sort_and_verify",
        "every sequence (all orders of every multiset) of up to N serials from {0,1,2,3,5,MAX-1,MAX} x every limit: return value and retained list of the real sort_and_verify_deltas vs. the reference (sort, keep newest `limit`, consecutive in Z); per sequence also sort_deltas / reverse_sort_deltas (sorted / reverse-sorted multiset of the same entries, delta_status unchanged); non-trivial = cases in which at least two deltas are retained (verdict not vacuous), measured on the model");
    let total = seq_count(7, max_len);
    let limits_ref = &limits;
    let fails = Fails::new();
    par_for(total, |idx| {
        let mut ix = Vec::new();
        seq_at(7, max_len, idx, &mut ix);
        let serials: Vec<u64> = ix.iter().map(|&i| alphabet[i]).collect();
        let mut oc: BTreeMap<&'static str, u64> = BTreeMap::new();
        let mut nt = 0u64;
        for (li, &limit) in limits_ref.iter().enumerate() {
            let order = idx * 16 + li as u64;
            let (want_kept, want_ok) = model_deltas(&serials, limit);
            if want_kept.len() >= 2 { nt += 1 }
            *oc.entry(if want_kept.len() < 2 { "vacuous-success" } else if want_ok { "consecutive" } else { "gap-or-duplicate" }).or_insert(0) += 1;
            let wit = || format!("serials={} limit={:?}", show_serials(&serials), limit);
            let got = guard(|| {
                let mut nf = mk_notification(&serials);
                let r = nf.sort_and_verify_deltas(limit);
                (r, nf.deltas().iter().map(|d| d.serial()).collect::<Vec<u64>>())
            });
            match got {
                Err(p) => fails.push(order, "C09.deltas.verdict", wit(), format!("{p}; expected {want_ok} with retained {}", show_serials(&want_kept))),
                Ok((r, kept)) => {
                    // the property: success exactly when the retained deltas are consecutive
                    if r != consecutive(&kept) {
                        fails.push(order, "C09.deltas.verdict", wit(), format!("returned {r} but retained {} is {}consecutive", show_serials(&kept), if consecutive(&kept) { "" } else { "not " }));
                    } else if r != want_ok {
                        fails.push(order, "C09.deltas.verdict", wit(), format!("returned {r}, reference says {want_ok} (retained {})", show_serials(&want_kept)));
                    }
                    if kept != want_kept {
                        fails.push(order, "C09.deltas.retained", wit(), format!("retained {} but the newest-{:?} of the sorted list is {}", show_serials(&kept), limit, show_serials(&want_kept)));
                    }
                }
            }
        }
        // sort_deltas / reverse_sort_deltas on the same sequence: the sorted / reverse-sorted
        // multiset (serial and URI of every entry kept), delta_status unchanged
        for (k, name) in ["sort_deltas", "reverse_sort_deltas"].into_iter().enumerate() {
            let mut want = serials.clone();
            want.sort();
            if k == 1 { want.reverse() }
            *oc.entry(if want == serials { "sort-keeps-order" } else { "sort-reorders" }).or_insert(0) += 1;
            fails.check(idx * 16 + 14 + k as u64, "C09.deltas.sort", || format!("{name} on serials={}", show_serials(&serials)), || {
                let mut nf = mk_notification(&serials);
                let entries = |nf: &NotificationFile| nf.deltas().iter().map(|d| (d.serial(), d.uri().as_str().to_string())).collect::<Vec<_>>();
                let mut before = entries(&nf);
                if k == 1 { nf.reverse_sort_deltas() } else { nf.sort_deltas() }
                if nf.delta_status().is_err() { return Err("delta_status turned into an error".into()) }
                let mut after = entries(&nf);
                let got: Vec<u64> = after.iter().map(|e| e.0).collect();
                if got != want { return Err(format!("order afterwards {}, expected {}", show_serials(&got), show_serials(&want))) }
                before.sort(); after.sort();
                if before != after { return Err("the entries afterwards are not the entries before".into()) }
                Ok(())
            });
        }
        sp.evals(limits_ref.len() as u64 + 2);
        sp.nontrivial(nt);
        sp.merge_outcomes(&oc);
    });
    fails.flush_into(ctx, &sp);
    // a notification whose delta list was dropped as oversized retains nothing
    {
        for limit in [None, Some(0usize), Some(2)] {
            sp.eval();
            sp.outcome("vacuous-success");
            ctx.check("C09.deltas.verdict", || format!("parse_limited(2) of serials=[1,5,9] then limit={limit:?}"), || {
                let mut xml = Vec::new();
                mk_notification(&[1, 5, 9]).write_xml(&mut xml).map_err(|e| e.to_string())?;
                let mut p = NotificationFile::parse_limited(xml.as_slice(), 2).map_err(|e| e.to_string())?;
                if p.delta_status().is_ok() { return Err("delta list of 3 not reported oversized at limit 2".into()) }
                if !p.sort_and_verify_deltas(limit) { return Err("no deltas retained but reported failure".into()) }
                p.sort_deltas();
                p.reverse_sort_deltas();
                if p.delta_status().is_ok() || !p.deltas().is_empty() { return Err("sorting a dropped (oversized) delta list changed delta_status / deltas()".into()) }
                Ok(())
            });
        }
    }
    sp.sample_str(|| format!("serials=[5,MAX,3] limit=Some(2) -> model retains {:?}", model_deltas(&[5, MAX, 3], Some(2))));
    sp.set("serial_alphabet", json!(["0", "1", "2", "3", "5", "MAX-1", "MAX"]));
    sp.set("limits", json!(limits.iter().map(|l| format!("{l:?}")).collect::<Vec<_>>()));
    sp.done(true, &format!("all sequences of length <= {max_len} over 7 serials x {} limits", limits.len()));
}

/// Independent authority: the text between the 8-octet scheme prefix and
/// the next '/' (or the end), compared ignoring ASCII case.
fn model_authority(u: &str) -> String {
    let rest = &u[8..];
    rest.split('/').next().unwrap_or("").to_ascii_lowercase()
}

fn space_origins(ctx: &Ctx) {
    let bases = ["https://foo.bar/n/notification.xml", "HTTPS://FOO.Bar/n.xml", "https://foo.bar"];
    let uris = [
        "https://foo.bar/1/snapshot.xml",  // equal
        "https://FOO.bar/2/x.xml",         // case variant
        "https://foo.bar",                 // equal, no path
        "https://foo.baz/1/x.xml",         // different
        "https://foo.ba/r/x.xml",          // proper prefix of the authority
        "https://foo.bar.evil/x.xml",      // authority is a prefix of it
        "https://foo.bar:443/x.xml",       // same host, explicit port: different authority text
        "https://foo.bar=evil/x.xml",      // authority continues with a URI-legal non-host character
        "https://evil/foo.bar/x.xml",      // authority in the path
    ];
    let max_deltas: u32 = ctx.tier.pick(3, 4);
    let k = uris.len() as u64;
    let sp = ctx.space("origins.has_matching_origins",
        "base URI x every assignment of 9 URIs (equal, case variant, no path, different, prefix-of, extension-of, port, suffix after '=', in-path) to the snapshot and to 0..N deltas: has_matching_origins vs. `every referenced URI has the base's authority text, ASCII case ignored`; non-trivial = assignments that mix matching and non-matching URIs");
    let h = Hash::from([7u8; 32]);
    let fails = Fails::new();
    for (bi, base) in bases.into_iter().enumerate() {
        let base_uri = https(base);
        let base_auth = model_authority(base);
        let total = seq_count(k, max_deltas) * k;
        par_for(total, |idx| {
            let snap = uris[(idx % k) as usize];
            let mut ix = Vec::new();
            seq_at(k, max_deltas, idx / k, &mut ix);
            let ds: Vec<&str> = ix.iter().map(|&i| uris[i]).collect();
            let matches: Vec<bool> = std::iter::once(snap).chain(ds.iter().copied()).map(|u| model_authority(u) == base_auth).collect();
            let want = matches.iter().all(|m| *m);
            sp.eval();
            if matches.iter().any(|m| *m) && !want { sp.nontrivial(1) }
            sp.outcome(if want { "all-match" } else { "some-foreign" });
            fails.check(((bi as u64) << 40) | idx, "C09.origins", || format!("base={base} snapshot={snap} deltas={ds:?}"), || {
                let nf = NotificationFile::new(Uuid::nil(), 1, UriAndHash::new(https(snap), h),
                    ds.iter().enumerate().map(|(i, u)| DeltaInfo::new(i as u64, https(u), h)).collect());
                let got = nf.has_matching_origins(&base_uri);
                if got != want { return Err(format!("returned {got}, expected {want} (authority match per URI: {matches:?})")) }
                Ok(())
            });
        });
    }
    fails.flush_into(ctx, &sp);
    sp.sample_str(|| format!("base={} snapshot={} deltas=[{}] -> expected false", bases[0], uris[0], uris[6]));
    sp.done(true, &format!("{} bases x 9 snapshot URIs x all delta sequences of length <= {max_deltas} over 9 URIs", bases.len()));
}

//============ (a) round trips ===============================================

#[derive(Clone, Copy, Debug)]
struct DeltaSpec { serial: u64, uri: usize, hash: usize }

fn show_notification(sess: usize, serial: u64, su: usize, sh: usize, ds: &[DeltaSpec]) -> String {
    format!("session#{sess} serial={} snapshot=({},hash#{sh}) deltas=[{}]", show_serial(serial), HTTPS_URIS[su],
        ds.iter().map(|d| format!("({},{},hash#{})", show_serial(d.serial), HTTPS_URIS[d.uri], d.hash)).collect::<Vec<_>>().join(" "))
}

fn build_notification(sess: usize, serial: u64, su: usize, sh: usize, ds: &[DeltaSpec]) -> NotificationFile {
    let hs = hashes();
    NotificationFile::new(sessions()[sess], serial, UriAndHash::new(https(HTTPS_URIS[su]), hs[sh]),
        ds.iter().map(|d| DeltaInfo::new(d.serial, https(HTTPS_URIS[d.uri]), hs[d.hash])).collect())
}

/// write -> parse; both the library's `==` and a field-by-field comparison.
fn roundtrip_notification(nf: &NotificationFile) -> Result<Vec<u8>, String> {
    let mut xml = Vec::new();
    nf.write_xml(&mut xml).map_err(|e| format!("write_xml failed: {e}"))?;
    let back = NotificationFile::parse(xml.as_slice()).map_err(|e| format!("written file does not parse: {e}; xml={}", trunc(&String::from_utf8_lossy(&xml), 400)))?;
    if back.session_id() != nf.session_id() { return Err(format!("session {} -> {}", nf.session_id(), back.session_id())) }
    if back.serial() != nf.serial() { return Err(format!("serial {} -> {}", nf.serial(), back.serial())) }
    if back.snapshot().uri() != nf.snapshot().uri() { return Err(format!("snapshot uri {} -> {}", nf.snapshot().uri(), back.snapshot().uri())) }
    if back.snapshot().hash() != nf.snapshot().hash() { return Err(format!("snapshot hash {} -> {}", nf.snapshot().hash(), back.snapshot().hash())) }
    if back.delta_status().is_err() { return Err("delta list reported oversized without a limit".into()) }
    if back.deltas().len() != nf.deltas().len() { return Err(format!("{} deltas -> {}", nf.deltas().len(), back.deltas().len())) }
    for (i, (a, b)) in nf.deltas().iter().zip(back.deltas()).enumerate() {
        if a.serial() != b.serial() || a.uri() != b.uri() || a.hash() != b.hash() {
            return Err(format!("delta #{i}: ({},{},{}) -> ({},{},{})", a.serial(), a.uri(), a.hash(), b.serial(), b.uri(), b.hash()))
        }
    }
    if &back != nf { return Err("fields agree but `==` says unequal".into()) }
    // into_uri() / into_pair() must agree with uri() / hash(), octet for octet, and with what was written
    for (what, v) in [("written", nf), ("parsed", &back)] {
        let mut refs: Vec<&UriAndHash> = vec![v.snapshot()];
        for d in v.deltas() { refs.push(d) }
        let mut orig: Vec<&UriAndHash> = vec![nf.snapshot()];
        for d in nf.deltas() { orig.push(d) }
        for (i, (r, o)) in refs.iter().zip(&orig).enumerate() {
            let u = (*r).clone().into_uri();
            let (pu, ph) = (*r).clone().into_pair();
            if u.as_str() != r.uri().as_str() || pu.as_str() != r.uri().as_str() || ph != r.hash() {
                return Err(format!("{what} entry #{i}: into_uri()={u} into_pair()=({pu},{ph}) but uri()={} hash()={}", r.uri(), r.hash()))
            }
            if u.as_str() != o.uri().as_str() || ph != o.hash() {
                return Err(format!("{what} entry #{i}: into_uri()/into_pair() give ({u},{ph}), written ({},{})", o.uri(), o.hash()))
            }
        }
    }
    Ok(xml)
}

fn space_rt_notification(ctx: &Ctx) {
    let sp = ctx.space("roundtrip.notification",
        "NotificationFile::new -> write_xml -> parse: (i) session{nil,max,fixed} x serial{0,1,2^63,MAX} x 7 snapshot URIs x 3 hashes x {0,1 delta}; (ii) every sequence of 0..3 deltas over serial{0,1,2,MAX-1,MAX} x URI x hash; (iii) a 6000-delta file (> 1 MB, each element small); non-trivial = values with at least one URI that needs attribute escaping (contains & or '), measured on the value");
    let nontriv = AtomicU64::new(0);
    let fails = Fails::new();
    // the outcome class is a property of the value, not of what the library did with it
    let run = |order: u64, wit: &dyn Fn() -> String, escapes: bool, build: &dyn Fn() -> NotificationFile| {
        sp.eval();
        if escapes { nontriv.fetch_add(1, Ordering::Relaxed); sp.outcome("escaped-uri") } else { sp.outcome("plain-uri") }
        fails.check(order, "C09.roundtrip.notification", wit, || roundtrip_notification(&build()).map(|_| ()));
    };
    let esc = |u: usize| HTTPS_URIS[u].contains(['&', '\'']);
    // (i) header product
    let one = [DeltaSpec { serial: 1, uri: 0, hash: 2 }];
    let mut n_hdr = 0u64;
    for sess in 0..3 { for &serial in &SERIALS { for su in 0..HTTPS_URIS.len() { for sh in 0..3 { for ds in [&one[..0], &one[..]] {
        n_hdr += 1;
        run(n_hdr, &|| show_notification(sess, serial, su, sh, ds), esc(su) || ds.iter().any(|d| esc(d.uri)), &|| build_notification(sess, serial, su, sh, ds));
    }}}}}
    // (ii) delta sequences
    let dserials: [u64; 5] = [0, 1, 2, MAX - 1, MAX];
    let mut full: Vec<DeltaSpec> = Vec::new();
    for &serial in &dserials { for uri in 0..HTTPS_URIS.len() { for hash in 0..3 { full.push(DeltaSpec { serial, uri, hash }) } } }
    let mut reduced: Vec<DeltaSpec> = Vec::new();
    for &serial in &dserials { for uri in [0usize, 2, 3, 6] { reduced.push(DeltaSpec { serial, uri, hash: 2 }) } }
    let plans: Vec<(&[DeltaSpec], u32, &str)> = if ctx.tier.is_thorough() {
        vec![(&full[..], 3, "all sequences of <= 3 deltas over 5 serials x 7 URIs x 3 hashes"), (&reduced[..], 4, "all sequences of <= 4 deltas over 5 serials x 4 URIs")]
    } else {
        vec![(&full[..], 2, "all sequences of <= 2 deltas over 5 serials x 7 URIs x 3 hashes"), (&reduced[..], 3, "all sequences of <= 3 deltas over 5 serials x 4 URIs")]
    };
    let mut bound = vec![format!("{n_hdr} header combinations")];
    for (pi, (alpha, max_len, text)) in plans.iter().enumerate() {
        let k = alpha.len() as u64;
        par_for(seq_count(k, *max_len), |idx| {
            let mut ix = Vec::new();
            seq_at(k, *max_len, idx, &mut ix);
            let ds: Vec<DeltaSpec> = ix.iter().map(|&i| alpha[i]).collect();
            run(((pi as u64 + 1) << 40) | idx, &|| show_notification(2, 5, 0, 2, &ds), ds.iter().any(|d| esc(d.uri)), &|| build_notification(2, 5, 0, 2, &ds));
        });
        bound.push(text.to_string());
    }
    // (iii) more than MAX_HEADER_SIZE in total, every element small
    {
        let h = hashes()[2];
        run(9 << 40, &|| "6000 deltas with 100-digit path segments (file > 1 MB)".to_string(), false, &|| NotificationFile::new(sessions()[2], 6000, UriAndHash::new(https(HTTPS_URIS[0]), h),
            (1..=6000u64).map(|i| DeltaInfo::new(i, https(&format!("https://h.example/{i:0100}/delta.xml")), h)).collect()));
        bound.push("one 6000-delta file".into());
    }
    fails.flush_into(ctx, &sp);
    sp.nontrivial(nontriv.load(Ordering::Relaxed));
    sp.sample_str(|| guard(|| {
        let mut xml = Vec::new();
        let _ = build_notification(0, MAX, 4, 1, &one).write_xml(&mut xml);
        String::from_utf8_lossy(&xml).into_owned()
    }).unwrap_or_else(|p| p));
    sp.done(true, &bound.join("; "));
}

#[derive(Clone, Copy, Debug)]
enum ElSpec {
    Publish { uri: usize, data: DataSpec },
    Update { uri: usize, hash: usize, data: DataSpec },
    Withdraw { uri: usize, hash: usize },
}

impl ElSpec {
    fn show(&self) -> String {
        match *self {
            ElSpec::Publish { uri, data } => format!("P({},{})", RSYNC_URIS[uri], data.show()),
            ElSpec::Update { uri, hash, data } => format!("U({},hash#{hash},{})", RSYNC_URIS[uri], data.show()),
            ElSpec::Withdraw { uri, hash } => format!("W({},hash#{hash})", RSYNC_URIS[uri]),
        }
    }
    fn to_delta_element(&self) -> DeltaElement {
        let hs = hashes();
        match *self {
            ElSpec::Publish { uri, data } => PublishElement::new(rsync(RSYNC_URIS[uri]), data.bytes()).into(),
            ElSpec::Update { uri, hash, data } => UpdateElement::new(rsync(RSYNC_URIS[uri]), hs[hash], data.bytes()).into(),
            ElSpec::Withdraw { uri, hash } => WithdrawElement::new(rsync(RSYNC_URIS[uri]), hs[hash]).into(),
        }
    }
    fn expect(&self) -> Seen {
        let hs = hashes();
        match *self {
            ElSpec::Publish { uri, data } => Seen::Publish { uri: rsync(RSYNC_URIS[uri]), hash: None, data: data.bytes().to_vec() },
            ElSpec::Update { uri, hash, data } => Seen::Publish { uri: rsync(RSYNC_URIS[uri]), hash: Some(hs[hash]), data: data.bytes().to_vec() },
            ElSpec::Withdraw { uri, hash } => Seen::Withdraw { uri: rsync(RSYNC_URIS[uri]), hash: hs[hash] },
        }
    }
    fn has_data(&self) -> bool {
        match *self { ElSpec::Publish { data, .. } | ElSpec::Update { data, .. } => data.len > 0, ElSpec::Withdraw { .. } => false }
    }
}

fn diff_seen(want: &[Seen], got: &[Seen]) -> Result<(), String> {
    if want.len() != got.len() { return Err(format!("{} elements written, {} reported", want.len(), got.len())) }
    for (i, (w, g)) in want.iter().zip(got).enumerate() {
        if w != g {
            let short = |s: &Seen| match s {
                Seen::Publish { uri, hash, data } => format!("publish({uri},{hash:?},{} octets {})", data.len(), trunc(&hex(data), 64)),
                Seen::Withdraw { uri, hash } => format!("withdraw({uri},{hash})"),
            };
            return Err(format!("element #{i}: wrote {} but parser reported {}", short(w), short(g)))
        }
    }
    Ok(())
}

/// What the by-reference accessors of the elements say.
fn seen_by_ref(els: &[DeltaElement]) -> Vec<Seen> {
    els.iter().map(|e| match e {
        DeltaElement::Publish(p) => Seen::Publish { uri: p.uri().clone(), hash: None, data: p.data().to_vec() },
        DeltaElement::Update(u) => Seen::Publish { uri: u.uri().clone(), hash: Some(*u.hash()), data: u.data().to_vec() },
        DeltaElement::Withdraw(w) => Seen::Withdraw { uri: w.uri().clone(), hash: *w.hash() },
    }).collect()
}

/// What `unpack()` of the elements says.
fn seen_by_unpack(els: Vec<DeltaElement>) -> Vec<Seen> {
    els.into_iter().map(|e| match e {
        DeltaElement::Publish(p) => { let (uri, data) = p.unpack(); Seen::Publish { uri, hash: None, data: data.to_vec() } }
        DeltaElement::Update(u) => { let (uri, hash, data) = u.unpack(); Seen::Publish { uri, hash: Some(hash), data: data.to_vec() } }
        DeltaElement::Withdraw(w) => { let (uri, hash) = w.unpack(); Seen::Withdraw { uri, hash } }
    }).collect()
}

/// URIs must come back octet for octet through the accessors (`==` on URIs
/// ignores the case of scheme and host).
fn same_uri_text(want: &[Seen], got: &[Seen], what: &str) -> Result<(), String> {
    for (i, (w, g)) in want.iter().zip(got).enumerate() {
        let (wu, gu) = match (w, g) {
            (Seen::Publish { uri: a, .. }, Seen::Publish { uri: b, .. }) | (Seen::Withdraw { uri: a, .. }, Seen::Withdraw { uri: b, .. }) => (a, b),
            _ => continue,
        };
        if wu.as_str() != gu.as_str() { return Err(format!("{what}: element #{i} uri text {} -> {}", wu.as_str(), gu.as_str())) }
    }
    Ok(())
}

/// `Hash::matches` against its definition (`== Hash::from_data`), on the
/// object bytes that came back and on a one-octet extension of them; the
/// hash of the written bytes must match the parsed bytes.
fn hash_matches_sweep(want: &[Seen], got: &[Seen]) -> Result<(), String> {
    for (i, (w, g)) in want.iter().zip(got).enumerate() {
        if let (Seen::Publish { data: wd, hash: wh, .. }, Seen::Publish { data: gd, .. }) = (w, g) {
            let h = Hash::from_data(wd);
            let mut longer = gd.clone(); longer.push(0);
            for (d, name) in [(gd, "parsed bytes"), (&longer, "parsed bytes + 00")] {
                if h.matches(d) != (h == Hash::from_data(d)) { return Err(format!("Hash::matches disagrees with == Hash::from_data on element #{i} ({name})")) }
                if let Some(wh) = wh { if wh.matches(d) != (*wh == Hash::from_data(d)) { return Err(format!("update hash .matches disagrees with == Hash::from_data on element #{i} ({name})")) } }
            }
            if !h.matches(gd) { return Err(format!("hash of the written object does not match the parsed object bytes of element #{i}")) }
            if h.matches(&longer) { return Err(format!("hash of the written object matches a longer object at element #{i}")) }
        }
    }
    Ok(())
}

/// Every accessor of a written and of a parsed element list must say what was put in.
fn accessor_sweep(want: &[Seen], els: &[DeltaElement], what: &str) -> Result<(), String> {
    let by_ref = seen_by_ref(els);
    diff_seen(want, &by_ref).map_err(|e| format!("{what} uri()/hash()/data(): {e}"))?;
    same_uri_text(want, &by_ref, what)?;
    let by_unpack = seen_by_unpack(els.to_vec());
    diff_seen(want, &by_unpack).map_err(|e| format!("{what} unpack(): {e}"))?;
    same_uri_text(want, &by_unpack, what)?;
    hash_matches_sweep(want, &by_ref)
}

fn roundtrip_snapshot(sess: Uuid, serial: u64, want: &[Seen], chunk: usize) -> Result<(), String> {
    let snap = Snapshot::new(sess, serial, want.iter().map(|s| match s {
        Seen::Publish { uri, data, .. } => PublishElement::new(uri.clone(), Bytes::copy_from_slice(data)),
        Seen::Withdraw { .. } => unreachable!(),
    }).collect());
    let mut xml = Vec::new();
    snap.write_xml(&mut xml).map_err(|e| format!("write_xml failed: {e}"))?;
    let back = Snapshot::parse(xml.as_slice()).map_err(|e| format!("written snapshot does not parse: {e}"))?;
    let mut c = Collect::new(chunk);
    <Collect as ProcessSnapshot>::process(&mut c, xml.as_slice()).map_err(|e| format!("written snapshot does not process: {e}"))?;
    if c.meta != [(sess, serial)] { return Err(format!("meta reported {:?}, wrote ({sess},{serial})", c.meta)) }
    diff_seen(want, &c.seen)?;
    if back.session_id() != sess || back.serial() != serial { return Err(format!("parse() gives session {} serial {}", back.session_id(), back.serial())) }
    if back != snap { return Err("Snapshot::parse result is not `==` the written value".into()) }
    // the same judgement through elements() / into_elements() and the element accessors
    for (what, v) in [("written Snapshot", &snap), ("parsed Snapshot", &back)] {
        let as_delta: Vec<DeltaElement> = v.elements().iter().cloned().map(DeltaElement::from).collect();
        accessor_sweep(want, &as_delta, &format!("{what}.elements()"))?;
        let owned: Vec<DeltaElement> = v.clone().into_elements().into_iter().map(DeltaElement::from).collect();
        accessor_sweep(want, &owned, &format!("{what}.into_elements()"))?;
    }
    Ok(())
}

fn roundtrip_delta(sess: Uuid, serial: u64, els: &[ElSpec], chunk: usize) -> Result<(), String> {
    let want: Vec<Seen> = els.iter().map(|e| e.expect()).collect();
    roundtrip_delta_seen(sess, serial, &want, chunk)
}

fn roundtrip_delta_seen(sess: Uuid, serial: u64, want: &[Seen], chunk: usize) -> Result<(), String> {
    let delta = Delta::new(sess, serial, want.iter().map(|s| match s {
        Seen::Publish { uri, hash: None, data } => PublishElement::new(uri.clone(), Bytes::copy_from_slice(data)).into(),
        Seen::Publish { uri, hash: Some(h), data } => UpdateElement::new(uri.clone(), *h, Bytes::copy_from_slice(data)).into(),
        Seen::Withdraw { uri, hash } => WithdrawElement::new(uri.clone(), *hash).into(),
    }).collect());
    let mut xml = Vec::new();
    delta.write_xml(&mut xml).map_err(|e| format!("write_xml failed: {e}"))?;
    let back = Delta::parse(xml.as_slice()).map_err(|e| format!("written delta does not parse: {e}"))?;
    let mut c = Collect::new(chunk);
    <Collect as ProcessDelta>::process(&mut c, xml.as_slice()).map_err(|e| format!("written delta does not process: {e}"))?;
    if c.meta != [(sess, serial)] { return Err(format!("meta reported {:?}, wrote ({sess},{serial})", c.meta)) }
    diff_seen(want, &c.seen)?;
    if back.session_id() != sess || back.serial() != serial { return Err(format!("parse() gives session {} serial {}", back.session_id(), back.serial())) }
    if back != delta { return Err("Delta::parse result is not `==` the written value".into()) }
    for (what, v) in [("written Delta", &delta), ("parsed Delta", &back)] {
        accessor_sweep(want, v.elements(), &format!("{what}.elements()"))?;
        accessor_sweep(want, &v.clone().into_elements(), &format!("{what}.into_elements()"))?;
    }
    Ok(())
}

const CHUNKS: [usize; 7] = [0, 1, 2, 3, 5, 64, 4096];

fn big_data(len: usize) -> Vec<u8> { (0..len).map(|i| (i as u32).wrapping_mul(2654435761).to_be_bytes()[0]).collect() }

fn space_rt_snapshot(ctx: &Ctx) {
    let sp = ctx.space("roundtrip.snapshot",
        "Snapshot::new -> write_xml -> Snapshot::parse and own ProcessSnapshot collector: (i) every single publish (6 URIs x 58 contents: lengths 0-7,255,256,766-770,1023-1025,1535-1537 x fills 00/ff/mixed) x 12 headers x 7 read-chunk sizes; (ii) every ordered pair / triple over reduced alphabets; (iii) big files (3 x 600 kB objects; one 1.5 MB object followed by a small one); non-trivial = values with at least one non-empty object");
    let sess = sessions();
    let full = data_full();
    let mut bound: Vec<String> = Vec::new();
    let fails = Fails::new();
    let run = |order: u64, wit: &dyn Fn() -> String, s: Uuid, serial: u64, want: &[Seen], chunk: usize| {
        sp.eval();
        sp.outcome(match want.len() { 0 => "0-elements", 1 => "1-element", 2 => "2-elements", _ => "3-elements" });
        if want.iter().any(|w| matches!(w, Seen::Publish { data, .. } if !data.is_empty())) { sp.nontrivial(1) }
        fails.check(order, "C09.roundtrip.snapshot", wit, || roundtrip_snapshot(s, serial, want, chunk));
    };
    // (i)
    let singles: Vec<(usize, DataSpec)> = (0..RSYNC_URIS.len()).flat_map(|u| full.iter().map(move |d| (u, *d))).collect();
    singles.par_iter().enumerate().for_each(|(i, &(u, d))| {
        let want = [ElSpec::Publish { uri: u, data: d }.expect()];
        for (si, s) in sess.iter().enumerate() { for (ni, &serial) in SERIALS.iter().enumerate() {
            // all chunk sizes with the first header, read_to_end with the others
            let chunks: &[usize] = if si == 0 && serial == 0 { &CHUNKS } else { &CHUNKS[..1] };
            for &chunk in chunks {
                run(((i as u64) << 16) | ((si * 4 + ni) as u64) << 8 | chunk.min(255) as u64, &|| format!("session#{si} serial={} chunk={chunk} [P({},{})]", show_serial(serial), RSYNC_URIS[u], d.show()), *s, serial, &want, chunk);
            }
        }}
    });
    bound.push(format!("{} single elements x 12 headers (+6 extra chunk sizes on one header)", singles.len()));
    // empty snapshot with every header
    for (si, s) in sess.iter().enumerate() { for &serial in &SERIALS {
        run(1 << 39, &|| format!("session#{si} serial={} []", show_serial(serial)), *s, serial, &[], 0);
    }}
    // (ii)
    let mid: Vec<ElSpec> = [0usize, 2, 4].iter().flat_map(|&u| data_mid().into_iter().map(move |d| ElSpec::Publish { uri: u, data: d })).collect();
    let small: Vec<ElSpec> = [0usize, 3].iter().flat_map(|&u| data_small().into_iter().map(move |d| ElSpec::Publish { uri: u, data: d })).collect();
    let plans: Vec<(&[ElSpec], u32)> = if ctx.tier.is_thorough() { vec![(&mid[..], 3), (&small[..], 4)] } else { vec![(&mid[..], 2), (&small[..], 3)] };
    for (pi, (alpha, max_len)) in plans.into_iter().enumerate() {
        let k = alpha.len() as u64;
        par_for(seq_count(k, max_len), |idx| {
            let mut ix = Vec::new();
            seq_at(k, max_len, idx, &mut ix);
            let els: Vec<ElSpec> = ix.iter().map(|&i| alpha[i]).collect();
            let want: Vec<Seen> = els.iter().map(|e| e.expect()).collect();
            let chunk = CHUNKS[(idx % CHUNKS.len() as u64) as usize];
            run(((pi as u64 + 1) << 40) | idx, &|| format!("session#2 serial=2^63 chunk={chunk} [{}]", els.iter().map(|e| e.show()).collect::<Vec<_>>().join(" ")), sess[2], 1 << 63, &want, chunk);
        });
        bound.push(format!("all sequences of <= {max_len} elements over {k} element values"));
    }
    // (iii)
    {
        let d600 = big_data(600_000);
        let want: Vec<Seen> = (0..3).map(|i| Seen::Publish { uri: rsync(&format!("rsync://h.example/m/big{i}.roa")), hash: None, data: d600.clone() }).collect();
        run(9 << 40, &|| "3 publish elements of 600000 octets each (each element < 1 MB, file > 2 MB)".into(), sess[2], 7, &want, 0);
        let want = vec![
            Seen::Publish { uri: rsync("rsync://h.example/m/big.roa"), hash: None, data: big_data(1_500_000) },
            Seen::Publish { uri: rsync("rsync://h.example/m/small.roa"), hash: None, data: vec![1, 2, 3] },
        ];
        run(10 << 40, &|| "one publish element of 1500000 octets (> MAX_HEADER_SIZE, < MAX_FILE_SIZE) followed by a 3-octet one".into(), sess[2], 7, &want, 4096);
        bound.push("2 big files".into());
    }
    fails.flush_into(ctx, &sp);
    sp.sample_str(|| {
        let mut xml = Vec::new();
        let _ = Snapshot::new(sess[2], 1, vec![PublishElement::new(rsync(RSYNC_URIS[4]), DataSpec { len: 4, pat: 2 }.bytes()), PublishElement::new(rsync(RSYNC_URIS[0]), Bytes::new())]).write_xml(&mut xml);
        String::from_utf8_lossy(&xml).into_owned()
    });
    sp.set("read_chunk_sizes", json!(CHUNKS));
    sp.done(true, &bound.join("; "));
}

fn space_rt_delta(ctx: &Ctx) {
    let sp = ctx.space("roundtrip.delta",
        "Delta::new -> write_xml -> Delta::parse and own ProcessDelta collector: (i) every single publish / update / withdraw over 6 URIs x 3 hashes x 58 contents x 12 headers; (ii) every ordered pair / triple of element kinds over reduced alphabets (every kind in every order); (iii) one big file; non-trivial = values with at least one non-empty object");
    let sess = sessions();
    let full = data_full();
    let mut bound: Vec<String> = Vec::new();
    let fails = Fails::new();
    let run = |order: u64, wit: &dyn Fn() -> String, s: Uuid, serial: u64, els: &[ElSpec], chunk: usize| {
        sp.eval();
        let mut kinds = [false; 3];
        for e in els { match e { ElSpec::Publish { .. } => kinds[0] = true, ElSpec::Update { .. } => kinds[1] = true, ElSpec::Withdraw { .. } => kinds[2] = true } }
        sp.outcome(match kinds { [false, false, false] => "empty", [true, false, false] => "publish-only", [false, true, false] => "update-only", [false, false, true] => "withdraw-only", _ => "mixed-kinds" });
        if els.iter().any(|e| e.has_data()) { sp.nontrivial(1) }
        fails.check(order, "C09.roundtrip.delta", wit, || roundtrip_delta(s, serial, els, chunk));
    };
    // (i)
    let mut singles: Vec<ElSpec> = Vec::new();
    for uri in 0..RSYNC_URIS.len() {
        for d in &full { singles.push(ElSpec::Publish { uri, data: *d }) }
        for hash in 0..3 {
            for d in &full { singles.push(ElSpec::Update { uri, hash, data: *d }) }
            singles.push(ElSpec::Withdraw { uri, hash });
        }
    }
    singles.par_iter().enumerate().for_each(|(i, e)| {
        for (si, s) in sess.iter().enumerate() { for (ni, &serial) in SERIALS.iter().enumerate() {
            let chunk = if si == 0 && serial == 0 { CHUNKS[i % CHUNKS.len()] } else { 0 };
            run(((i as u64) << 8) | (si * 4 + ni) as u64, &|| format!("session#{si} serial={} chunk={chunk} [{}]", show_serial(serial), e.show()), *s, serial, std::slice::from_ref(e), chunk);
        }}
    });
    bound.push(format!("{} single elements x 12 headers", singles.len()));
    for (si, s) in sess.iter().enumerate() { for &serial in &SERIALS {
        run(1 << 39, &|| format!("session#{si} serial={} []", show_serial(serial)), *s, serial, &[], 0);
    }}
    // (ii)
    let alpha = |uris: &[usize], hs: &[usize], data: &[DataSpec]| -> Vec<ElSpec> {
        let mut v = Vec::new();
        for &uri in uris {
            for d in data { v.push(ElSpec::Publish { uri, data: *d }) }
            for &hash in hs {
                for d in data { v.push(ElSpec::Update { uri, hash, data: *d }) }
                v.push(ElSpec::Withdraw { uri, hash });
            }
        }
        v
    };
    let mid = alpha(&[0, 2, 4], &[0, 2], &data_mid()[..6]);
    let small = alpha(&[0, 3], &[1, 2], &data_small());
    let plans: Vec<(&[ElSpec], u32)> = if ctx.tier.is_thorough() { vec![(&mid[..], 3), (&small[..], 4)] } else { vec![(&mid[..], 2), (&small[..], 3)] };
    for (pi, (a, max_len)) in plans.into_iter().enumerate() {
        let k = a.len() as u64;
        par_for(seq_count(k, max_len), |idx| {
            let mut ix = Vec::new();
            seq_at(k, max_len, idx, &mut ix);
            let els: Vec<ElSpec> = ix.iter().map(|&i| a[i]).collect();
            let chunk = CHUNKS[(idx % CHUNKS.len() as u64) as usize];
            run(((pi as u64 + 1) << 40) | idx, &|| format!("session#2 serial=MAX chunk={chunk} [{}]", els.iter().map(|e| e.show()).collect::<Vec<_>>().join(" ")), sess[2], MAX, &els, chunk);
        });
        bound.push(format!("all sequences of <= {max_len} elements over {k} element values"));
    }
    // (iii) big: built directly
    {
        sp.eval(); sp.nontrivial(1); sp.outcome("mixed-kinds");
        fails.check(9 << 40, "C09.roundtrip.delta", || "update of 1500000 octets, withdraw, publish of 600000 octets, publish of 600000 octets".into(), || {
            let h = hashes()[2];
            let els: Vec<DeltaElement> = vec![
                UpdateElement::new(rsync("rsync://h.example/m/big.roa"), h, Bytes::from(big_data(1_500_000))).into(),
                WithdrawElement::new(rsync("rsync://h.example/m/gone.roa"), h).into(),
                PublishElement::new(rsync("rsync://h.example/m/p1.roa"), Bytes::from(big_data(600_000))).into(),
                PublishElement::new(rsync("rsync://h.example/m/p2.roa"), Bytes::from(big_data(600_000))).into(),
            ];
            let delta = Delta::new(sess[2], 9, els);
            let mut xml = Vec::new();
            delta.write_xml(&mut xml).map_err(|e| e.to_string())?;
            let back = Delta::parse(xml.as_slice()).map_err(|e| format!("written delta does not parse: {e}"))?;
            if back != delta { return Err("parsed value differs".into()) }
            Ok(())
        });
        bound.push("1 big file".into());
    }
    fails.flush_into(ctx, &sp);
    sp.sample_str(|| {
        let mut xml = Vec::new();
        let _ = Delta::new(sess[1], MAX, vec![ElSpec::Update { uri: 3, hash: 2, data: DataSpec { len: 2, pat: 1 } }.to_delta_element(), ElSpec::Withdraw { uri: 2, hash: 0 }.to_delta_element()]).write_xml(&mut xml);
        String::from_utf8_lossy(&xml).into_owned()
    });
    sp.done(true, &bound.join("; "));
}

//============ (b) hostile streams ===========================================

const SID: &str = "9df4b597-af9e-4dca-bdda-719cce2c4e28";
const H1: &str = "c047e305fe71f2936720948e129a14c0819ded9cdecf31cfaf02c71200eb6f7c";
const H2: &str = "C12FCBDACEC1261F5B8D66B1BB3D42D921BD3D5C72404E26E8259BA75F0FEAF3";

fn skeleton(kind: Kind) -> Vec<u8> {
    let ns = "http://www.ripe.net/rpki/rrdp";
    match kind {
        Kind::Notification => format!(
"<?xml version=\"1.0\" encoding=\"UTF-8\"?>
<!-- head -->
<!DOCTYPE notification>
<notification xmlns=\"{ns}\" version=\"1\" session_id=\"{SID}\" serial=\"3\">
  <snapshot uri=\"https://h.example/{SID}/3/snapshot.xml\" hash=\"{H1}\"/>
  <!-- mid -->
  <delta serial=\"3\" uri=\"https://h.example/3/delta.xml\" hash=\"{H2}\"/>
  <delta serial=\"2\" uri=\"https://h.example/2/d&amp;.xml\" hash=\"{H1}\"></delta>
</notification>
<!-- tail -->
"),
        Kind::Snapshot => format!(
"<?xml version=\"1.0\" encoding=\"UTF-8\"?>
<!-- head -->
<snapshot xmlns=\"{ns}\" version=\"1\" session_id=\"{SID}\" serial=\"3\">
  <publish uri=\"rsync://h.example/m/a.cer\">
    AAECAwQF
    BgcICQ==
  </publish>
  <!-- mid -->
  <publish uri=\"rsync://h.example/m/b.cer\"/>
  <publish uri=\"rsync://h.example/m/c&amp;.cer\">QUJD<!-- in --></publish>
</snapshot>
<!-- tail -->
"),
        Kind::Delta => format!(
"<?xml version=\"1.0\" encoding=\"UTF-8\"?>
<!-- head -->
<delta xmlns=\"{ns}\" version=\"1\" session_id=\"{SID}\" serial=\"3\">
  <publish uri=\"rsync://h.example/m/a.cer\">AAEC</publish>
  <publish uri=\"rsync://h.example/m/b.cer\" hash=\"{H1}\">
    AAECAwQF
  </publish>
  <!-- mid -->
  <withdraw uri=\"rsync://h.example/m/c.cer\" hash=\"{H2}\"/>
  <withdraw uri=\"rsync://h.example/m/d.cer\" hash=\"{H1}\"></withdraw>
</delta>
<!-- tail -->
"),
    }.into_bytes()
}

/// Document shapes per file type: the full skeleton plus shapes that take
/// the other paths through the element loop: self-closing root, root with
/// zero children, no XML declaration with self-closing children only and a
/// PI + whitespace after the root, and start/end-tag pairs without any
/// whitespace. Not all of them are valid files (a notification needs a
/// snapshot; a PI after the root is refused) - what matters is which reads
/// the parser performs before it finds out.
fn shapes(kind: Kind) -> Vec<(&'static str, Vec<u8>)> {
    let ns = "http://www.ripe.net/rpki/rrdp";
    let decl = "<?xml version=\"1.0\" encoding=\"UTF-8\"?>\n";
    let root = kind.name();
    let attrs = format!("xmlns=\"{ns}\" version=\"1\" session_id=\"{SID}\" serial=\"3\"");
    let (selfclosing_children, pair_children) = match kind {
        Kind::Notification => (
            format!("<snapshot uri=\"https://h.example/s.xml\" hash=\"{H1}\"/><delta serial=\"3\" uri=\"https://h.example/3.xml\" hash=\"{H2}\"/>"),
            format!("<snapshot uri=\"https://h.example/s.xml\" hash=\"{H1}\"></snapshot><delta serial=\"3\" uri=\"https://h.example/3.xml\" hash=\"{H2}\"></delta>"),
        ),
        Kind::Snapshot => (
            "<publish uri=\"rsync://h.example/m/a.cer\"/><publish uri=\"rsync://h.example/m/b.cer\"/>".to_string(),
            "<publish uri=\"rsync://h.example/m/a.cer\"></publish><publish uri=\"rsync://h.example/m/b.cer\">QUJD</publish>".to_string(),
        ),
        Kind::Delta => (
            format!("<withdraw uri=\"rsync://h.example/m/a.cer\" hash=\"{H1}\"/><publish uri=\"rsync://h.example/m/b.cer\"/><publish uri=\"rsync://h.example/m/c.cer\" hash=\"{H2}\"/>"),
            format!("<withdraw uri=\"rsync://h.example/m/a.cer\" hash=\"{H1}\"></withdraw><publish uri=\"rsync://h.example/m/b.cer\"></publish><publish uri=\"rsync://h.example/m/c.cer\" hash=\"{H2}\">QUJD</publish>"),
        ),
    };
    vec![
        ("full", skeleton(kind)),
        ("self-closing-root", format!("<{root} {attrs}/>\n<!-- tail -->\n").into_bytes()),
        ("empty-root", format!("{decl}<{root} {attrs}></{root}>\n").into_bytes()),
        ("self-closing-children", format!("<{root} {attrs}>{selfclosing_children}</{root}>\n<?p x?>\n \n").into_bytes()),
        ("pair-children", format!("{decl}<{root} {attrs}>{pair_children}</{root}>").into_bytes()),
    ]
}

/// Per insertion offset p (0..=len): grammar class of the gap before byte p,
/// the start S(p) of the markup the gap lies in (p itself outside markup),
/// and the root start tag's '>' offset.
struct DocLayout { class: Vec<&'static str>, start: Vec<usize>, item: Vec<usize>, root_gt: usize }

fn layout(doc: &[u8]) -> DocLayout {
    let n = doc.len();
    let mut class = vec![""; n + 1];
    let mut start = vec![0usize; n + 1];
    let mut item = vec![0usize; n + 1];
    let mut root_gt = usize::MAX;
    let mut depth = 0i32;
    let mut seen_root = false;
    let mut i = 0usize;
    // text run classification needs lookahead: handle by segments
    while i <= n {
        if i == n || doc[i] != b'<' {
            // text segment [i, j)
            let j = (i..n).find(|&k| doc[k] == b'<').unwrap_or(n);
            let nonws = doc[i..j].iter().any(|b| !b.is_ascii_whitespace());
            let c = if !seen_root { "prolog" } else if depth == 0 { "after-root" } else if nonws { "base64-text" } else if depth == 1 { "between-elements" } else { "element-whitespace" };
            for p in i..=j.min(n) { if class[p].is_empty() { class[p] = c; start[p] = p; item[p] = i } }
            if j == n { break }
            i = j;
            continue
        }
        // markup starting at i
        let open = i;
        let j = (i..n).find(|&k| doc[k] == b'>').expect("skeleton markup is closed");
        let body = &doc[i..=j];
        let kind = if body.starts_with(b"<?") { "pi" } else if body.starts_with(b"<!--") { "comment" } else if body.starts_with(b"<!") { "doctype" } else if body.starts_with(b"</") { "end-tag" } else { "tag" };
        assert!(kind != "comment" || body.ends_with(b"-->"), "no '>' inside skeleton comments");
        // gap before '<' belongs to the preceding text (already set, or set here)
        if class[open].is_empty() {
            class[open] = if !seen_root { "prolog" } else if depth == 0 { "after-root" } else if depth == 1 { "between-elements" } else { "element-whitespace" };
            start[open] = open; item[open] = open;
        }
        let mut in_q = false; let mut after_name = false;
        for p in open + 1..=j {
            // gap before byte p, inside the markup
            let prev = doc[p - 1];
            let c = match kind {
                "pi" => "in-pi", "comment" => "in-comment", "doctype" => "in-doctype", "end-tag" => "in-end-tag",
                _ => {
                    if in_q { if prev == b'"' { in_q = false; "between-attributes" } else { "in-attribute-value" } }
                    else if prev == b'"' { in_q = true; "in-attribute-value" }
                    else if prev == b'<' { "in-element-name" }
                    else if prev.is_ascii_whitespace() { after_name = true; "between-attributes" }
                    else if prev == b'=' { "after-equals" }
                    else if prev == b'/' { "before-tag-close" }
                    else if !after_name { "in-element-name" }
                    else { "in-attribute-name" }
                }
            };
            class[p] = c; start[p] = open; item[p] = open + 1;
        }
        if kind == "tag" {
            let empty = body.ends_with(b"/>");
            if !seen_root { seen_root = true; root_gt = j }
            if !empty { depth += 1 }
        } else if kind == "end-tag" { depth -= 1 }
        i = j + 1;
    }
    assert!(root_gt != usize::MAX);
    DocLayout { class, start, item, root_gt }
}

struct Run { name: &'static str, head: &'static [u8], unit: &'static [u8] }

const RUNS: &[Run] = &[
    Run { name: "a", head: b"", unit: b"a" },
    Run { name: "space", head: b"", unit: b" " },
    Run { name: "newline-tab", head: b"", unit: b"\n\t" },
    Run { name: "&amp;", head: b"", unit: b"&amp;" },
    Run { name: "<a>", head: b"", unit: b"<a>" },
    Run { name: "<!--", head: b"", unit: b"<!--" },
    Run { name: "<!-- -->", head: b"", unit: b"<!-- -->" },
    Run { name: "attributes", head: b"", unit: b" x=\"1\"" },
    Run { name: "quot", head: b"", unit: b"\"" },
    Run { name: "digit", head: b"", unit: b"0" },
    Run { name: "NUL", head: b"", unit: b"\0" },
    Run { name: "0xFF", head: b"", unit: b"\xFF" },
    Run { name: "utf8-e-acute", head: b"", unit: b"\xC3\xA9" },
    Run { name: "lt", head: b"", unit: b"<" },
    Run { name: "gt", head: b"", unit: b">" },
    Run { name: "amp", head: b"", unit: b"&" },
    Run { name: "apos", head: b"", unit: b"'" },
    Run { name: "slash", head: b"", unit: b"/" },
    Run { name: "eq", head: b"", unit: b"=" },
    Run { name: "cdata", head: b"<![CDATA[", unit: b"x" },
    Run { name: "pi", head: b"<?p ", unit: b"x" },
    Run { name: "doctype-entities", head: b"<!DOCTYPE a [", unit: b"<!ENTITY x \"y\">" },
    Run { name: "end-tags", head: b"", unit: b"</a>" },
    Run { name: "char-refs", head: b"", unit: b"&#65;" },
];
/// the eight kinds used where every case costs a 100 MB scan
const HEAVY_RUNS: [usize; 8] = [0, 1, 3, 4, 5, 6, 7, 8];

/// prefix ++ head ++ unit* (run_len octets, u64::MAX = endless) ++ suffix,
/// never yielding more than `cap` octets in total.
struct Gen<'a> { pre: &'a [u8], head: &'a [u8], block: &'a [u8], run_len: u64, suf: &'a [u8], pos: u64, cap: u64, cap_hit: bool }

impl Read for Gen<'_> {
    fn read(&mut self, buf: &mut [u8]) -> io::Result<usize> {
        let a = self.pre.len() as u64;
        let b = a + self.head.len() as u64;
        let c = b.saturating_add(self.run_len);
        let mut n = 0usize;
        while n < buf.len() {
            if self.pos >= self.cap { self.cap_hit = true; break }
            let p = self.pos;
            let src: &[u8] = if p < a { &self.pre[p as usize..] }
                else if p < b { &self.head[(p - a) as usize..] }
                else if p < c {
                    let off = ((p - b) % self.block.len() as u64) as usize;
                    let s = &self.block[off..];
                    let left = c - p;
                    if (s.len() as u64) > left { &s[..left as usize] } else { s }
                } else {
                    let q = p - c;
                    if q >= self.suf.len() as u64 { break }
                    &self.suf[q as usize..]
                };
            let k = src.len().min(buf.len() - n).min((self.cap - p).min(usize::MAX as u64) as usize);
            buf[n..n + k].copy_from_slice(&src[..k]);
            n += k;
            self.pos += k as u64;
        }
        Ok(n)
    }
}

struct Counting<R> { inner: R, pulled: u64 }
impl<R: Read> Read for Counting<R> {
    fn read(&mut self, buf: &mut [u8]) -> io::Result<usize> {
        let n = self.inner.read(buf)?;
        self.pulled += n as u64;
        Ok(n)
    }
}

fn block_of(unit: &[u8]) -> Vec<u8> {
    let reps = (65536 / unit.len()).max(1);
    unit.repeat(reps)
}

struct Hostile { pulled: u64, cap_hit: bool, result: Result<Result<u64, String>, String>, peak: u64 }

#[allow(clippy::too_many_arguments)]
fn run_hostile(kind: Kind, pre: &[u8], head: &[u8], block: &[u8], run_len: u64, suf: &[u8], bufcap: usize, cap: u64) -> Hostile {
    let mut counting = Counting { inner: Gen { pre, head, block, run_len, suf, pos: 0, cap, cap_hit: false }, pulled: 0 };
    let (result, peak) = metered(|| guard(|| parse_as(kind, BufReader::with_capacity(bufcap, &mut counting))));
    Hostile { pulled: counting.pulled, cap_hit: counting.inner.cap_hit, result, peak }
}

/// The configured limit in force for octets inserted at p. In a snapshot or
/// delta the root start tag is under the header limit and everything after
/// it under the element limit; a run that contains '>' and is inserted
/// inside the root start tag can complete that tag itself, after which its
/// remaining octets are element content, so the larger limit is allowed.
fn limit_at(kind: Kind, lay: &DocLayout, p: usize, run: &[u8]) -> u64 {
    if kind == Kind::Notification { return HEADER_LIMIT }
    if p > lay.root_gt { return FILE_LIMIT }
    let in_root_tag = lay.start[p] < p && lay.start[lay.root_gt] == lay.start[p];
    if in_root_tag && run.contains(&b'>') { FILE_LIMIT } else { HEADER_LIMIT }
}

/// One endless-run case: insertion at p of run kind ri through a BufReader of capacity bufcap.
#[derive(Clone, Copy)]
struct Case { p: usize, ri: usize, bufcap: usize }

fn space_hostile_endless(ctx: &Ctx) {
    let thorough = ctx.tier.is_thorough();
    let sp = ctx.space("hostile.endless",
        "file type x document shape (full skeleton, self-closing root, root without children, self-closing children + PI and whitespace after the root and no XML declaration, start/end-tag pairs without whitespace) x insertion offset x run kind from a generator that never ends, read through counting reader + BufReader: no panic, and octets pulled <= start of the element containing the insertion + configured limit + BufReader capacity (generator capped at insertion + 4 x limit; reaching the cap is a violation). quick, full skeleton: under the 1 MB limit every offset x 3 kinds + all 24 kinds at the first offset of every grammar item, under the 100 MB limit 2 kinds (+ white space at white-space items) at the first offset of every text / comment / end-tag item and of the first item of every in-tag class; quick, other shapes: item-first offsets x 24 kinds (1 MB), the same 100 MB selection x 2 kinds. thorough, full skeleton: every offset x 24 kinds (1 MB, plus two more buffer sizes for 8 kinds) and every offset x 2 kinds + 8 kinds at item-first offsets (100 MB); thorough, other shapes: every offset x 24 kinds (1 MB) and every offset x 2 kinds + 4 kinds at item-first offsets (100 MB). non-trivial = cases the parser only left because the limit tripped (pulled >= limit)");
    let blocks: Vec<Vec<u8>> = RUNS.iter().map(|r| block_of(r.unit)).collect();
    let mut bound: Vec<String> = Vec::new();
    let mut classes_seen: BTreeMap<&'static str, u64> = BTreeMap::new();
    let mut shape_facts: BTreeMap<String, serde_json::Value> = BTreeMap::new();
    let mut max_peak = 0u64;
    let mut max_over: (i64, String) = (i64::MIN, String::new());
    let mut violated = 0u64;
    // enumerate all streams of all shapes first, run them in one parallel sweep (longest first),
    // then judge sequentially in enumeration order (deterministic output)
    struct Plan { kind: Kind, shape: &'static str, doc: Vec<u8>, lay: DocLayout, first_case: usize, n_cases: usize }
    let mut plans: Vec<Plan> = Vec::new();
    let mut cases: Vec<(usize, Case)> = Vec::new();
    let mut per_kind: BTreeMap<&'static str, (u64, u64, u64)> = BTreeMap::new();
    for kind in [Kind::Notification, Kind::Snapshot, Kind::Delta] {
        for (shape, doc) in shapes(kind) {
            let lay = layout(&doc);
            let full = shape == "full";
            // bound 0, recorded as a fact: what the parser says to the unmodified shape
            let accepted = match guard(|| parse_as(kind, doc.as_slice())) { Ok(Ok(n)) => format!("accepted ({n} elements)"), Ok(Err(e)) => format!("rejected: {e}"), Err(p) => p };
            shape_facts.insert(format!("{}/{shape}", kind.name()), json!({"octets": doc.len(), "unmodified": accepted}));
            for p in 0..=doc.len() { *classes_seen.entry(lay.class[p]).or_insert(0) += 1 }
            let counts = per_kind.entry(kind.name()).or_insert((0, 0, 0));
            counts.2 += doc.len() as u64 + 1;
            let first_case = cases.len();
            let pi = plans.len();
            let mut first_seen: BTreeMap<(&'static str, usize), ()> = BTreeMap::new();
            let mut class_seen: BTreeMap<&'static str, ()> = BTreeMap::new();
            for p in 0..=doc.len() {
                let first = first_seen.insert((lay.class[p], lay.item[p]), ()).is_none();
                let light = kind == Kind::Notification || p <= lay.root_gt;
                // quick, 100 MB region: in-tag classes once per shape, content classes at every item
                let in_content = ["between-elements", "after-root", "element-whitespace", "base64-text", "in-comment", "in-end-tag"].contains(&lay.class[p]);
                let first_q = first && (!light) && (class_seen.insert(lay.class[p], ()).is_none() || in_content);
                let mut add = |ri: usize, bufcap: usize| {
                    if limit_at(kind, &lay, p, RUNS[ri].unit) == HEADER_LIMIT { counts.0 += 1 } else { counts.1 += 1 }
                    cases.push((pi, Case { p, ri, bufcap }));
                };
                match (full, thorough, light) {
                    (true, true, true) => {
                        for ri in 0..RUNS.len() { add(ri, 8192) }
                        for ri in HEAVY_RUNS { add(ri, 64); add(ri, 1 << 16) }
                    }
                    (true, false, true) => {
                        for ri in 0..RUNS.len() { if first || [0usize, 1, 6].contains(&ri) { add(ri, 8192) } }
                        if p % 8 == 0 { add(1, 64); add(6, 64) }
                    }
                    (true, true, false) => for ri in HEAVY_RUNS { if first || [0usize, 6].contains(&ri) { add(ri, 8192) } },
                    (true, false, false) => if first_q {
                        for ri in [0usize, 6] { add(ri, 8192) }
                        if ["between-elements", "after-root", "element-whitespace"].contains(&lay.class[p]) { add(1, 8192) }
                    },
                    (false, true, true) => for ri in 0..RUNS.len() { add(ri, 8192) },
                    (false, false, true) => if first { for ri in 0..RUNS.len() { add(ri, 8192) } },
                    (false, true, false) => for ri in [0usize, 1, 6, 7] { if first || [0usize, 6].contains(&ri) { add(ri, 8192) } },
                    (false, false, false) => if first_q { for ri in [0usize, 6] { add(ri, 8192) } },
                }
            }
            let n_cases = cases.len() - first_case;
            plans.push(Plan { kind, shape, doc, lay, first_case, n_cases });
        }
    }
    let mut order: Vec<usize> = (0..cases.len()).collect();
    order.sort_by_key(|&i| { let (pi, c) = &cases[i]; std::cmp::Reverse(limit_at(plans[*pi].kind, &plans[*pi].lay, c.p, RUNS[c.ri].unit)) });
    let ran: Vec<(usize, Hostile)> = order.par_iter().with_max_len(1).map(|&i| {
        let (pi, c) = &cases[i];
        let pl = &plans[*pi];
        let r = &RUNS[c.ri];
        let limit = limit_at(pl.kind, &pl.lay, c.p, r.unit);
        (i, run_hostile(pl.kind, &pl.doc[..c.p], r.head, &blocks[c.ri], u64::MAX, b"", c.bufcap, c.p as u64 + 4 * limit))
    }).collect();
    let mut results: Vec<Option<Hostile>> = (0..cases.len()).map(|_| None).collect();
    for (i, h) in ran { results[i] = Some(h) }
    for pl in &plans {
        let (kind, shape, lay) = (pl.kind, pl.shape, &pl.lay);
        let mut oc: BTreeMap<&'static str, u64> = BTreeMap::new();
        let mut nt = 0u64;
        for ci in pl.first_case..pl.first_case + pl.n_cases {
            let c = &cases[ci].1;
            let h = results[ci].as_ref().expect("every stream was run");
            let r = &RUNS[c.ri];
            let (p, bufcap) = (c.p, c.bufcap);
            let limit = limit_at(kind, lay, p, r.unit);
            // a run containing '>' can complete the markup it is inserted in; what follows it
            // then starts at the insertion point, not at the '<' of that markup
            let start = if r.unit.contains(&b'>') { p as u64 } else { lay.start[p] as u64 };
            let bound = start + limit + bufcap as u64;
            let wit = || format!("{}/{shape} pos={p} ({}) run={} endless bufcap={bufcap}", kind.name(), lay.class[p], r.name);
            max_peak = max_peak.max(h.peak);
            let over = h.pulled as i64 - (start + limit) as i64;
            if over > max_over.0 { max_over = (over, wit()) }
            let by_limit = h.pulled >= limit;
            if by_limit { nt += 1 }
            let class = match &h.result {
                Err(panic) => { violated += 1; ctx.fail("C09.hostile.nopanic", wit(), panic.clone()); "panic" }
                Ok(Ok(_)) => if by_limit { "ok-after-limit" } else { "ok-early" },
                Ok(Err(_)) => if by_limit { "error-at-limit" } else { "error-early" },
            };
            *oc.entry(class).or_insert(0) += 1;
            if h.cap_hit || h.pulled > bound {
                violated += 1;
                ctx.fail("C09.hostile.bound", wit(), format!(
                    "pulled {} octets{}; allowed: start of the element {} + limit {} + one buffer {} = {}; result {:?}",
                    h.pulled, if h.cap_hit { " (generator cap of 4 x limit reached: the parse would not have stopped)" } else { "" },
                    start, limit, bufcap, bound, h.result.as_ref().map(|r| r.as_ref().map_err(|e| trunc(e, 80)))));
            }
        }
        sp.evals(pl.n_cases as u64); sp.nontrivial(nt); sp.merge_outcomes(&oc);
    }
    for (kname, (n_light, n_heavy, n_offsets)) in &per_kind {
        bound.push(format!("{kname}: 5 shapes, {n_offsets} offsets, {n_light} streams under the 1 MB limit, {n_heavy} under the 100 MB limit"));
    }
    sp.outcomes_n("oracle-violated", violated);
    sp.set("shapes", json!(shape_facts));
    sp.set("grammar_classes_offsets", json!(classes_seen));
    sp.set("run_kinds", json!(RUNS.iter().map(|r| r.name).collect::<Vec<_>>()));
    sp.set("max_peak_heap_octets_one_case", json!(max_peak));
    sp.set("max_octets_pulled_beyond_start_plus_limit", json!({"octets": max_over.0, "case": max_over.1}));
    sp.sample_str(|| "notification/full pos=0 run=space endless bufcap=8192: the generator yields ' ' forever".into());
    sp.sample_str(|| String::from_utf8_lossy(&shapes(Kind::Snapshot)[1].1).into_owned());
    sp.done(true, &bound.join("; "));
}

fn space_hostile_bombs(ctx: &Ctx) {
    let sp = ctx.space("hostile.bombs",
        "the three emptied bomb files regenerated as finite streams (giant serial attribute, giant snapshot URI, giant whitespace run in a notification) plus the same shapes in snapshot and delta (giant publish URI, giant base64 text, giant whitespace), each at run lengths around the limit, followed by the valid remainder of the document: no panic; octets pulled <= element start + limit + buffer; non-trivial = runs longer than the limit");
    struct Bomb { kind: Kind, name: &'static str, anchor: &'static [u8], unit: &'static [u8] }
    let bombs = [
        Bomb { kind: Kind::Notification, name: "bomb-serial", anchor: b" serial=\"", unit: b"0" },
        Bomb { kind: Kind::Notification, name: "bomb-snapshot-uri", anchor: b"<snapshot uri=\"https://h.example/", unit: b"a" },
        Bomb { kind: Kind::Notification, name: "bomb-whitespace", anchor: b"<!-- mid -->", unit: b" " },
        Bomb { kind: Kind::Snapshot, name: "publish-uri", anchor: b"<publish uri=\"rsync://h.example/m/", unit: b"a" },
        Bomb { kind: Kind::Snapshot, name: "base64-text", anchor: b"AAECAwQF", unit: b"AAAA" },
        Bomb { kind: Kind::Snapshot, name: "whitespace", anchor: b"<!-- mid -->", unit: b"\n" },
        Bomb { kind: Kind::Delta, name: "withdraw-uri", anchor: b"<withdraw uri=\"rsync://h.example/m/", unit: b"a" },
        Bomb { kind: Kind::Delta, name: "base64-text", anchor: b"AAECAwQF", unit: b"AAAA" },
        Bomb { kind: Kind::Delta, name: "whitespace", anchor: b"<!-- mid -->", unit: b" " },
    ];
    let bufcap = 8192usize;
    let mut cases: Vec<(usize, u64)> = Vec::new();
    for (bi, b) in bombs.iter().enumerate() {
        let doc = skeleton(b.kind);
        let lay = layout(&doc);
        let p = find(&doc, b.anchor) + b.anchor.len();
        let limit = limit_at(b.kind, &lay, p, b.unit);
        let lens: Vec<u64> = if limit == HEADER_LIMIT || ctx.tier.is_thorough() {
            vec![limit / 2, limit - 4096, limit + 3 * bufcap as u64, 2 * limit]
        } else { vec![limit + 3 * bufcap as u64] };
        for l in lens { cases.push((bi, l / b.unit.len() as u64 * b.unit.len() as u64)) }
    }
    let results: Vec<(Hostile, usize, u64, u64, String)> = cases.par_iter().map(|&(bi, run_len)| {
        let b = &bombs[bi];
        let doc = skeleton(b.kind);
        let lay = layout(&doc);
        let p = find(&doc, b.anchor) + b.anchor.len();
        let limit = limit_at(b.kind, &lay, p, b.unit);
        let block = block_of(b.unit);
        let h = run_hostile(b.kind, &doc[..p], b"", &block, run_len, &doc[p..], bufcap, p as u64 + 4 * limit);
        let wit = format!("{} {} run of {run_len} x {:?} at pos={p} ({}) then the rest of the document", b.kind.name(), b.name, String::from_utf8_lossy(b.unit), lay.class[p]);
        (h, lay.start[p], limit, doc.len() as u64 + run_len, wit)
    }).collect();
    let mut violated = 0u64;
    for (&(_, run_len), (h, start, limit, total, wit)) in cases.iter().zip(&results) {
        let bound = *start as u64 + limit + bufcap as u64;
        sp.eval();
        if run_len > *limit { sp.nontrivial(1) }
        match &h.result {
            Err(panic) => { violated += 1; sp.outcome("panic"); ctx.fail("C09.hostile.nopanic", wit.clone(), panic.clone()) }
            Ok(Ok(_)) => sp.outcome("accepted"),
            Ok(Err(_)) => sp.outcome("rejected"),
        }
        if h.cap_hit || h.pulled > bound {
            violated += 1;
            ctx.fail("C09.hostile.bound", wit.clone(), format!("pulled {} of {total} octets; allowed {start} + {limit} + {bufcap} = {bound}; result {:?}", h.pulled, h.result));
        }
        sp.sample_str(|| format!("{wit} -> pulled {} of {total}, {}", h.pulled, match &h.result { Ok(Ok(_)) => "accepted".to_string(), Ok(Err(e)) => format!("rejected: {}", trunc(e, 60)), Err(p) => p.clone() }));
    }
    sp.outcomes_n("oracle-violated", violated);
    sp.done(true, &format!("{} bomb shapes, {} streams", bombs.len(), cases.len()));
}

fn find(hay: &[u8], needle: &[u8]) -> usize {
    hay.windows(needle.len()).position(|w| w == needle).unwrap_or_else(|| panic!("anchor {:?} not in document", String::from_utf8_lossy(needle)))
}

const SUBST: [u8; 11] = [b'<', b'>', b'&', b'"', b'\'', b'/', b'=', b' ', 0x00, 0xFF, b'a'];

/// Runs one finite input through the real parser; only "returns without panic" is demanded.
fn finite_case(fails: &Fails, order: u64, kind: Kind, input: &[u8], oc: &mut BTreeMap<&'static str, u64>, wit: impl FnOnce() -> String) -> bool {
    match guard(|| parse_as(kind, input)) {
        Ok(Ok(_)) => { *oc.entry("accepted").or_insert(0) += 1; true }
        Ok(Err(_)) => { *oc.entry("rejected").or_insert(0) += 1; false }
        Err(p) => { *oc.entry("panic").or_insert(0) += 1; fails.push(order, "C09.hostile.nopanic", wit(), p); false }
    }
}

/// Offsets of `doc` that lie in markup or within 8 octets of a text node's edge.
fn markup_and_edges(doc: &[u8]) -> Vec<usize> {
    let mut keep = vec![false; doc.len()];
    let mut i = 0usize;
    while i < doc.len() {
        if doc[i] == b'<' {
            let j = (i..doc.len()).find(|&k| doc[k] == b'>').unwrap_or(doc.len() - 1);
            for k in keep.iter_mut().take(j + 1).skip(i) { *k = true }
            i = j + 1;
        } else {
            let j = (i..doc.len()).find(|&k| doc[k] == b'<').unwrap_or(doc.len());
            // trim whitespace to find the text node proper
            let (mut a, mut b) = (i, j);
            while a < b && doc[a].is_ascii_whitespace() { a += 1 }
            while b > a && doc[b - 1].is_ascii_whitespace() { b -= 1 }
            for k in i..j { if k < a + 8 || k + 8 >= b { keep[k] = true } }
            i = j;
        }
    }
    (0..doc.len()).filter(|&k| keep[k]).collect()
}

/// First `n` child elements of a captured snapshot/delta + the root end tag.
fn head_of(doc: &[u8], n: usize, root: &str) -> Vec<u8> {
    let starts: Vec<usize> = (0..doc.len()).filter(|&i| doc[i..].starts_with(b"<publish") || doc[i..].starts_with(b"<withdraw")).take(n + 1).collect();
    let end = if starts.len() > n { starts[n] } else { find(doc, format!("</{root}>").as_bytes()) };
    let mut out = doc[..end].to_vec();
    out.extend_from_slice(format!("</{root}>\n").as_bytes());
    out
}

fn space_hostile_mutations(ctx: &Ctx) {
    let sp = ctx.space("hostile.captured_mutations",
        "captured files under test-data/rrdp (the three emptied bomb files are skipped, see hostile.bombs): every listed offset x {byte := each of < > & \" ' / = SP NUL FF a (when different), truncate here, delete this byte}, parsed by the real parser with the collecting processor: returns without panic. quick = every offset of lolz-notification and ripe-notification and of the first 3 elements of ripe-delta / ripe-snapshot; thorough adds every offset of the other two notification files and of the first 12 elements of delta / snapshot, and all markup + text-node edges (8 octets at either end) of the full delta (all ops) and the full snapshot (the 6 markup-significant substitutions + truncate + delete); non-trivial = mutants the parser rejects");
    let dir = format!("{}/test-data/rrdp", repo_dir());
    let thorough = ctx.tier.is_thorough();
    // (name, kind, bytes, offsets, substitution values)
    let mut seeds: Vec<(String, Kind, Vec<u8>, Vec<usize>, &[u8])> = Vec::new();
    let read = |name: &str| -> Vec<u8> { std::fs::read(format!("{dir}/{name}")).unwrap_or_default() };
    let mut notifs = vec!["lolz-notification.xml", "ripe-notification.xml"];
    if thorough { notifs.extend(["ripe-notification-unsorted.xml", "ripe-notification-with-gaps.xml"]) }
    for name in notifs {
        let d = read(name);
        if d.is_empty() { ctx.machinery_error(format!("captured file {name} is missing or empty")); continue }
        let all = (0..d.len()).collect();
        seeds.push((name.to_string(), Kind::Notification, d, all, &SUBST));
    }
    for (name, kind, root) in [("ripe-delta.xml", Kind::Delta, "delta"), ("ripe-snapshot.xml", Kind::Snapshot, "snapshot")] {
        let d = read(name);
        if d.is_empty() { ctx.machinery_error(format!("captured file {name} is missing or empty")); continue }
        let head = head_of(&d, 3, root);
        let all = (0..head.len()).collect();
        seeds.push((format!("{name}[first 3 elements]"), kind, head, all, &SUBST));
        if thorough {
            let head = head_of(&d, 12, root);
            let all = (0..head.len()).collect();
            seeds.push((format!("{name}[first 12 elements]"), kind, head, all, &SUBST));
            let offs = markup_and_edges(&d);
            let subst: &[u8] = if kind == Kind::Delta { &SUBST } else { &SUBST[..6] };
            seeds.push((name.to_string(), kind, d, offs, subst));
        }
    }
    let fails = Fails::new();
    let mut bound = Vec::new();
    let mut seed_facts: BTreeMap<String, serde_json::Value> = BTreeMap::new();
    for (si, (name, kind, doc, offs, subst)) in seeds.iter().enumerate() {
        // what the parser says to the unmodified file is recorded, not judged: the
        // property does not oblige the parser to accept foreign files
        let mut oc0 = BTreeMap::new();
        let ok0 = finite_case(&fails, 0, *kind, doc, &mut oc0, || format!("{name} unmodified"));
        seed_facts.insert(name.clone(), json!(if ok0 { "accepted unmodified" } else { "rejected unmodified" }));
        offs.par_chunks(32).for_each(|chunk| {
            let mut oc: BTreeMap<&'static str, u64> = BTreeMap::new();
            let mut n = 0u64; let mut rejected = 0u64;
            let mut m = doc.clone();
            for &p in chunk {
                let order = ((si as u64) << 40) | ((p as u64) << 8);
                let orig = doc[p];
                for &b in subst.iter() {
                    if b == orig { continue }
                    m[p] = b;
                    n += 1;
                    if !finite_case(&fails, order | b as u64, *kind, &m, &mut oc, || format!("{name} byte {p} := {b:#04x}")) { rejected += 1 }
                }
                m[p] = orig;
                n += 1;
                if !finite_case(&fails, order, *kind, &doc[..p], &mut oc, || format!("{name} truncated to {p} octets")) { rejected += 1 }
                let mut del = Vec::with_capacity(doc.len());
                del.extend_from_slice(&doc[..p]); del.extend_from_slice(&doc[p + 1..]);
                n += 1;
                if !finite_case(&fails, order | 1, *kind, &del, &mut oc, || format!("{name} byte {p} deleted")) { rejected += 1 }
            }
            sp.evals(n); sp.nontrivial(rejected); sp.merge_outcomes(&oc);
        });
        bound.push(format!("{name}: {} of {} offsets x {} ops", offs.len(), doc.len(), subst.len() + 2));
    }
    fails.flush_into(ctx, &sp);
    sp.set("seeds", json!(seed_facts));
    sp.sample_str(|| "ripe-notification.xml byte 0 := 0x3e ('>')".into());
    sp.sample_str(|| "ripe-delta.xml[first 3 elements] truncated to 300 octets".into());
    sp.done(true, &bound.join("; "));
}

fn space_hostile_short(ctx: &Ctx) {
    let n: u32 = ctx.tier.pick(2, 3);
    let sp = ctx.space("hostile.short_strings",
        "every byte string of length 0..N given to all three parsers: returns without panic; non-trivial = strings on which at least one parser reports something other than it does for the empty input");
    let total: u64 = (0..=n).map(|k| 256u64.pow(k)).sum();
    let kinds = [Kind::Notification, Kind::Snapshot, Kind::Delta];
    let base: Vec<String> = kinds.iter().map(|k| parse_as(*k, &b""[..]).err().unwrap_or_default()).collect();
    let fails = Fails::new();
    rpki_verif::engine::enumerate::par_chunks(total, 1 << 14, |lo, hi| {
        let mut oc: BTreeMap<&'static str, u64> = BTreeMap::new();
        let mut nt = 0u64;
        let mut ix = Vec::new();
        let mut s: Vec<u8> = Vec::new();
        for idx in lo..hi {
            seq_at(256, n, idx, &mut ix);
            s.clear(); s.extend(ix.iter().map(|&i| i as u8));
            let mut differs = false;
            for (ki, kind) in kinds.into_iter().enumerate() {
                match guard(|| parse_as(kind, s.as_slice())) {
                    Ok(Ok(_)) => { *oc.entry("accepted").or_insert(0) += 1; differs = true }
                    Ok(Err(e)) => { if e != base[ki] { differs = true; *oc.entry("rejected-other-error").or_insert(0) += 1 } else { *oc.entry("rejected-as-empty").or_insert(0) += 1 } }
                    Err(p) => { *oc.entry("panic").or_insert(0) += 1; fails.push(idx * 4 + ki as u64, "C09.hostile.nopanic", format!("{} bytes={}", kind.name(), hex(&s)), p) }
                }
            }
            if differs { nt += 1 }
        }
        sp.evals(3 * (hi - lo)); sp.nontrivial(nt); sp.merge_outcomes(&oc);
    });
    fails.flush_into(ctx, &sp);
    sp.sample_str(|| "bytes=3c21 ('<!') to each parser".into());
    sp.done(true, &format!("all {total} strings of length <= {n} x 3 parsers"));
}

fn space_hostile_pairs(ctx: &Ctx) {
    let stride: usize = ctx.tier.pick(8, 1);
    let sp = ctx.space("hostile.skeleton_deviations",
        "skeleton documents: every single substitution (11 values) / truncation at every offset (bound 1) and every pair of substitutions from {< > \" &} at two offsets (bound 2; quick: first offset on a stride of 8): returns without panic; non-trivial = mutants still accepted (deviation not noticed by the grammar)");
    let pair_vals = [b'<', b'>', b'"', b'&'];
    let fails = Fails::new();
    let mut bound = Vec::new();
    for (ki, kind) in [Kind::Notification, Kind::Snapshot, Kind::Delta].into_iter().enumerate() {
        let doc = skeleton(kind);
        let n = doc.len();
        (0..n).into_par_iter().for_each(|p| {
            let mut oc = BTreeMap::new();
            let mut evals = 0u64; let mut acc = 0u64;
            let mut m = doc.clone();
            let o1 = ((ki as u64) << 50) | ((p as u64) << 30);
            for &b in &SUBST {
                if b == doc[p] { continue }
                m[p] = b; evals += 1;
                if finite_case(&fails, o1 | b as u64, kind, &m, &mut oc, || format!("{} skeleton byte {p} := {b:#04x}", kind.name())) { acc += 1 }
            }
            m[p] = doc[p];
            evals += 1;
            if finite_case(&fails, o1, kind, &doc[..p], &mut oc, || format!("{} skeleton truncated to {p}", kind.name())) { acc += 1 }
            if p % stride == 0 {
                for &b1 in &pair_vals {
                    if b1 == doc[p] { continue }
                    m[p] = b1;
                    for q in p + 1..n {
                        let save = m[q];
                        for &b2 in &pair_vals {
                            if b2 == save { continue }
                            m[q] = b2; evals += 1;
                            if finite_case(&fails, (1 << 60) | o1 | ((q as u64) << 16) | ((b1 as u64) << 8) | b2 as u64, kind, &m, &mut oc, || format!("{} skeleton byte {p} := {b1:#04x}, byte {q} := {b2:#04x}", kind.name())) { acc += 1 }
                        }
                        m[q] = save;
                    }
                }
                m[p] = doc[p];
            }
            sp.evals(evals); sp.nontrivial(acc); sp.merge_outcomes(&oc);
        });
        bound.push(format!("{} skeleton ({n} octets)", kind.name()));
    }
    fails.flush_into(ctx, &sp);
    sp.sample_str(|| "notification skeleton byte 0 := 0x3c, byte 1 := 0x3e".into());
    sp.done(true, &format!("bound 1 at every offset; bound 2 at {} first offsets x all later offsets x 4x4 values; {}",
        if stride == 1 { "all".to_string() } else { format!("every {stride}th") }, bound.join(", ")));
}

//============ generic XML reader / writer variants and base64 variants ======
//
// rrdp.rs drives the XML layer through start_with_limit,
// take_opt_element_with_limit, ascii_into and take_opt_final_text. The
// siblings take_element_with_limit, take_text_with_limit, into_ascii_bytes
// and Name::qualified (at run time) are driven here through a small grammar
// of their own, <r xmlns k><c a>text</c></r>, and judged against the
// siblings (finite inputs) and against the same read bound (endless inputs).

const MINI_NS: &[u8] = b"urn:c09";

/// Driver over the operations rrdp.rs uses. Some((k, a, text)) if there is a child.
fn mini_siblings<R: io::BufRead>(r: R, lim: [u64; 3]) -> Result<Option<(String, String, Option<String>)>, xd::Error> {
    let mut reader = xd::Reader::new(r);
    let root = xd::Name::from((MINI_NS, &b"r"[..]));
    let child = xd::Name::from((MINI_NS, &b"c"[..]));
    let mut k = None;
    let mut outer = reader.start_with_limit(|el| {
        if el.name() != root { return Err(xd::Error::Malformed) }
        el.attributes(|name, value| match name {
            b"k" => { k = Some(value.ascii_into::<String>()?); Ok(()) }
            _ => Err(xd::Error::Malformed),
        })
    }, lim[0])?;
    let k = k.ok_or(xd::Error::Malformed)?;
    let mut a = None;
    let inner = outer.take_opt_element_with_limit(&mut reader, |el| {
        if el.name() != child { return Err(xd::Error::Malformed) }
        el.attributes(|name, value| match name {
            b"a" => { a = Some(value.ascii_into::<String>()?); Ok(()) }
            _ => Err(xd::Error::Malformed),
        })
    }, lim[1])?;
    let res = match inner {
        None => None,
        Some(mut inner) => {
            let a = a.ok_or(xd::Error::Malformed)?;
            let t = inner.take_opt_final_text(&mut reader, |t| match t {
                Some(t) => Ok::<_, xd::Error>(Some(t.to_utf8()?.into_owned())),
                None => Ok(None),
            })?;
            Some((k, a, t))
        }
    };
    outer.take_end(&mut reader)?;
    reader.end()?;
    Ok(res)
}

/// Driver over the variants: exactly one child with text is required.
fn mini_variants<R: io::BufRead>(r: R, lim: [u64; 3]) -> Result<(Bytes, Bytes, String), xd::Error> {
    let mut reader = xd::Reader::new(r);
    let (ns, r_local, c_local): (&[u8], &[u8], &[u8]) = (MINI_NS, b"r", b"c");
    let root = xd::Name::qualified(ns, r_local);
    let child = xd::Name::qualified(ns, c_local);
    let mut k = None;
    let mut outer = reader.start_with_limit(|el| {
        if el.name() != root { return Err(xd::Error::Malformed) }
        el.attributes(|name, value| match name {
            b"k" => { k = Some(value.into_ascii_bytes()?); Ok(()) }
            _ => Err(xd::Error::Malformed),
        })
    }, lim[0])?;
    let k = k.ok_or(xd::Error::Malformed)?;
    let mut a = None;
    let mut inner = outer.take_element_with_limit(&mut reader, |el| {
        if el.name() != child { return Err(xd::Error::Malformed) }
        el.attributes(|name, value| match name {
            b"a" => { a = Some(value.into_ascii_bytes()?); Ok(()) }
            _ => Err(xd::Error::Malformed),
        })
    }, lim[1])?;
    let a = a.ok_or(xd::Error::Malformed)?;
    let t = inner.take_text_with_limit(&mut reader, |t| Ok::<_, xd::Error>(t.to_utf8()?.into_owned()), lim[2])?;
    inner.take_end(&mut reader)?;
    outer.take_end(&mut reader)?;
    reader.end()?;
    Ok((k, a, t))
}

fn mini_docs() -> Vec<(&'static str, Vec<u8>)> {
    vec![
        ("compact", b"<?xml version=\"1.0\"?><r xmlns=\"urn:c09\" k=\"v&amp;w\"><c a=\"1&lt;2\">te xt</c></r>".to_vec()),
        ("spaced", b"<r xmlns=\"urn:c09\" k=\"x\">\n <!-- c -->\n <c a=\"y'z\">\n  dGV4dA==\n </c>\n</r>\n<!-- t -->\n".to_vec()),
        ("empty-child", b"<r xmlns=\"urn:c09\" k=\"x\"><c a=\"y\"/></r>".to_vec()),
        ("textless-child", b"<r xmlns=\"urn:c09\" k=\"x\"><c a=\"y\"></c></r>".to_vec()),
        ("self-closing-root", b"<r xmlns=\"urn:c09\" k=\"x\"/>".to_vec()),
        ("childless-root", b"<r xmlns=\"urn:c09\" k=\"x\"></r>".to_vec()),
    ]
}

fn space_xml_variants(ctx: &Ctx) {
    let sp = ctx.space("xml.reader_variants",
        "own grammar <r xmlns k><c a>text</c></r> in 6 document shapes. (i) finite: every single-byte substitution (11 values) / truncation / deletion at every offset, parsed by a driver over take_element_with_limit + take_text_with_limit + into_ascii_bytes + Name::qualified and by a driver over the siblings rrdp.rs uses (take_opt_element_with_limit, take_opt_final_text, ascii_into, Name::from): the variant driver succeeds exactly when the sibling driver reports a child with text, with the same three values. (ii) endless: every offset of the two shapes with a text child x 24 run kinds x BufReader capacities {16, 64} through the variant driver with limits root 300 / child 1000 / text 600: no panic, octets pulled <= start of the item + limit in force + capacity. non-trivial = (i) mutants on which the sibling driver still finds a child with text, (ii) streams stopped by the limit");
    let big = [u64::MAX / 4; 3];
    let fails = Fails::new();
    let docs = mini_docs();
    // (i)
    for (di, (dname, doc)) in docs.iter().enumerate() {
        (0..=doc.len()).into_par_iter().for_each(|p| {
            let mut oc: BTreeMap<&'static str, u64> = BTreeMap::new();
            let mut inputs: Vec<(String, Vec<u8>)> = vec![(format!("{dname} truncated to {p}"), doc[..p].to_vec())];
            if p < doc.len() {
                for &b in &SUBST { if b != doc[p] { let mut m = doc.clone(); m[p] = b; inputs.push((format!("{dname} byte {p} := {b:#04x}"), m)) } }
                let mut d = doc[..p].to_vec(); d.extend_from_slice(&doc[p + 1..]);
                inputs.push((format!("{dname} byte {p} deleted"), d));
            } else { inputs.push((format!("{dname} unmodified"), doc.clone())) }
            let mut nt = 0u64;
            for (ii, (wit, input)) in inputs.iter().enumerate() {
                let order = ((di as u64) << 40) | ((p as u64) << 8) | ii as u64;
                let sib = guard(|| mini_siblings(input.as_slice(), big).map_err(|e| e.to_string()));
                let var = guard(|| mini_variants(input.as_slice(), big).map_err(|e| e.to_string()));
                let (sib, var) = match (sib, var) {
                    (Ok(s), Ok(v)) => (s, v),
                    (s, v) => {
                        *oc.entry("panic").or_insert(0) += 1;
                        for r in [s.err(), v.err()].into_iter().flatten() { fails.push(order, "C09.hostile.nopanic", format!("xml mini grammar: {wit} ({})", hex(input)), r) }
                        continue
                    }
                };
                let want = match &sib { Ok(Some((k, a, Some(t)))) => Some((k.clone(), a.clone(), t.clone())), _ => None };
                let got = var.as_ref().ok().map(|(k, a, t)| (String::from_utf8_lossy(k).into_owned(), String::from_utf8_lossy(a).into_owned(), t.clone()));
                *oc.entry(match (&sib, want.is_some()) { (_, true) => "child-with-text", (Ok(_), false) => "accepted-without-text-child", (Err(_), _) => "rejected" }).or_insert(0) += 1;
                if want.is_some() { nt += 1 }
                if want != got {
                    fails.push(order, "C09.xml.reader_variants", format!("{wit} ({})", hex(input)),
                        format!("take_opt_element_with_limit/take_opt_final_text/ascii_into driver: {sib:?}; take_element_with_limit/take_text_with_limit/into_ascii_bytes driver: {var:?}"));
                }
            }
            sp.evals(inputs.len() as u64); sp.nontrivial(nt); sp.merge_outcomes(&oc);
        });
    }
    // (ii)
    let lim = [300u64, 1000, 600];
    let blocks: Vec<Vec<u8>> = RUNS.iter().map(|r| block_of(r.unit)).collect();
    let mut cases: Vec<(usize, usize, usize, usize)> = Vec::new();
    for di in 0..2 { for p in 0..=docs[di].1.len() { for ri in 0..RUNS.len() { for bufcap in [16usize, 64] { cases.push((di, p, ri, bufcap)) } } } }
    let lays: Vec<DocLayout> = docs.iter().take(2).map(|d| layout(&d.1)).collect();
    let child_gt: Vec<usize> = docs.iter().take(2).map(|d| { let c = find(&d.1, b"<c "); c + d.1[c..].iter().position(|b| *b == b'>').unwrap() }).collect();
    let results: Vec<(u64, bool, Result<Result<(), String>, String>)> = cases.par_iter().map(|&(di, p, ri, bufcap)| {
        let r = &RUNS[ri];
        let doc = &docs[di].1;
        let mut counting = Counting { inner: Gen { pre: &doc[..p], head: r.head, block: &blocks[ri], run_len: u64::MAX, suf: b"", pos: 0, cap: p as u64 + 8000, cap_hit: false }, pulled: 0 };
        let res = guard(|| mini_variants(BufReader::with_capacity(bufcap, &mut counting), lim).map(|_| ()).map_err(|e| e.to_string()));
        (counting.pulled, counting.inner.cap_hit, res)
    }).collect();
    let mut oc: BTreeMap<&'static str, u64> = BTreeMap::new();
    let (mut nt, mut violated) = (0u64, 0u64);
    for (&(di, p, ri, bufcap), (pulled, cap_hit, res)) in cases.iter().zip(&results) {
        let r = &RUNS[ri];
        let lay = &lays[di];
        // limit in force: root header up to the root tag's '>', child limit up to the child tag's '>',
        // text limit afterwards; a run containing '>' can complete the tag it is in, so the largest applies
        let region = if p <= lay.root_gt { lim[0] } else if p <= child_gt[di] { lim[1] } else { lim[2] };
        let limit = if r.unit.contains(&b'>') { lim[1] } else { region };
        let start = if r.unit.contains(&b'>') { p as u64 } else { lay.start[p] as u64 };
        let bound = start + limit + bufcap as u64;
        let wit = || format!("xml mini grammar {} pos={p} ({}) run={} endless bufcap={bufcap}", docs[di].0, lay.class[p], r.name);
        let by_limit = *pulled >= region;
        if by_limit { nt += 1 }
        *oc.entry(match res { Err(_) => "panic", Ok(Ok(())) => "accepted", Ok(Err(_)) => if by_limit { "error-at-limit" } else { "error-early" } }).or_insert(0) += 1;
        if let Err(panic) = res { violated += 1; ctx.fail("C09.hostile.nopanic", wit(), panic.clone()) }
        if *cap_hit || *pulled > bound {
            violated += 1;
            ctx.fail("C09.hostile.bound", wit(), format!("pulled {pulled} octets{}; allowed: start of the item {} + limit {limit} + one buffer {bufcap} = {bound}",
                if *cap_hit { " (generator cap reached: the parse would not have stopped)" } else { "" }, start));
        }
    }
    sp.evals(cases.len() as u64); sp.nontrivial(nt); sp.merge_outcomes(&oc);
    sp.outcomes_n("oracle-violated", violated);
    fails.flush_into(ctx, &sp);
    sp.sample_str(|| String::from_utf8_lossy(&docs[0].1).into_owned());
    sp.sample_str(|| String::from_utf8_lossy(&docs[1].1).into_owned());
    sp.done(true, &format!("6 shapes x every offset x 13 deviations; 2 shapes x every offset x 24 run kinds x 2 buffer sizes ({} streams)", cases.len()));
}

/// Writes <r xmlns k><c a>pcdata(t)</c></r> through the generic writer.
fn write_mini<W: io::Write>(w: &mut xe::Writer<W>, k: &str, a: &str, t: &str) -> io::Result<()> {
    w.element(xd::Name::unqualified(b"r"))?
        .attr("xmlns", "urn:c09")?
        .attr("k", k)?
        .content(|c| {
            c.element(xd::Name::unqualified(b"c"))?.attr("a", a)?.content(|c| c.pcdata(t))?;
            Ok(())
        })?;
    Ok(())
}

/// Independent reading of the mini document with quick-xml alone:
/// (k, a, text with entity and character references resolved).
fn read_mini_qx(doc: &[u8]) -> Result<(String, String, String), String> {
    use quick_xml::events::Event;
    let mut rd = quick_xml::Reader::from_reader(doc);
    let (mut k, mut a, mut text, mut depth) = (None, None, String::new(), 0usize);
    loop {
        match rd.read_event().map_err(|e| e.to_string())? {
            ev @ (Event::Start(_) | Event::Empty(_)) => {
                let (e, opens) = match &ev { Event::Start(e) => (e, true), Event::Empty(e) => (e, false), _ => unreachable!() };
                if opens { depth += 1 }
                for at in e.attributes() {
                    let at = at.map_err(|e| e.to_string())?;
                    let v = at.unescape_value().map_err(|e| e.to_string())?.into_owned();
                    match at.key.as_ref() { b"k" => k = Some(v), b"a" => a = Some(v), _ => {} }
                }
            }
            Event::End(_) => depth = depth.checked_sub(1).ok_or("unbalanced end tag")?,
            Event::Text(t) => { let t = t.decode().map_err(|e| e.to_string())?; if depth == 2 { text.push_str(&t) } else if !t.trim().is_empty() { return Err(format!("text outside <c>: {t:?}")) } }
            Event::GeneralRef(r) => {
                if depth != 2 { return Err("reference outside <c>".into()) }
                match r.resolve_char_ref().map_err(|e| e.to_string())? {
                    Some(ch) => text.push(ch),
                    None => {
                        let name = r.decode().map_err(|e| e.to_string())?;
                        text.push_str(quick_xml::escape::resolve_predefined_entity(&name).ok_or_else(|| format!("unknown entity &{name};"))?)
                    }
                }
            }
            Event::Eof => break,
            other => return Err(format!("unexpected event {other:?}")),
        }
    }
    if depth != 0 { return Err("unclosed element".into()) }
    Ok((k.ok_or("no k")?, a.ok_or("no a")?, text))
}

/// Fails every write once `budget` octets have been accepted.
struct FailingWriter { budget: usize, written: Vec<u8> }
impl io::Write for FailingWriter {
    fn write(&mut self, buf: &[u8]) -> io::Result<usize> {
        if self.budget == 0 { return Err(io::Error::other("writer full")) }
        let n = buf.len().min(self.budget);
        self.budget -= n;
        self.written.extend_from_slice(&buf[..n]);
        Ok(n)
    }
    fn flush(&mut self) -> io::Result<()> { Ok(()) }
}

fn space_xml_writer(ctx: &Ctx) {
    let max_len: u32 = ctx.tier.pick(3, 4);
    let sp = ctx.space("xml.writer_variants",
        "own document <r xmlns k><c a>pcdata</c></r> written through xml::encode::Writer for every string of length 0..N over {a < > & \" ' ; # SP} used as attribute value and as PCDATA: (1) pcdata and attr must both read back (quick-xml alone, references resolved) as the string that was put in (PCDATA up to the indentation white space the writer adds); (2) set_indent(\"  \") gives the default output octet for octet and set_indent(\"\\t\"), (\"\"), (\"    \") change nothing but white space: same values read back; (3) Writer::new(Vec).into_wrapped() returns exactly the octets that Writer::new(&mut Vec) + done() wrote, and for a writer failing after every possible number of octets into_wrapped() fails exactly when done() does; non-trivial = strings containing a character that must be escaped");
    let alphabet: [char; 9] = ['a', '<', '>', '&', '"', '\'', ';', '#', ' '];
    let k = alphabet.len() as u64;
    let fails = Fails::new();
    par_for(seq_count(k, max_len), |idx| {
        let mut ix = Vec::new();
        seq_at(k, max_len, idx, &mut ix);
        let t: String = ix.iter().map(|&i| alphabet[i]).collect();
        let escapes = t.contains(['<', '>', '&', '"', '\'']);
        sp.eval();
        if escapes { sp.nontrivial(1); sp.outcome("needs-escaping") } else { sp.outcome("plain") }
        fails.check(idx, "C09.xml.writer_variants", || format!("text={t:?}"), || {
            // default: &mut Vec + done()
            let mut base = Vec::new();
            { let mut w = xe::Writer::new(&mut base); write_mini(&mut w, "kv", &t, &t).map_err(|e| e.to_string())?; w.done().map_err(|e| e.to_string())?; }
            let (rk, ra, rt) = read_mini_qx(&base).map_err(|e| format!("written document is not readable: {e}; {}", String::from_utf8_lossy(&base)))?;
            if rk != "kv" || ra != t { return Err(format!("attr({t:?}) reads back as {ra:?}; {}", String::from_utf8_lossy(&base))) }
            if rt.trim_matches(['\n', ' ', '\t']) != t.trim_matches(' ') { return Err(format!("pcdata({t:?}) reads back as {rt:?}; {}", String::from_utf8_lossy(&base))) }
            // into_wrapped
            let mut w = xe::Writer::new(Vec::new());
            write_mini(&mut w, "kv", &t, &t).map_err(|e| e.to_string())?;
            let owned = w.into_wrapped().map_err(|e| format!("into_wrapped failed: {e}"))?;
            if owned != base { return Err(format!("into_wrapped() returned {:?}, done() path wrote {:?}", String::from_utf8_lossy(&owned), String::from_utf8_lossy(&base))) }
            // set_indent
            for indent in ["  ", "\t", "", "    "] {
                let mut w = xe::Writer::new(Vec::new());
                w.set_indent(indent);
                write_mini(&mut w, "kv", &t, &t).map_err(|e| e.to_string())?;
                let out = w.into_wrapped().map_err(|e| e.to_string())?;
                if indent == "  " && out != base { return Err("set_indent(\"  \") differs from the default output".into()) }
                let (ik, ia, it) = read_mini_qx(&out).map_err(|e| format!("set_indent({indent:?}) output not readable: {e}"))?;
                if (ik.as_str(), ia.as_str(), it.trim_matches(['\n', ' ', '\t'])) != (rk.as_str(), ra.as_str(), rt.trim_matches(['\n', ' ', '\t'])) { return Err(format!("set_indent({indent:?}) changes the content: {:?}", String::from_utf8_lossy(&out))) }
                let strip = |v: &[u8]| v.iter().copied().filter(|b| !b" \t\n".contains(b)).collect::<Vec<u8>>();
                if strip(&out) != strip(&base) { return Err(format!("set_indent({indent:?}) changes more than white space")) }
            }
            // failing writer: done() and into_wrapped() agree at every cut
            if idx % 8 == 0 {
                for budget in 0..=base.len() {
                    let run = |finish_wrapped: bool| -> bool {
                        let mut w = xe::Writer::new(FailingWriter { budget, written: Vec::new() });
                        let r = write_mini(&mut w, "kv", &t, &t);
                        let f = if finish_wrapped { w.into_wrapped().map(|_| ()) } else { w.done() };
                        r.is_ok() && f.is_ok()
                    };
                    let (d, i) = (run(false), run(true));
                    if d != i { return Err(format!("writer failing after {budget} octets: done() path ok={d}, into_wrapped() path ok={i}")) }
                    if d != (budget >= base.len()) { return Err(format!("writer failing after {budget} of {} octets reported ok={d}", base.len())) }
                }
            }
            Ok(())
        });
    });
    fails.flush_into(ctx, &sp);
    sp.sample_str(|| guard(|| { let mut w = xe::Writer::new(Vec::new()); let _ = write_mini(&mut w, "kv", "a<'&", "a<'&"); String::from_utf8_lossy(&w.into_wrapped().unwrap_or_default()).into_owned() }).unwrap_or_else(|p| p));
    sp.done(true, &format!("all strings of length <= {max_len} over 9 characters; failing-writer sweep on every 8th string"));
}

fn space_base64(ctx: &Ctx) {
    use rpki::util::base64 as b64;
    let sp = ctx.space("base64.variants",
        "every object content of the round-trip alphabet (58 length/fill combinations) x white-space layout of its base64 text {none, after every 1/3/4/5/64/76 characters, leading+trailing}: Xml.decode, Xml.decode_bytes and read_to_end / 1-, 2-, 3-, 5-octet reads of Xml.decode_reader agree with each other and give the content back; Slurm.write_encoded_slice == Slurm.encode == Slurm.display and Slurm.decode / decode_slice give the content back; non-trivial = non-empty contents");
    let layouts: [usize; 8] = [0, 1, 3, 4, 5, 64, 76, usize::MAX];
    let data = data_full();
    let fails = Fails::new();
    data.par_iter().enumerate().for_each(|(di, d)| {
        let bytes = d.bytes();
        for (li, &every) in layouts.iter().enumerate() {
            sp.eval();
            if d.len > 0 { sp.nontrivial(1) }
            sp.outcome(if every == 0 { "no-white-space" } else { "white-space" });
            fails.check((di * 8 + li) as u64, "C09.base64.variants", || format!("content={} white-space-every={every}", d.show()), || {
                let plain = b64::Xml.encode(&bytes);
                let text: String = match every {
                    0 => plain.clone(),
                    usize::MAX => format!("\n\t  {plain} \r\n"),
                    n => plain.as_bytes().chunks(n).map(|c| std::str::from_utf8(c).unwrap()).collect::<Vec<_>>().join(if n % 2 == 0 { "\n    " } else { " " }),
                };
                let whole = b64::Xml.decode(&text).map_err(|e| format!("Xml.decode: {e}"))?;
                if whole != bytes.as_ref() { return Err(format!("Xml.decode gives {} octets {}", whole.len(), trunc(&hex(&whole), 64))) }
                let from_bytes = b64::Xml.decode_bytes(text.as_bytes()).map_err(|e| format!("Xml.decode_bytes: {e}"))?;
                if from_bytes != whole { return Err("Xml.decode_bytes differs from Xml.decode".into()) }
                for chunk in [0usize, 1, 2, 3, 5] {
                    let mut rd = b64::Xml.decode_reader(&text);
                    let mut out = Vec::new();
                    if chunk == 0 { rd.read_to_end(&mut out).map_err(|e| format!("decode_reader: {e}"))?; } else {
                        let mut buf = vec![0u8; chunk];
                        loop { let n = rd.read(&mut buf).map_err(|e| format!("decode_reader: {e}"))?; if n == 0 { break } out.extend_from_slice(&buf[..n]) }
                    }
                    if out != whole { return Err(format!("decode_reader read in chunks of {chunk} gives {} octets, Xml.decode {}", out.len(), whole.len())) }
                }
                if every == 0 {
                    let enc = b64::Slurm.encode(&bytes);
                    let mut w = Vec::new();
                    b64::Slurm.write_encoded_slice(&bytes, &mut w).map_err(|e| e.to_string())?;
                    if w != enc.as_bytes() { return Err(format!("Slurm.write_encoded_slice wrote {:?}, Slurm.encode gives {enc:?}", trunc(&String::from_utf8_lossy(&w), 80))) }
                    if b64::Slurm.display(&bytes).to_string() != enc { return Err("Slurm.display differs from Slurm.encode".into()) }
                    let back = b64::Slurm.decode(&enc).map_err(|e| format!("Slurm.decode: {e}"))?;
                    if back != bytes.as_ref() { return Err("Slurm.decode(Slurm.encode(x)) != x".into()) }
                    let mut slice = vec![0u8; bytes.len() + 3];
                    let n = b64::Slurm.decode_slice(&enc, &mut slice).map_err(|e| format!("Slurm.decode_slice: {e}"))?;
                    if slice[..n] != back[..] { return Err("Slurm.decode_slice differs from Slurm.decode".into()) }
                }
                Ok(())
            });
        }
    });
    fails.flush_into(ctx, &sp);
    sp.sample_str(|| "content=4xmix white-space-every=3".into());
    sp.done(true, &format!("{} contents x {} layouts", data.len(), layouts.len()));
}

//============ scale: counts, sizes and lengths through the thresholds =======

/// 0..=40, then k-1, k, k+1 for the powers of two up to `max`; quick keeps
/// the neighbourhoods of 64..4096 and of 65536, thorough all of them.
fn scale_set(max: u64, thorough: bool, extra: &[u64]) -> Vec<u64> {
    let mut v: Vec<u64> = (0..=40u64).collect();
    for k in [64u64, 128, 256, 512, 1024, 2048, 4096, 8192, 16384, 32768, 65536, 1 << 17, 1 << 18, 1 << 19, 1 << 20] {
        let in_quick = k <= 4096 || k == 65536;
        if thorough || in_quick { v.extend([k - 1, k, k + 1]) }
    }
    v.retain(|x| *x <= max);
    v.extend_from_slice(extra); // thresholds of the library itself: always included
    v.sort(); v.dedup();
    v
}

fn notification_with(n: u64, uri_len: usize) -> NotificationFile {
    let h = hashes()[2];
    let pad = "p".repeat(uri_len);
    NotificationFile::new(sessions()[2], 10_000_000 + n, UriAndHash::new(https(&format!("https://h.example/x{pad}/snapshot.xml")), h),
        (0..n).map(|i| DeltaInfo::new(10_000_000 + i, https(&format!("https://h.example/{i:08}/x{pad}/delta.xml")), h)).collect())
}

fn written_len(nf: &NotificationFile) -> u64 { let mut v = Vec::new(); let _ = nf.write_xml(&mut v); v.len() as u64 }

fn space_scale(ctx: &Ctx) {
    let thorough = ctx.tier.is_thorough();
    let sp = ctx.space("scale.roundtrip",
        "the round trip with every counted / measured quantity swept through 0..=40, the -1/0/+1 neighbourhoods of the powers of two (quick: 64..4096 and 65536; thorough: all up to 2^20) and the configured limits: (A) number of deltas in a notification, incl. the counts at which the file crosses 1,000,000 octets although every element is small, each also through parse_limited(n) == parse and parse_limited(n-1) => oversized; (B) number of elements in a snapshot and in a delta (kinds cycling); (C) object size in a snapshot publish and a delta update, incl. 749,999..750,001 octets (base64 of exactly 1,000,000) and in thorough one object whose element is just below 100,000,000 octets; (D) URI length in notification snapshot/delta entries (incl. an element just below 1,000,000 octets) and in a publish element; same oracles as the small cases; non-trivial = cases beyond 40");
    let fails = Fails::new();
    let mut bound: Vec<String> = Vec::new();
    let big = |x: u64| if x > 40 { sp.nontrivial(1) };
    // (A)
    let (s0, s1) = (written_len(&notification_with(0, 0)), written_len(&notification_with(1, 0)));
    let per = s1.saturating_sub(s0).max(1);
    let cross = (HEADER_LIMIT.saturating_sub(s0)) / per + 1; // smallest count whose file is larger than the limit
    let counts = scale_set(if thorough { 65537 } else { 4097 }, thorough, &[cross - 1, cross, cross + 1, 2 * cross]);
    counts.par_iter().for_each(|&n| {
        sp.eval(); big(n); sp.outcome(if n >= cross { "file-above-1MB" } else { "file-below-1MB" });
        fails.check(n, "C09.roundtrip.notification", || format!("notification with {n} deltas of {per} octets each"), || {
            let nf = notification_with(n, 0);
            let xml = roundtrip_notification(&nf)?;
            let same = NotificationFile::parse_limited(xml.as_slice(), n as usize).map_err(|e| format!("parse_limited({n}): {e}"))?;
            if same != nf || same.delta_status().is_err() { return Err(format!("parse_limited({n}) differs from parse")) }
            if n > 0 {
                let fewer = NotificationFile::parse_limited(xml.as_slice(), n as usize - 1).map_err(|e| format!("parse_limited({}): {e}", n - 1))?;
                if fewer.delta_status().is_ok() || !fewer.deltas().is_empty() { return Err(format!("parse_limited({}) of {n} deltas does not report an oversized list", n - 1)) }
                if fewer.session_id() != nf.session_id() || fewer.serial() != nf.serial() || fewer.snapshot() != nf.snapshot() { return Err(format!("parse_limited({}) changes session/serial/snapshot", n - 1)) }
            }
            Ok(())
        });
    });
    bound.push(format!("(A) {} delta counts up to {} (file crosses 1 MB at {cross})", counts.len(), counts.last().unwrap()));
    // (B)
    let counts = scale_set(if thorough { 65537 } else { 4097 }, thorough, &[]);
    counts.par_iter().for_each(|&n| {
        for snapshot in [true, false] {
            sp.eval(); big(n); sp.outcome(if snapshot { "snapshot" } else { "delta" });
            fails.check((1 << 40) | n << 1 | snapshot as u64, if snapshot { "C09.roundtrip.snapshot" } else { "C09.roundtrip.delta" }, || format!("{} with {n} elements", if snapshot { "snapshot" } else { "delta" }), || {
                let hs = hashes();
                let els: Vec<(ElSpec, String)> = (0..n).map(|i| {
                    let data = DataSpec { len: (i % 5) as usize, pat: (i % 3) as u8 };
                    let e = match if snapshot { 0 } else { i % 3 } { 0 => ElSpec::Publish { uri: 0, data }, 1 => ElSpec::Update { uri: 0, hash: (i % 3) as usize, data }, _ => ElSpec::Withdraw { uri: 0, hash: (i % 3) as usize } };
                    (e, format!("rsync://h.example/m/{i:06}.roa"))
                }).collect();
                let want: Vec<Seen> = els.iter().map(|(e, u)| match *e {
                    ElSpec::Publish { data, .. } => Seen::Publish { uri: rsync(u), hash: None, data: data.bytes().to_vec() },
                    ElSpec::Update { hash, data, .. } => Seen::Publish { uri: rsync(u), hash: Some(hs[hash]), data: data.bytes().to_vec() },
                    ElSpec::Withdraw { hash, .. } => Seen::Withdraw { uri: rsync(u), hash: hs[hash] },
                }).collect();
                if snapshot { roundtrip_snapshot(sessions()[2], n, &want, 0) } else { roundtrip_delta_seen(sessions()[2], n, &want, 0) }
            });
        }
    });
    bound.push(format!("(B) {} element counts up to {} x snapshot, delta", counts.len(), counts.last().unwrap()));
    // (C)
    let sizes = scale_set(1 << 20 | 1, thorough, &[749_999, 750_000, 750_001]);
    sizes.par_iter().for_each(|&len| {
        for snapshot in [true, false] {
            sp.eval(); big(len); sp.outcome(if snapshot { "snapshot" } else { "delta" });
            fails.check((2 << 40) | len << 1 | snapshot as u64, if snapshot { "C09.roundtrip.snapshot" } else { "C09.roundtrip.delta" }, || format!("{} with one object of {len} octets", if snapshot { "snapshot publish" } else { "delta update" }), || {
                let data = big_data(len as usize);
                let want = vec![Seen::Publish { uri: rsync("rsync://h.example/m/o.roa"), hash: if snapshot { None } else { Some(hashes()[2]) }, data }];
                if snapshot { roundtrip_snapshot(sessions()[1], len, &want, 4096) } else { roundtrip_delta_seen(sessions()[1], len, &want, 0) }
            });
        }
    });
    bound.push(format!("(C) {} object sizes up to {} x snapshot, delta", sizes.len(), sizes.last().unwrap()));
    if thorough {
        // element just below MAX_FILE_SIZE: base64 of 99,999,000 octets; lean comparison (== and collector) to bound memory
        sp.eval(); sp.nontrivial(1); sp.outcome("snapshot");
        fails.check(3 << 40, "C09.roundtrip.snapshot", || "snapshot with one object of 74999250 octets (publish element just below 100,000,000 octets)".into(), || {
            let data = Bytes::from(big_data(74_999_250));
            let snap = Snapshot::new(sessions()[1], 1, vec![PublishElement::new(rsync("rsync://h.example/m/o.roa"), data.clone())]);
            let mut xml = Vec::new();
            snap.write_xml(&mut xml).map_err(|e| e.to_string())?;
            let mut c = Collect::new(0);
            <Collect as ProcessSnapshot>::process(&mut c, xml.as_slice()).map_err(|e| format!("written snapshot ({} octets) does not process: {e}", xml.len()))?;
            match c.seen.as_slice() { [Seen::Publish { data: d, .. }] if d[..] == data[..] => Ok(()), _ => Err("object bytes differ".into()) }
        });
        bound.push("(C') one object at the 100 MB element limit".into());
    }
    // (D)
    let near_limit = HEADER_LIMIT - 300; // the whole <snapshot .../> resp. <delta .../> element stays below the limit
    let lens = scale_set(1 << 19 | 1, thorough, &[near_limit]);
    lens.par_iter().for_each(|&len| {
        sp.eval(); big(len); sp.outcome("notification-uri");
        fails.check((4 << 40) | len, "C09.roundtrip.notification", || format!("notification with 2 deltas whose URIs (and the snapshot's) have a path segment of 1 + {len} octets"), || roundtrip_notification(&notification_with(2, len as usize)).map(|_| ()));
        sp.eval(); big(len); sp.outcome("publish-uri");
        fails.check((5 << 40) | len, "C09.roundtrip.snapshot", || format!("snapshot publish whose URI has a path segment of 1 + {len} octets"), || {
            let want = vec![Seen::Publish { uri: rsync(&format!("rsync://h.example/m/x{}/o.roa", "p".repeat(len as usize))), hash: None, data: vec![1, 2, 3] }];
            roundtrip_snapshot(sessions()[0], 1, &want, 0)
        });
    });
    bound.push(format!("(D) {} URI lengths up to {}", lens.len(), lens.last().unwrap()));
    fails.flush_into(ctx, &sp);
    sp.set("delta_count_at_which_file_crosses_1MB", json!(cross));
    sp.sample_str(|| format!("notification with {cross} deltas of {per} octets each ({} octets)", s0 + cross * per));
    sp.done(true, &bound.join("; "));
}

//============ names of every length; Debug / Display of the XML layer =======

/// `len` octets: `shift` ASCII letters, then the unit repeated, cut at `len`
/// (so a multi-octet unit is also cut at every possible place).
fn name_bytes(len: usize, shift: usize, unit: &[u8]) -> Vec<u8> {
    let mut v: Vec<u8> = std::iter::repeat_n(b'n', shift.min(len)).collect();
    while v.len() < len { v.extend_from_slice(unit) }
    v.truncate(len);
    v
}

const NAME_UNITS: [(&str, &[u8]); 7] = [
    ("ascii", b"a"), ("2-octet", "\u{e9}".as_bytes()), ("3-octet", "\u{20ac}".as_bytes()), ("4-octet", "\u{1F600}".as_bytes()),
    ("invalid-ff", b"\xFF"), ("lone-continuation", b"a\x80"), ("overlong-lead", b"\xC0\xAFb"),
];

fn space_names(ctx: &Ctx) {
    let thorough = ctx.tier.is_thorough();
    let sp = ctx.space("names.lengths_and_formatting",
        "names of length 0..=80, 127..=129, 255..=257 (documents: also the power-of-two neighbourhoods up to 65537 in quick / 2^20+1 in thorough, ASCII and 3-octet units) built from ASCII, 2-, 3-, 4-octet UTF-8 characters and three kinds of invalid UTF-8, at alignments 0..3 and cut at the length: (1) format!(\"{:?}\") of xml::decode::Name (namespace, local part, both) and Debug/Display of the errors: no panic; (2) documents whose root local name / namespace URI / prefix / attribute name / attribute value is such a name, given to all three parsers with a logger installed that formats every record at Trace level: no panic (the parser's log statements format these names); non-trivial = names that are not valid UTF-8 or longer than 64 octets");
    let fails = Fails::new();
    let (rec0, oct0) = (LOG_RECORDS.load(Ordering::Relaxed), LOG_OCTETS.load(Ordering::Relaxed));
    let mut lens: Vec<usize> = (0..=80).collect();
    lens.extend([127, 128, 129, 255, 256, 257]);
    let mut cases: Vec<(usize, usize, usize)> = Vec::new(); // (len, shift, unit)
    for &len in &lens { for shift in 0..4 { for u in 0..NAME_UNITS.len() { cases.push((len, shift, u)) } } }
    let long: Vec<usize> = scale_set(if thorough { (1 << 20) + 1 } else { 65537 }, thorough, &[]).into_iter().map(|x| x as usize).filter(|x| *x > 257).collect();
    for &len in &long { for shift in [0usize, 1] { for u in [0usize, 2, 4] { cases.push((len, shift, u)) } } }
    cases.par_iter().enumerate().for_each(|(ci, &(len, shift, u))| {
        let name = name_bytes(len, shift, NAME_UNITS[u].1);
        let wit = |what: &str| format!("{what}: {} octets = {} 'n' then {} units cut at the length", len, shift.min(len), NAME_UNITS[u].0);
        let nontrivial = std::str::from_utf8(&name).is_err() || len > 64;
        let mut oc: BTreeMap<&'static str, u64> = BTreeMap::new();
        let mut n = 0u64;
        // (1) Debug of Name
        let fixed: &[u8] = b"urn:x";
        for (k, what) in ["Name::unqualified(name)", "Name::qualified(name, b\"x\")", "Name::qualified(b\"urn:x\", name)", "Name::qualified(name, name)"].into_iter().enumerate() {
            n += 1;
            let r = guard(|| {
                let nm = match k { 0 => xd::Name::unqualified(&name), 1 => xd::Name::qualified(&name, b"x"), 2 => xd::Name::qualified(fixed, &name), _ => xd::Name::qualified(&name, &name) };
                format!("{nm:?}").len()
            });
            match r {
                Ok(_) => *oc.entry("formatted").or_insert(0) += 1,
                Err(p) => { *oc.entry("panic").or_insert(0) += 1; fails.push((ci as u64) << 8 | k as u64, "C09.format.nopanic", wit(&format!("format!(\"{{:?}}\", {what})")), p) }
            }
        }
        // (2) documents
        let mut docs: Vec<(&'static str, Vec<u8>)> = Vec::new();
        let attrs = format!("version=\"1\" session_id=\"{SID}\" serial=\"1\"");
        let cat = |parts: &[&[u8]]| parts.concat();
        docs.push(("root local name", cat(&[b"<", &name, b" xmlns=\"http://www.ripe.net/rpki/rrdp\" ", attrs.as_bytes(), b"/>"])));
        docs.push(("namespace URI of a root called snapshot", cat(&[b"<snapshot xmlns=\"", &name, b"\" ", attrs.as_bytes(), b"/>"])));
        docs.push(("namespace URI and local name", cat(&[b"<", &name, b" xmlns=\"", &name, b"\" ", attrs.as_bytes(), b"/>"])));
        docs.push(("prefix", cat(&[b"<", &name, b":snapshot xmlns:", &name, b"=\"http://www.ripe.net/rpki/rrdp\" ", attrs.as_bytes(), b"/>"])));
        docs.push(("attribute name on the root", cat(&[b"<snapshot xmlns=\"http://www.ripe.net/rpki/rrdp\" ", &name, b"=\"1\" ", attrs.as_bytes(), b"/>"])));
        docs.push(("child local name", cat(&[b"<snapshot xmlns=\"http://www.ripe.net/rpki/rrdp\" ", attrs.as_bytes(), b"><", &name, b" uri=\"rsync://h.example/m/a\"/></snapshot>"])));
        docs.push(("serial attribute value", cat(&[b"<snapshot xmlns=\"http://www.ripe.net/rpki/rrdp\" version=\"1\" session_id=\"", SID.as_bytes(), b"\" serial=\"", &name, b"\"/>"])));
        for (di, (what, doc)) in docs.iter().enumerate() {
            for (ki, kind) in [Kind::Notification, Kind::Snapshot, Kind::Delta].into_iter().enumerate() {
                // the same document with the root the parser expects, where the shape has a fixed root
                let doc: Vec<u8> = if kind == Kind::Snapshot { doc.clone() } else { replace_all(doc, b"snapshot", kind.name().as_bytes()) };
                n += 1;
                finite_case(&fails, (ci as u64) << 8 | 16 | (di as u64) << 2 | ki as u64, kind, &doc, &mut oc, || wit(&format!("{} parser, {what}", kind.name())));
            }
        }
        sp.evals(n); if nontrivial { sp.nontrivial(1) } sp.merge_outcomes(&oc);
    });
    fails.flush_into(ctx, &sp);
    sp.set("log_records_formatted_in_this_space", json!(LOG_RECORDS.load(Ordering::Relaxed) - rec0));
    sp.set("log_octets_formatted_in_this_space", json!(LOG_OCTETS.load(Ordering::Relaxed) - oct0));
    sp.set("units", json!(NAME_UNITS.iter().map(|u| u.0).collect::<Vec<_>>()));
    sp.sample_str(|| format!("{:?}", xd::Name::qualified(&name_bytes(66, 1, NAME_UNITS[2].1), b"snapshot")));
    sp.done(true, &format!("{} lengths x 4 alignments x 7 units + {} long lengths x 2 alignments x 3 units; each x 4 Name forms and 7 documents x 3 parsers", lens.len(), long.len()));
}

fn replace_all(hay: &[u8], from: &[u8], to: &[u8]) -> Vec<u8> {
    let mut out = Vec::with_capacity(hay.len());
    let mut i = 0;
    while i < hay.len() {
        if hay[i..].starts_with(from) { out.extend_from_slice(to); i += from.len() } else { out.push(hay[i]); i += 1 }
    }
    out
}

//============ history: what happened before on the same thread ==============

type Act = Box<dyn Fn() -> String + Send + Sync>;

/// Runs `f` on a dedicated, new OS thread (fresh thread-locals), waits for it.
fn on_fresh_thread<T: Send>(f: impl FnOnce() -> T + Send) -> T {
    std::thread::scope(|s| s.spawn(f).join().unwrap_or_else(|_| panic!("history thread died")))
}

/// One observation: everything observable as text; a panic is an observation too.
fn observe(f: &Act) -> String {
    match guard(|| f()) { Ok(s) => s, Err(p) => format!("PANIC: {p}") }
}

fn hist_notification(variant: u64) -> NotificationFile {
    let hs = hashes();
    NotificationFile::new(sessions()[2], 40 + variant, UriAndHash::new(https(HTTPS_URIS[2]), hs[2]),
        (0..=variant).map(|i| DeltaInfo::new(40 + variant - i, https(&format!("https://h.example/{i}/d'.xml")), hs[(i % 3) as usize])).collect())
}
fn hist_snapshot(variant: u64) -> Snapshot {
    Snapshot::new(sessions()[2], 7 + variant, (0..=variant).map(|i| PublishElement::new(rsync(&format!("rsync://h.example/m/{i}&.cer")), DataSpec { len: 3 + 5 * i as usize, pat: 2 }.bytes())).collect())
}
fn hist_delta(variant: u64) -> Delta {
    let hs = hashes();
    let mut els: Vec<DeltaElement> = vec![
        UpdateElement::new(rsync("rsync://h.example/m/u.cer"), hs[2], DataSpec { len: 4, pat: 2 }.bytes()).into(),
        WithdrawElement::new(rsync("rsync://h.example/m/w.cer"), hs[1]).into(),
    ];
    for i in 0..variant { els.push(PublishElement::new(rsync(&format!("rsync://h.example/m/p{i}.cer")), DataSpec { len: i as usize, pat: 1 }.bytes()).into()) }
    Delta::new(sessions()[2], 9 + variant, els)
}

fn text(v: &[u8]) -> String { String::from_utf8_lossy(v).into_owned() }

/// The subjects: representative evaluations of every oracle family, accepted and rejected.
fn history_subjects() -> Vec<(&'static str, Act)> {
    let mut v: Vec<(&'static str, Act)> = Vec::new();
    v.push(("write+parse notification", Box::new(|| {
        let mut xml = Vec::new();
        let w = hist_notification(1).write_xml(&mut xml).map_err(|e| e.to_string());
        format!("{w:?} {} => {:?}", text(&xml), NotificationFile::parse(xml.as_slice()).map_err(|e| e.to_string()))
    })));
    v.push(("write+parse snapshot", Box::new(|| {
        let mut xml = Vec::new();
        let w = hist_snapshot(1).write_xml(&mut xml).map_err(|e| e.to_string());
        format!("{w:?} {} => {:?}", text(&xml), Snapshot::parse(xml.as_slice()).map_err(|e| e.to_string()))
    })));
    v.push(("write+parse delta", Box::new(|| {
        let mut xml = Vec::new();
        let w = hist_delta(2).write_xml(&mut xml).map_err(|e| e.to_string());
        format!("{w:?} {} => {:?}", text(&xml), Delta::parse(xml.as_slice()).map_err(|e| e.to_string()))
    })));
    for kind in [Kind::Notification, Kind::Snapshot, Kind::Delta] {
        v.push((match kind { Kind::Notification => "process notification skeleton", Kind::Snapshot => "process snapshot skeleton", Kind::Delta => "process delta skeleton" }, Box::new(move || {
            let doc = skeleton(kind);
            match kind {
                Kind::Notification => format!("{:?}", NotificationFile::parse(doc.as_slice()).map_err(|e| e.to_string())),
                Kind::Snapshot => { let mut c = Collect::new(3); let r = <Collect as ProcessSnapshot>::process(&mut c, doc.as_slice()).map_err(|e| e.to_string()); format!("{r:?} {:?} {:?}", c.meta, c.seen) }
                Kind::Delta => { let mut c = Collect::new(0); let r = <Collect as ProcessDelta>::process(&mut c, doc.as_slice()).map_err(|e| e.to_string()); format!("{r:?} {:?} {:?}", c.meta, c.seen) }
            }
        })));
        v.push((match kind { Kind::Notification => "rejected notification", Kind::Snapshot => "rejected snapshot", Kind::Delta => "rejected delta" }, Box::new(move || {
            let doc = skeleton(kind);
            let cut = &doc[..doc.len() * 2 / 3];
            format!("{:?} / wrong type: {:?}", parse_as(kind, cut), parse_as(kind, skeleton(if kind == Kind::Delta { Kind::Snapshot } else { Kind::Delta }).as_slice()))
        })));
    }
    v.push(("delta chain and origins", Box::new(|| {
        let mut nf = mk_notification(&[5, MAX, 3, 4]);
        let a = nf.sort_and_verify_deltas(Some(3));
        let mut g = mk_notification(&[2, 0, 1]);
        let b = g.sort_and_verify_deltas(None);
        g.reverse_sort_deltas();
        format!("{a} {:?} {b} {:?} {} {}", nf.deltas().iter().map(|d| d.serial()).collect::<Vec<_>>(), g.deltas().iter().map(|d| d.serial()).collect::<Vec<_>>(),
            g.has_matching_origins(&https("https://H.example/x")), g.has_matching_origins(&https("https://h.example.org/x")))
    })));
    v.push(("generic writer and readers", Box::new(|| {
        let mut w = xe::Writer::new(Vec::new());
        let r = write_mini(&mut w, "k&", "a'<", "t&<x").map_err(|e| e.to_string());
        let out = w.into_wrapped().map_err(|e| e.to_string());
        let doc = &mini_docs()[0].1;
        format!("{r:?} {:?} {:?} {:?}", out.map(|o| text(&o)), mini_variants(doc.as_slice(), [300, 1000, 600]).map_err(|e| e.to_string()), mini_siblings(doc.as_slice(), [300, 1000, 600]).map_err(|e| e.to_string()))
    })));
    v.push(("base64 and formatting", Box::new(|| {
        use rpki::util::base64 as b64;
        let h = Hash::from_data(b"c09");
        format!("{:?} {:?} {} {} {h} {h:?} {:?} {:?} {:?}", b64::Xml.decode(" QUJD\n REVG ").map_err(|e| e.to_string()), b64::Xml.decode("QUJ").map_err(|e| e.to_string()), b64::Xml.encode(b"\xff\xfe\xfd"), b64::Slurm.encode(b"\xff\xfe\xfd"),
            xd::Name::qualified(b"urn:\xff", "n\u{e9}".as_bytes()), Hash::from_str("zz").map_err(|e| e.to_string()), Hash::from_str(H1))
    })));
    v.push(("bounded read of an endless run", Box::new(|| {
        let doc = &mini_docs()[1].1;
        let block = block_of(b" ");
        let mut counting = Counting { inner: Gen { pre: &doc[..60], head: b"", block: &block, run_len: u64::MAX, suf: b"", pos: 0, cap: 8000, cap_hit: false }, pulled: 0 };
        let r = mini_variants(BufReader::with_capacity(16, &mut counting), [300, 1000, 600]).map_err(|e| e.to_string());
        format!("{r:?} pulled {}", counting.pulled)
    })));
    v.push(("object readers used piecemeal", Box::new(|| {
        let mut xml = Vec::new();
        let _ = hist_snapshot(2).write_xml(&mut xml);
        let scripts = vec![vec![ROp::Read(1), ROp::Exact(1), ROp::ToEnd], vec![ROp::Bytes(3)], vec![ROp::ToString]];
        let mut p = ScriptProc { scripts: &scripts, idx: 0, events: Vec::new() };
        let r = <ScriptProc as ProcessSnapshot>::process(&mut p, xml.as_slice()).map_err(|e| e.to_string());
        format!("{r:?} {:?}", p.events)
    })));
    v
}

/// A processor that stops in a chosen way at a chosen element.
struct Abort { at: usize, seen: usize, mode: u8 }
impl Abort {
    fn hit(&mut self, data: Option<&mut ObjectReader>) -> Result<(), ProcessError> {
        let now = self.seen == self.at;
        self.seen += 1;
        if let Some(d) = data {
            if !(now && self.mode == 3) { let mut one = [0u8; 1]; let _ = d.read(&mut one); } // mode 3: reader dropped untouched
            if !now { let mut rest = Vec::new(); d.read_to_end(&mut rest)?; }
        }
        if now { match self.mode { 0 => return Err(ProcessError::Io(io::Error::other("processor gives up"))), 1 => panic!("processor panics"), _ => {} } }
        Ok(())
    }
}
impl ProcessSnapshot for Abort {
    type Err = ProcessError;
    fn meta(&mut self, _: Uuid, _: u64) -> Result<(), ProcessError> { if self.at == usize::MAX { self.at = 0; self.seen = 0; return self.hit(None) } Ok(()) }
    fn publish(&mut self, _: uri::Rsync, data: &mut ObjectReader) -> Result<(), ProcessError> { self.hit(Some(data)) }
}
impl ProcessDelta for Abort {
    type Err = ProcessError;
    fn meta(&mut self, _: Uuid, _: u64) -> Result<(), ProcessError> { if self.at == usize::MAX { self.at = 0; self.seen = 0; return self.hit(None) } Ok(()) }
    fn publish(&mut self, _: uri::Rsync, _: Option<Hash>, data: &mut ObjectReader) -> Result<(), ProcessError> { self.hit(Some(data)) }
    fn withdraw(&mut self, _: uri::Rsync, _: Hash) -> Result<(), ProcessError> { self.hit(None) }
}

/// The predecessors: every exit path of the same API family.
fn history_predecessors(stride: usize) -> Vec<(String, Act)> {
    let mut v: Vec<(String, Act)> = Vec::new();
    // (a) writers failing after k octets, for every k up to the length of the document
    let written = |f: &dyn Fn(&mut Vec<u8>)| { let mut x = Vec::new(); let _ = guard(|| f(&mut x)); x.len() };
    let n_len = written(&|x| { let _ = hist_notification(0).write_xml(x); });
    let s_len = written(&|x| { let _ = hist_snapshot(0).write_xml(x); });
    let d_len = written(&|x| { let _ = hist_delta(1).write_xml(x); });
    let m_len = written(&|x| { let mut w = xe::Writer::new(x); let _ = write_mini(&mut w, "kk", "aa", "tt"); });
    for (what, len) in [("notification", n_len), ("snapshot", s_len), ("delta", d_len), ("generic writer document", m_len)] {
        for k in (0..=len + 1).step_by(stride) {
            v.push((format!("write_xml of a {what} into a writer that fails after {k} of {len} octets"), Box::new(move || {
                let mut sink = FailingWriter { budget: k, written: Vec::new() };
                let r = match what {
                    "notification" => hist_notification(0).write_xml(&mut sink),
                    "snapshot" => hist_snapshot(0).write_xml(&mut sink),
                    "delta" => hist_delta(1).write_xml(&mut sink),
                    _ => { let mut w = xe::Writer::new(&mut sink); write_mini(&mut w, "kk", "aa", "tt").and_then(|_| w.done()) }
                };
                format!("{:?}", r.map_err(|e| e.to_string()))
            })));
            // a full `&mut [u8]` answers Ok(0) instead of an error. Only for documents without base64
            // content: base64's EncoderWriter retries a write that reports 0 octets for ever
            // (dependency behaviour, outside this property; see the report).
            if what == "notification" || what == "generic writer document" {
                v.push((format!("write_xml of a {what} into a `&mut [u8]` of {k} octets (document has {len})"), Box::new(move || {
                    let mut buf = vec![0u8; k];
                    let mut sink: &mut [u8] = &mut buf[..];
                    let r = if what == "notification" { hist_notification(0).write_xml(&mut sink) } else { let mut w = xe::Writer::new(&mut sink); write_mini(&mut w, "kk", "aa", "tt").and_then(|_| w.done()) };
                    format!("{:?}", r.map_err(|e| e.to_string()))
                })));
            }
        }
    }
    // (b) parse errors at every stage: the skeleton cut at every offset; one substitution sweep
    for kind in [Kind::Notification, Kind::Snapshot, Kind::Delta] {
        let len = skeleton(kind).len();
        for k in (0..len).step_by(stride) {
            v.push((format!("parse of the {} skeleton cut after {k} octets", kind.name()), Box::new(move || format!("{:?}", parse_as(kind, &skeleton(kind)[..k])))));
        }
        for k in (0..len).step_by(stride.max(1) * 7) {
            v.push((format!("parse of the {} skeleton with octet {k} := '<'", kind.name()), Box::new(move || { let mut d = skeleton(kind); d[k] = b'<'; format!("{:?}", parse_as(kind, d.as_slice())) })));
        }
        // successes on other documents
        for (shape, doc) in shapes(kind) {
            v.push((format!("parse of the {}/{shape} document", kind.name()), Box::new(move || format!("{:?}", parse_as(kind, doc.as_slice())))));
        }
    }
    // (c) processors that give up, panic, or leave the object reader alone, at every element
    for mode in 0..4u8 { for at in [usize::MAX, 0, 1, 2, 3] {
        let how = ["returns an error", "panics", "reads one octet only", "drops the reader untouched"][mode as usize];
        let at_s = if at == usize::MAX { "in meta()".to_string() } else { format!("at element {at}") };
        v.push((format!("snapshot processor that {how} {at_s}"), Box::new(move || {
            let r = guard(|| <Abort as ProcessSnapshot>::process(&mut Abort { at, seen: 0, mode }, skeleton(Kind::Snapshot).as_slice()).map_err(|e| e.to_string()));
            format!("{r:?}")
        })));
        v.push((format!("delta processor that {how} {at_s}"), Box::new(move || {
            let r = guard(|| <Abort as ProcessDelta>::process(&mut Abort { at, seen: 0, mode }, skeleton(Kind::Delta).as_slice()).map_err(|e| e.to_string()));
            format!("{r:?}")
        })));
    }}
    // (d) same identity, different content; longer and shorter values; successes
    for variant in [0u64, 1, 2, 3, 17] {
        v.push((format!("successful write+parse of a notification with {} deltas (same session)", variant + 1), Box::new(move || { let mut x = Vec::new(); let _ = hist_notification(variant).write_xml(&mut x); format!("{:?}", NotificationFile::parse(x.as_slice()).is_ok()) })));
        v.push((format!("successful write+parse of a snapshot with {} objects (same session)", variant + 1), Box::new(move || { let mut x = Vec::new(); let _ = hist_snapshot(variant).write_xml(&mut x); format!("{:?}", Snapshot::parse(x.as_slice()).is_ok()) })));
        v.push((format!("successful write+parse of a delta with {} elements (same session)", variant + 2), Box::new(move || { let mut x = Vec::new(); let _ = hist_delta(variant).write_xml(&mut x); format!("{:?}", Delta::parse(x.as_slice()).is_ok()) })));
    }
    // (e) reads stopped by the limit, base64 and hash text errors, formatting of odd names
    for (ri, r) in RUNS.iter().enumerate() { if ri % stride.min(4) == 0 {
        v.push((format!("generic reader stopped by the limit on an endless {} run", r.name), Box::new(move || {
            let doc = &mini_docs()[0].1;
            let block = block_of(RUNS[ri].unit);
            let mut counting = Counting { inner: Gen { pre: &doc[..55], head: RUNS[ri].head, block: &block, run_len: u64::MAX, suf: b"", pos: 0, cap: 8000, cap_hit: false }, pulled: 0 };
            format!("{:?}", mini_variants(BufReader::with_capacity(64, &mut counting), [300, 1000, 600]).map_err(|e| e.to_string()))
        })));
    }}
    for bad in ["A", "QUJ", "QU=D", "\u{e9}\u{e9}", "QUJD!", "===="] {
        v.push((format!("base64 decode error on {bad:?}"), Box::new(move || {
            use rpki::util::base64 as b64;
            let mut rd = b64::Xml.decode_reader(bad); let mut one = [0u8; 2];
            format!("{:?} {:?} {:?}", b64::Xml.decode(bad).map_err(|e| e.to_string()), rd.read(&mut one).map_err(|e| e.to_string()), b64::Slurm.decode(bad).map_err(|e| e.to_string()))
        })));
    }
    for bad in ["", "zz", "0g", H1.trim_end_matches('c'), "\u{20ac}"] {
        v.push((format!("Hash::from_str error on {bad:?}"), Box::new(move || format!("{:?} {:?}", Hash::from_str(bad).map_err(|e| e.to_string()), uri::Https::from_str(bad).map_err(|e| e.to_string())))));
    }
    v.push(("sort_and_verify_deltas / sorts on a long list".into(), Box::new(|| { let mut nf = mk_notification(&[9, 1, 8, 2, 7, 3, MAX, 0]); let a = nf.sort_and_verify_deltas(Some(0)); nf.reverse_sort_deltas(); format!("{a}") })));
    v
}

fn space_history(ctx: &Ctx) {
    let thorough = ctx.tier.is_thorough();
    let sp = ctx.space("history.independent",
        "sequences on one dedicated OS thread (std::thread, fresh thread-locals): one predecessor, then every subject, then every subject again in reverse order; each observation (all output, as text) must equal the one the same subject gives when it is the first thing a new thread does. Predecessors: write_xml of a notification / snapshot / delta / generic-writer document into a writer that fails after k octets for EVERY k up to the document length (and, for the documents without base64 content, into a `&mut [u8]` of every length k); parse of each skeleton cut at every offset (errors at every stage), one substitution sweep, parses of all document shapes; processors that return an error, panic, read one octet or drop the reader at every element and in meta(); successful writes of shorter / longer values with the same session; limit-stopped reads; base64 / hash / URI text errors. thorough: additionally all ordered pairs of predecessors from the menu taken at stride 16. non-trivial = sequences whose predecessor failed (took an error or panic path)");
    let subjects = history_subjects();
    let baseline: Vec<String> = subjects.iter().map(|(_, f)| on_fresh_thread(|| observe(f))).collect();
    // self-check of the machinery: the baseline itself is reproducible
    for ((name, f), b) in subjects.iter().zip(&baseline) {
        if on_fresh_thread(|| observe(f)) != *b { ctx.machinery_error(format!("history subject {name:?} is not deterministic on fresh threads")) }
    }
    let fails = Fails::new();
    let run_sequence = |order: u64, preds: &[&(String, Act)]| {
        let (pre_obs, obs): (Vec<String>, Vec<(usize, bool, String)>) = on_fresh_thread(|| {
            let pre: Vec<String> = preds.iter().map(|p| observe(&p.1)).collect();
            let mut out = Vec::new();
            for (i, (_, f)) in subjects.iter().enumerate() { out.push((i, false, observe(f))) }
            for (i, (_, f)) in subjects.iter().enumerate().rev() { out.push((i, true, observe(f))) }
            (pre, out)
        });
        let failed_path = pre_obs.iter().any(|o| o.contains("Err(") || o.starts_with("PANIC"));
        sp.evals(obs.len() as u64);
        if failed_path { sp.nontrivial(1); sp.outcome("after-a-failed-operation") } else { sp.outcome("after-a-successful-operation") }
        for (i, rev, o) in obs {
            if o != baseline[i] {
                let names: Vec<&str> = preds.iter().map(|p| p.0.as_str()).collect();
                fails.push(order << 8 | (i as u64) << 1 | rev as u64, "C09.history.independent",
                    format!("after [{}]: subject {:?}{}", names.join("; then "), subjects[i].0, if rev { " (second, reverse pass)" } else { "" }),
                    format!("observed {} -- on a fresh thread the same subject gives {}", trunc(&first_difference(&o, &baseline[i]), 400), trunc(&first_difference(&baseline[i], &o), 400)));
            }
        }
    };
    let preds = history_predecessors(1);
    preds.par_iter().enumerate().for_each(|(pi, p)| run_sequence(pi as u64, &[p]));
    let mut bound = format!("{} predecessors x {} subjects x 2 passes", preds.len(), subjects.len());
    if thorough {
        let menu = history_predecessors(16);
        let n = menu.len();
        (0..n * n).into_par_iter().for_each(|ij| run_sequence((1 << 30) | ij as u64, &[&menu[ij / n], &menu[ij % n]]));
        bound.push_str(&format!("; {} ordered pairs of {n} predecessors", n * n));
    }
    fails.flush_into(ctx, &sp);
    sp.set("subjects", json!(subjects.iter().map(|s| s.0).collect::<Vec<_>>()));
    sp.sample_str(|| preds[3].0.clone());
    sp.sample_str(|| preds[preds.len() / 2].0.clone());
    sp.done(true, &bound);
}

/// The part of `a` around the first place where it differs from `b`.
fn first_difference(a: &str, b: &str) -> String {
    let k = a.bytes().zip(b.bytes()).position(|(x, y)| x != y).unwrap_or(a.len().min(b.len()));
    let mut from = k.saturating_sub(60);
    while !a.is_char_boundary(from) { from -= 1 }
    format!("[at octet {k}] ...{}", &a[from..])
}

//============ handed-out object readers: every call order ====================

#[derive(Clone, Copy, Debug, PartialEq, Eq)]
enum ROp { Read(usize), ToEnd, ToString, Exact(usize), Bytes(usize) }
const ROPS: [ROp; 10] = [ROp::Read(0), ROp::Read(1), ROp::Read(4), ROp::Read(16), ROp::ToEnd, ROp::ToString, ROp::Exact(1), ROp::Exact(5), ROp::Bytes(1), ROp::Bytes(3)];

#[derive(Clone, Debug, PartialEq, Eq)]
struct OpOut { got: Vec<u8>, ok: bool }

/// Applies the calls to a reader; stops after a failed call; a sequence
/// that does not end the reader simply drops it early.
fn apply_ops<R: Read>(rd: &mut R, ops: &[ROp]) -> Vec<OpOut> {
    let mut outs = Vec::new();
    for op in ops {
        let out = match *op {
            ROp::Read(k) => { let mut b = vec![0u8; k]; match rd.read(&mut b) { Ok(n) => { b.truncate(n.min(k)); OpOut { got: b, ok: n <= k } } Err(_) => OpOut { got: vec![], ok: false } } }
            ROp::ToEnd => { let mut b = Vec::new(); let ok = rd.read_to_end(&mut b).is_ok(); OpOut { got: b, ok } }
            ROp::ToString => { let mut t = String::new(); let ok = rd.read_to_string(&mut t).is_ok(); OpOut { got: t.into_bytes(), ok } }
            ROp::Exact(k) => { let mut b = vec![0u8; k]; let ok = rd.read_exact(&mut b).is_ok(); OpOut { got: if ok { b } else { vec![] }, ok } }
            ROp::Bytes(k) => { let mut b = Vec::new(); let mut ok = true; for x in rd.by_ref().bytes().take(k) { match x { Ok(x) => b.push(x), Err(_) => { ok = false; break } } } OpOut { got: b, ok } }
        };
        let stop = !out.ok;
        outs.push(out);
        if stop { break }
    }
    outs
}

/// The `io::Read` contract applied to an object of known content.
fn judge_ops(data: &[u8], ops: &[ROp], outs: &[OpOut]) -> Result<(), String> {
    let mut pos = 0usize;
    for (i, out) in outs.iter().enumerate() {
        let op = ops[i];
        let rest = &data[pos..];
        let fail = |what: &str| Err(format!("call #{i} {op:?} at offset {pos} of {}: {what}; got {} octets {} ok={}", data.len(), out.got.len(), trunc(&hex(&out.got), 48), out.ok));
        match op {
            ROp::Read(k) => {
                if !out.ok { return fail("read failed or returned more than the buffer holds") }
                if !rest.starts_with(&out.got) { return fail("octets are not the next octets of the object") }
                if k > 0 && out.got.is_empty() && !rest.is_empty() { return fail("end of data signalled before the end of the object") }
                pos += out.got.len();
            }
            ROp::ToEnd => { if !out.ok || out.got != rest { return fail("read_to_end does not give exactly the remainder") } pos = data.len() }
            ROp::ToString => {
                if std::str::from_utf8(rest).is_ok() { if !out.ok || out.got != rest { return fail("read_to_string does not give exactly the remainder") } pos = data.len() }
                else if out.ok { return fail("read_to_string accepted a remainder that is not UTF-8") } else { return Ok(()) }
            }
            ROp::Exact(k) => {
                if rest.len() >= k { if !out.ok || out.got != rest[..k] { return fail("read_exact does not give the next k octets") } pos += k }
                else if out.ok { return fail("read_exact succeeded beyond the end of the object") } else { return Ok(()) }
            }
            ROp::Bytes(k) => { let want = &rest[..k.min(rest.len())]; if !out.ok || out.got != want { return fail("bytes().take(k) does not give the next octets") } pos += want.len() }
        }
    }
    if outs.len() < ops.len() && outs.last().is_some_and(|o| o.ok) { return Err("fewer results than calls".into()) }
    Ok(())
}

#[derive(Clone, Debug, PartialEq, Eq)]
enum Ev { Publish(String, Option<Hash>, Vec<OpOut>), Withdraw(String, Hash) }

/// A processor that consumes the k-th object by the k-th script (read_to_end beyond).
struct ScriptProc<'a> { scripts: &'a [Vec<ROp>], idx: usize, events: Vec<Ev> }
impl ScriptProc<'_> {
    fn consume(&mut self, uri: uri::Rsync, hash: Option<Hash>, data: &mut ObjectReader) {
        let default = [ROp::ToEnd];
        let ops: &[ROp] = self.scripts.get(self.idx).map(|v| v.as_slice()).unwrap_or(&default);
        self.idx += 1;
        self.events.push(Ev::Publish(uri.as_str().to_string(), hash, apply_ops(data, ops)));
    }
}
impl ProcessSnapshot for ScriptProc<'_> {
    type Err = ProcessError;
    fn meta(&mut self, _: Uuid, _: u64) -> Result<(), ProcessError> { Ok(()) }
    fn publish(&mut self, uri: uri::Rsync, data: &mut ObjectReader) -> Result<(), ProcessError> { self.consume(uri, None, data); Ok(()) }
}
impl ProcessDelta for ScriptProc<'_> {
    type Err = ProcessError;
    fn meta(&mut self, _: Uuid, _: u64) -> Result<(), ProcessError> { Ok(()) }
    fn publish(&mut self, uri: uri::Rsync, hash: Option<Hash>, data: &mut ObjectReader) -> Result<(), ProcessError> { self.consume(uri, hash, data); Ok(()) }
    fn withdraw(&mut self, uri: uri::Rsync, hash: Hash) -> Result<(), ProcessError> { self.events.push(Ev::Withdraw(uri.as_str().to_string(), hash)); Ok(()) }
}

fn space_handed_out(ctx: &Ctx) {
    let thorough = ctx.tier.is_thorough();
    let sp = ctx.space("handed_out.object_reader",
        "the ObjectReader handed to ProcessSnapshot::publish / ProcessDelta::publish, consumed by every call sequence of length 0..3 over {read into 0/1/4/16 octets, read_to_end, read_to_string, read_exact(1/5), bytes().take(1/3)} (a sequence that does not end the reader drops it early), object sizes 0..=40, 255, 256, 767..769, 1023..1025, 3000 (quick: length-3 sequences only for sizes 0,1,2,3,4,5,16,17,40,769), ASCII and binary content, in a snapshot [X, Y, Z] and a delta [publish X, withdraw, update Y, publish Z] where X is consumed by the sequence, Y by the reversed sequence and Z by read_to_end: every call must behave as the io::Read contract says for the object's octets (next octets, end of data only at the end, read_exact/read_to_string fail exactly when they must), and all following elements are delivered unharmed; non-trivial = sequences that read part of the object before a bulk call or drop it early");
    let mut sizes: Vec<usize> = (0..=40).collect();
    sizes.extend([255, 256, 767, 768, 769, 1023, 1024, 1025, 3000]);
    let n_seq = seq_count(ROPS.len() as u64, 3);
    let n_short = seq_count(ROPS.len() as u64, 2);
    let fails = Fails::new();
    let content = |len: usize, ascii: bool, salt: usize| -> Vec<u8> { (0..len).map(|i| if ascii { 32 + ((i * 7 + salt) % 95) as u8 } else { ((i * 0x6D + salt * 31 + 0xFB) % 256) as u8 }).collect() };
    sizes.par_iter().enumerate().for_each(|(si, &size)| {
        let all3 = thorough || [0usize, 1, 2, 3, 4, 5, 16, 17, 40, 769].contains(&size);
        let total = if all3 { n_seq } else { n_short };
        let mut oc: BTreeMap<&'static str, u64> = BTreeMap::new();
        let (mut n, mut nt) = (0u64, 0u64);
        for ascii in [true, false] {
            let objs = [content(size, ascii, 1), content((size * 7 + 3) % 41, !ascii, 2), content(5, ascii, 3)];
            let uris = ["rsync://h.example/m/x.roa", "rsync://h.example/m/y.roa", "rsync://h.example/m/z.roa"];
            let hs = hashes();
            let mut snap_xml = Vec::new();
            let mut delta_xml = Vec::new();
            let built = guard(|| {
                Snapshot::new(sessions()[2], 1, (0..3).map(|i| PublishElement::new(rsync(uris[i]), Bytes::copy_from_slice(&objs[i]))).collect()).write_xml(&mut snap_xml).map_err(|e| e.to_string())?;
                Delta::new(sessions()[2], 2, vec![
                    PublishElement::new(rsync(uris[0]), Bytes::copy_from_slice(&objs[0])).into(),
                    WithdrawElement::new(rsync("rsync://h.example/m/w.roa"), hs[1]).into(),
                    UpdateElement::new(rsync(uris[1]), hs[2], Bytes::copy_from_slice(&objs[1])).into(),
                    PublishElement::new(rsync(uris[2]), Bytes::copy_from_slice(&objs[2])).into(),
                ]).write_xml(&mut delta_xml).map_err(|e| e.to_string())
            });
            if !matches!(built, Ok(Ok(()))) { fails.push((si as u64) << 40, "C09.handed_out.object_reader", format!("size {size}: building the files"), format!("{built:?}")); continue }
            let mut ix = Vec::new();
            for idx in 0..total {
                seq_at(ROPS.len() as u64, 3, idx, &mut ix);
                let ops: Vec<ROp> = ix.iter().map(|&i| ROPS[i]).collect();
                let mut rev = ops.clone(); rev.reverse();
                let scripts = vec![ops.clone(), rev.clone(), vec![ROp::ToEnd]];
                let partial = !ops.is_empty() && !matches!(ops[0], ROp::ToEnd | ROp::ToString) || ops.is_empty();
                for snapshot in [true, false] {
                    n += 1; if partial { nt += 1 }
                    *oc.entry(if ops.iter().any(|o| matches!(o, ROp::ToEnd | ROp::ToString)) { "ends-with-bulk-read" } else { "dropped-early" }).or_insert(0) += 1;
                    let order = (si as u64) << 40 | (ascii as u64) << 39 | idx << 1 | snapshot as u64;
                    fails.check(order, "C09.handed_out.object_reader", || format!("{} object of {size} {} octets consumed by {ops:?} (next object by {rev:?}, last by [ToEnd])", if snapshot { "snapshot:" } else { "delta:" }, if ascii { "ASCII" } else { "binary" }), || {
                        let mut p = ScriptProc { scripts: &scripts, idx: 0, events: Vec::new() };
                        if snapshot { <ScriptProc as ProcessSnapshot>::process(&mut p, snap_xml.as_slice()).map_err(|e| format!("process fails: {e}"))? }
                        else { <ScriptProc as ProcessDelta>::process(&mut p, delta_xml.as_slice()).map_err(|e| format!("process fails: {e}"))? }
                        let want_n = if snapshot { 3 } else { 4 };
                        if p.events.len() != want_n { return Err(format!("{} elements delivered, {want_n} written", p.events.len())) }
                        let mut k = 0usize;
                        for ev in &p.events {
                            match ev {
                                Ev::Withdraw(u, h) => { if snapshot || u != "rsync://h.example/m/w.roa" || *h != hs[1] { return Err(format!("withdraw delivered as ({u},{h})")) } }
                                Ev::Publish(u, h, outs) => {
                                    let want_h = if !snapshot && k == 1 { Some(hs[2]) } else { None };
                                    if u != uris[k] || *h != want_h { return Err(format!("object #{k} delivered as ({u},{h:?})")) }
                                    judge_ops(&objs[k], &scripts[k], outs).map_err(|e| format!("object #{k}: {e}"))?;
                                    k += 1;
                                }
                            }
                        }
                        Ok(())
                    });
                }
            }
        }
        sp.evals(n); sp.nontrivial(nt); sp.merge_outcomes(&oc);
    });
    fails.flush_into(ctx, &sp);
    sp.set("calls", json!(ROPS.iter().map(|o| format!("{o:?}")).collect::<Vec<_>>()));
    sp.sample_str(|| "snapshot: object of 17 binary octets consumed by [Read(4), Exact(5), ToEnd]".into());
    sp.done(true, &format!("{} sizes x 2 contents x {} sequences (length <= 3{}) x snapshot, delta", sizes.len(), n_seq, if thorough { "" } else { "; length <= 2 for most sizes" }));
}

//============ ownership of shared buffers, environment, call parameters ======

fn space_ownership(ctx: &Ctx) {
    let sp = ctx.space("ownership.shared_buffers",
        "object content and URIs whose Bytes are (a) solely owned, (b) shared with a live clone, (c) shared with a clone dropped just before, (d) a view into a larger buffer, (e) static: write_xml of snapshot / delta / notification gives the same octets in all five cases, the parsed value and all its accessors agree with the sole-owner twin, and the live clone / the larger buffer are unchanged afterwards; sort_deltas / reverse_sort_deltas / sort_and_verify_deltas on a NotificationFile with a live clone leave the clone unchanged and give what they give on a sole owner; contents of length 0..=40 and 255..257, 767..769; non-trivial = non-empty contents");
    let mut lens: Vec<usize> = (0..=40).collect();
    lens.extend([255, 256, 257, 767, 768, 769]);
    let fails = Fails::new();
    static STATIC_BUF: [u8; 1024] = { let mut b = [0u8; 1024]; let mut i = 0; while i < 1024 { b[i] = (i as u8).wrapping_mul(0x6D).wrapping_add(0xFB); i += 1 } b };
    lens.par_iter().for_each(|&len| {
        for form in 0..5usize {
            sp.eval(); if len > 0 { sp.nontrivial(1) }
            sp.outcome(["sole-owner", "live-clone", "clone-dropped", "view-into-larger", "static"][form]);
            fails.check((len * 8 + form) as u64, "C09.ownership", || format!("content of {len} octets, {}", ["sole owner", "live clone", "clone dropped just before", "view into a larger buffer", "static"][form]), || {
                let raw: Vec<u8> = STATIC_BUF[..len].to_vec();
                let uri_text = format!("rsync://h.example/m/{len}&'.roa");
                let padded = format!("##{uri_text}##");
                let big_uri = Bytes::from(padded.clone().into_bytes());
                let larger = Bytes::from([&b"<<<"[..], &raw, &b">>>"[..]].concat());
                let mut keep: Vec<Bytes> = Vec::new();
                let (data, uri) = match form {
                    0 => (Bytes::from(raw.clone()), uri::Rsync::from_bytes(Bytes::from(uri_text.clone().into_bytes()))),
                    1 => { let d = Bytes::from(raw.clone()); keep.push(d.clone()); let u = Bytes::from(uri_text.clone().into_bytes()); keep.push(u.clone()); (d, uri::Rsync::from_bytes(u)) }
                    2 => { let d = Bytes::from(raw.clone()); drop(d.clone()); let u = Bytes::from(uri_text.clone().into_bytes()); drop(u.clone()); (d, uri::Rsync::from_bytes(u)) }
                    3 => (larger.slice(3..3 + len), uri::Rsync::from_bytes(big_uri.slice(2..2 + uri_text.len()))),
                    _ => (Bytes::from_static(&STATIC_BUF[..len]), uri::Rsync::from_bytes(Bytes::from_static(b"rsync://h.example/m/static&'.roa"))),
                };
                let uri = uri.map_err(|e| format!("URI refused: {e}"))?;
                let twin_uri = rsync(uri.as_str());
                let h = hashes()[2];
                let mk = |u: &uri::Rsync, d: &Bytes| (Snapshot::new(sessions()[2], 3, vec![PublishElement::new(u.clone(), d.clone()), PublishElement::new(u.clone(), d.clone())]),
                    Delta::new(sessions()[2], 4, vec![UpdateElement::new(u.clone(), h, d.clone()).into(), WithdrawElement::new(u.clone(), h).into(), PublishElement::new(u.clone(), d.clone()).into()]));
                let (snap, delta) = mk(&uri, &data);
                let (tsnap, tdelta) = mk(&twin_uri, &Bytes::from(raw.clone()));
                let (mut a, mut b, mut c, mut d) = (Vec::new(), Vec::new(), Vec::new(), Vec::new());
                snap.write_xml(&mut a).map_err(|e| e.to_string())?; tsnap.write_xml(&mut b).map_err(|e| e.to_string())?;
                delta.write_xml(&mut c).map_err(|e| e.to_string())?; tdelta.write_xml(&mut d).map_err(|e| e.to_string())?;
                if a != b { return Err("snapshot XML differs from the sole-owner twin's".into()) }
                if c != d { return Err("delta XML differs from the sole-owner twin's".into()) }
                let want: Vec<Seen> = vec![Seen::Publish { uri: twin_uri.clone(), hash: None, data: raw.clone() }; 2];
                roundtrip_snapshot(sessions()[2], 3, &want, 0)?;
                let back = Snapshot::parse(a.as_slice()).map_err(|e| e.to_string())?;
                let els: Vec<DeltaElement> = back.clone().into_elements().into_iter().map(DeltaElement::from).collect();
                accessor_sweep(&want, &els, "parsed")?;
                // unpack / into_elements on the shared value must not disturb the other holders
                let taken: Vec<(uri::Rsync, Bytes)> = snap.clone().into_elements().into_iter().map(|e| e.unpack()).collect();
                for (u, dd) in &taken { if u.as_str() != uri.as_str() || dd[..] != raw[..] { return Err("unpack() of the shared value differs".into()) } }
                drop(taken); drop(snap); drop(delta);
                for k in &keep { if k[..] != raw[..] && k[..] != *uri_text.as_bytes() { return Err("the live clone changed".into()) } }
                if larger[..] != [&b"<<<"[..], &raw, &b">>>"[..]].concat()[..] || big_uri[..] != *padded.as_bytes() { return Err("the larger buffer changed".into()) }
                if data[..] != raw[..] || uri.as_str() != if form == 4 { "rsync://h.example/m/static&'.roa" } else { uri_text.as_str() } { return Err("the value itself changed".into()) }
                Ok(())
            });
        }
    });
    // &mut self methods of NotificationFile with a live clone
    let seqs: [&[u64]; 6] = [&[], &[3], &[2, 1], &[1, 3, 2, 2], &[MAX, 0, MAX - 1], &[5, 4, 3, 2, 1, 0, 9]];
    for (si, serials) in seqs.iter().enumerate() { for m in 0..4usize { for live in [false, true] {
        sp.eval(); sp.nontrivial(1); sp.outcome(if live { "live-clone" } else { "sole-owner" });
        fails.check(1 << 30 | (si * 8 + m * 2 + live as usize) as u64, "C09.ownership", || format!("{} on serials={} {}", ["sort_deltas", "reverse_sort_deltas", "sort_and_verify_deltas(None)", "sort_and_verify_deltas(Some(2))"][m], show_serials(serials), if live { "with a live clone" } else { "sole owner" }), || {
            let mut nf = mk_notification(serials);
            let mut twin = mk_notification(serials);
            let clone = if live { Some(nf.clone()) } else { None };
            let act = |x: &mut NotificationFile| match m { 0 => { x.sort_deltas(); true } 1 => { x.reverse_sort_deltas(); true } 2 => x.sort_and_verify_deltas(None), _ => x.sort_and_verify_deltas(Some(2)) };
            let (r1, r2) = (act(&mut nf), act(&mut twin));
            if r1 != r2 || nf != twin { return Err("result differs from the sole-owner twin".into()) }
            if let Some(c) = clone { if c != mk_notification(serials) { return Err("the live clone changed".into()) } }
            Ok(())
        });
    }}}
    fails.flush_into(ctx, &sp);
    sp.sample_str(|| "content of 17 octets, view into a larger buffer".into());
    sp.done(true, &format!("{} content lengths x 5 ownership forms; 6 serial lists x 4 methods x 2", lens.len()));
}

/// All subject observations, one per line group, for comparison across processes.
fn subject_dump() -> String {
    history_subjects().iter().map(|(n, f)| format!("## {n}\n{}\n", on_fresh_thread(|| observe(f)))).collect()
}

fn space_environment(ctx: &Ctx) {
    let sp = ctx.space("environment.timezone",
        "the history subjects (every oracle family) evaluated in child processes of this binary started with TZ=UTC0, TZ=XXX+12 (west) and TZ=XXX-14 (east): every observation equals the one made in this process; non-trivial = the two non-UTC zones");
    let here = subject_dump();
    let exe = match std::env::current_exe() { Ok(e) => e, Err(e) => { ctx.machinery_error(format!("current_exe: {e}")); sp.done(false, "not run"); return } };
    for (i, tz) in ["UTC0", "XXX+12", "XXX-14"].into_iter().enumerate() {
        sp.evals(history_subjects().len() as u64);
        if i > 0 { sp.nontrivial(1) }
        sp.outcome(if i == 0 { "utc" } else { "shifted-zone" });
        match std::process::Command::new(&exe).arg("--c09-subject-dump").env("TZ", tz).output() {
            Err(e) => ctx.machinery_error(format!("cannot start the child process for TZ={tz}: {e}")),
            Ok(out) => {
                let there = String::from_utf8_lossy(&out.stdout).into_owned();
                if !out.status.success() && there.is_empty() { ctx.machinery_error(format!("child process for TZ={tz} failed: {}", String::from_utf8_lossy(&out.stderr))); continue }
                if there != here {
                    // name the first subject that differs
                    let a: Vec<&str> = here.split("## ").collect(); let b: Vec<&str> = there.split("## ").collect();
                    let k = a.iter().zip(&b).position(|(x, y)| x != y).unwrap_or(0);
                    sp.outcome("oracle-violated");
                    ctx.fail("C09.environment.timezone", format!("TZ={tz} subject {:?}", a.get(k).and_then(|x| x.lines().next()).unwrap_or("?")),
                        format!("observed {} -- with the parent's environment {}", trunc(&first_difference(b.get(k).unwrap_or(&""), a.get(k).unwrap_or(&"")), 300), trunc(&first_difference(a.get(k).unwrap_or(&""), b.get(k).unwrap_or(&"")), 300)));
                }
            }
        }
    }
    sp.sample_str(|| "TZ=XXX+12: all subjects".into());
    sp.done(true, "3 zones x all subjects");
}

/// `padded` must be `canon` itself or `canon` padded with `fill` to `width` on the side(s) the alignment says.
fn padding_ok(canon: &str, padded: &str, fill: char, width: usize) -> Result<(), String> {
    if padded == canon { return Ok(()) }
    let inner = padded.trim_start_matches(fill);
    let lead = padded.chars().count() - inner.chars().count();
    // the value may itself start or end with the fill character: try every split of the padding
    let total = padded.chars().count();
    let cl = canon.chars().count();
    if total != width.max(cl) { return Err(format!("{total} characters for width {width}, value has {cl}")) }
    for l in 0..=lead.min(total - cl) {
        let body: String = padded.chars().skip(l).take(cl).collect();
        let tail: String = padded.chars().skip(l + cl).collect();
        if body == canon && padded.chars().take(l).all(|c| c == fill) && tail.chars().all(|c| c == fill) { return Ok(()) }
    }
    Err("the value is not contained unchanged between the fill characters".into())
}

fn space_call_parameters(ctx: &Ctx) {
    let sp = ctx.space("call_parameters.display_width",
        "Display of Hash, session Uuid, serial, uri::Https, uri::Rsync and of the error types with width 0,1,10,63,64,65,70,100 x alignment default/</>/^ x fill space/*/0 and the {:0w} form: the text is the plain Display text, unchanged, or that text padded with the fill to the width; with the padding removed it parses back (FromStr) to the value; non-trivial = widths larger than the plain text");
    let fails = Fails::new();
    let mut values: Vec<(String, Box<dyn std::fmt::Display + Send + Sync>, Box<dyn Fn(&str) -> bool + Send + Sync>)> = Vec::new();
    for h in hashes().into_iter().chain([Hash::from_data(b"c09")]) { values.push((format!("Hash {h}"), Box::new(h), Box::new(move |t| Hash::from_str(t).ok() == Some(h)))) }
    for u in sessions() { values.push((format!("session {u}"), Box::new(u), Box::new(move |t| Uuid::from_str(t).ok() == Some(u)))) }
    for n in SERIALS { values.push((format!("serial {n}"), Box::new(n), Box::new(move |t| t.parse::<u64>().ok() == Some(n)))) }
    for u in HTTPS_URIS { let v = https(u); let w = v.clone(); values.push((format!("Https {u}"), Box::new(v), Box::new(move |t| uri::Https::from_str(t).is_ok_and(|x| x.as_str() == w.as_str())))) }
    for u in RSYNC_URIS { let v = rsync(u); let w = v.clone(); values.push((format!("Rsync {u}"), Box::new(v), Box::new(move |t| uri::Rsync::from_str(t).is_ok_and(|x| x.as_str() == w.as_str())))) }
    if let Err(e) = NotificationFile::parse(&b"<x/>"[..]) { let t = e.to_string(); values.push(("xml::decode::Error".into(), Box::new(e), Box::new(move |x| x == t))) }
    if let Err(e) = Snapshot::parse(&b"<x"[..]) { let t = e.to_string(); values.push(("rrdp::ProcessError".into(), Box::new(e), Box::new(move |x| x == t))) }
    if let Err(e) = Hash::from_str("zz") { let t = e.to_string(); values.push(("rrdp::ParseHashError".into(), Box::new(e), Box::new(move |x| x == t))) }
    if let Err(e) = rpki::util::base64::Xml.decode("A") { let t = e.to_string(); values.push(("base64::XmlDecodeError".into(), Box::new(e), Box::new(move |x| x == t))) }
    let widths = [0usize, 1, 10, 63, 64, 65, 70, 100];
    values.par_iter().enumerate().for_each(|(vi, (name, v, back))| {
        let canon = match guard(|| format!("{v}")) { Ok(c) => c, Err(p) => { fails.push((vi as u64) << 20, "C09.call_parameters.display", name.clone(), p); return } };
        for (wi, &w) in widths.iter().enumerate() {
            macro_rules! spec { ($k:expr, $text:expr, $fill:expr, $fmt:literal) => { spec!($k, $text, $fill, $fmt, $fill) }; ($k:expr, $text:expr, $fill:expr, $fmt:literal, $alt:expr) => {{
                sp.eval(); if w > canon.chars().count() { sp.nontrivial(1) }
                sp.outcome(if w > canon.chars().count() { "wider-than-text" } else { "not-wider" });
                fails.check((vi as u64) << 20 | (wi as u64) << 8 | $k, "C09.call_parameters.display", || format!("format!(\"{}\", {name}) with w={w}", $text), || {
                    let padded = format!($fmt, v, w = w);
                    // (the `0` flag without an explicit fill is a numeric notion: a text-like Display may pad with spaces)
                    let fill: char = if padding_ok(&canon, &padded, $fill, w).is_ok() { $fill } else { $alt };
                    padding_ok(&canon, &padded, fill, w).map_err(|e| format!("{e}: {padded:?} vs plain {canon:?}"))?;
                    let stripped = if padded == canon { padded.clone() } else { let cl = canon.chars().count(); let s: String = padded.chars().collect(); (0..=s.chars().count() - cl).map(|l| s.chars().skip(l).take(cl).collect::<String>()).find(|b| *b == canon).unwrap_or(s.trim_matches(fill).to_string()) };
                    if !back(&stripped) { return Err(format!("{stripped:?} (padding removed) does not parse back to the value")) }
                    Ok(())
                });
            }}}
            spec!(0, "{:w$}", ' ', "{:w$}"); spec!(1, "{:<w$}", ' ', "{:<w$}"); spec!(2, "{:>w$}", ' ', "{:>w$}"); spec!(3, "{:^w$}", ' ', "{:^w$}");
            spec!(4, "{:*<w$}", '*', "{:*<w$}"); spec!(5, "{:*>w$}", '*', "{:*>w$}"); spec!(6, "{:*^w$}", '*', "{:*^w$}");
            spec!(7, "{:0<w$}", '0', "{:0<w$}"); spec!(8, "{:0>w$}", '0', "{:0>w$}"); spec!(9, "{:0^w$}", '0', "{:0^w$}"); spec!(10, "{:0w$}", '0', "{:0w$}", ' ');
        }
    });
    fails.flush_into(ctx, &sp);
    sp.sample_str(|| format!("{:*^70}", hashes()[2]));
    sp.done(true, &format!("{} values x 8 widths x 11 format specs", values.len()));
}

//============ sinks: how the written octets are accepted ====================

/// One of the three file types, as a value that can be written and judged.
enum FileVal { N(NotificationFile), S(Snapshot), D(Delta) }

impl FileVal {
    fn kind(&self) -> Kind { match self { FileVal::N(_) => Kind::Notification, FileVal::S(_) => Kind::Snapshot, FileVal::D(_) => Kind::Delta } }
    fn write(&self, w: &mut dyn io::Write) -> io::Result<()> {
        let mut w = w;
        match self { FileVal::N(f) => f.write_xml(&mut w), FileVal::S(f) => f.write_xml(&mut w), FileVal::D(f) => f.write_xml(&mut w) }
    }
    /// The round-trip clause: the octets parse back to a value equal to this one.
    fn parses_back(&self, xml: &[u8]) -> Result<(), String> {
        match self {
            FileVal::N(f) => { let b = NotificationFile::parse(xml).map_err(|e| format!("does not parse: {e}"))?; if &b != f { return Err("parses to a different notification".into()) } }
            FileVal::S(f) => { let b = Snapshot::parse(xml).map_err(|e| format!("does not parse: {e}"))?; if &b != f { return Err("parses to a different snapshot".into()) } }
            FileVal::D(f) => { let b = Delta::parse(xml).map_err(|e| format!("does not parse: {e}"))?; if &b != f { return Err("parses to a different delta".into()) } }
        }
        Ok(())
    }
}

/// How an `io::Write` sink behaves. All but the last two deliver every
/// octet they accept and accept at least one octet of every non-empty
/// buffer (possibly after `ErrorKind::Interrupted`, which `write_all`
/// retries): a correct writer gets the whole document through them.
#[derive(Clone, Copy, Debug, PartialEq, Eq)]
enum SinkKind {
    /// `Vec<u8>`: takes every buffer whole (control)
    Vec,
    /// `io::Cursor<Vec<u8>>`
    CursorVec,
    /// `&mut [u8]` exactly as long as the document (notification only) / 4096 octets longer
    SliceExact, SliceRoomy,
    /// at most k octets per call
    Chunk(usize),
    /// one octet on the first call, everything afterwards
    FirstOne,
    /// at most a octets on even calls, at most b on odd calls
    Alternate(usize, usize),
    /// half (rounded up) of what is offered
    Half,
    /// all but the last octet of what is offered
    AllButOne,
    /// `ErrorKind::Interrupted` on every other call, at most k octets otherwise
    Interrupted(usize),
    /// `BufWriter` of the given capacity around Chunk(k): octets arrive when the caller flushes after `write_xml`
    Buffered(usize, usize),
    /// `LineWriter` around Chunk(k), flushed by the caller afterwards
    LineBuffered(usize),
    /// accepts n octets in total, then fails every call
    FailAfter(usize),
    /// accepts n octets, fails ONE call (`WouldBlock`), then accepts everything
    FailOnce(usize),
}

impl SinkKind {
    fn healthy_menu() -> Vec<SinkKind> {
        use SinkKind::*;
        let mut v = vec![Vec, CursorVec, SliceExact, SliceRoomy];
        for k in [1usize, 2, 3, 5, 7, 16, 61, 64, 4096] { v.push(Chunk(k)) }
        v.extend([FirstOne, Alternate(1, usize::MAX), Alternate(usize::MAX, 1), Alternate(2, 5), Half, AllButOne, Interrupted(usize::MAX), Interrupted(3)]);
        for (cap, k) in [(8192usize, 1usize), (8192, 4096), (16, 3), (1, 2), (0, 1)] { v.push(Buffered(cap, k)) }
        v.extend([LineBuffered(1), LineBuffered(7)]);
        v
    }
    fn takes_buffers_whole(self) -> bool { matches!(self, SinkKind::Vec | SinkKind::CursorVec | SinkKind::SliceExact | SinkKind::SliceRoomy) }
    fn reports_failure(self) -> bool { matches!(self, SinkKind::FailAfter(_) | SinkKind::FailOnce(_)) }
}

struct Scripted { kind: SinkKind, calls: usize, fired: bool, got: Vec<u8> }

impl Scripted {
    fn new(kind: SinkKind) -> Self { Scripted { kind, calls: 0, fired: false, got: Vec::new() } }
}

impl io::Write for Scripted {
    fn write(&mut self, b: &[u8]) -> io::Result<usize> {
        if b.is_empty() { return Ok(0) }
        let call = self.calls;
        self.calls += 1;
        let len = b.len();
        let n = match self.kind {
            SinkKind::Chunk(k) => len.min(k),
            SinkKind::FirstOne => if call == 0 { 1 } else { len },
            SinkKind::Alternate(x, y) => len.min(if call % 2 == 0 { x } else { y }),
            SinkKind::Half => len.div_ceil(2),
            SinkKind::AllButOne => (len - 1).max(1),
            SinkKind::Interrupted(k) => { if call % 2 == 0 { return Err(io::Error::new(io::ErrorKind::Interrupted, "interrupted")) } len.min(k) }
            SinkKind::FailAfter(n) => { if self.got.len() >= n { return Err(io::Error::other("sink broke")) } len.min(n - self.got.len()) }
            SinkKind::FailOnce(n) => {
                if !self.fired && self.got.len() >= n { self.fired = true; return Err(io::Error::new(io::ErrorKind::WouldBlock, "sink not ready")) }
                if self.fired { len } else { len.min(n - self.got.len()) }
            }
            _ => len,
        };
        self.got.extend_from_slice(&b[..n]);
        Ok(n)
    }
    fn flush(&mut self) -> io::Result<()> { Ok(()) }
}

/// Writes `f` into a sink of the given kind. Returns the library's result
/// (after the caller's flush for the buffering sinks) and what arrived.
fn run_sink(kind: SinkKind, doc_len: usize, f: &FileVal) -> (Result<(), String>, Vec<u8>) {
    use io::Write as _;
    let show = |e: io::Error| format!("{:?}: {e}", e.kind());
    match kind {
        SinkKind::Vec => { let mut v = Vec::new(); let r = f.write(&mut v).map_err(show); (r, v) }
        SinkKind::CursorVec => { let mut c = io::Cursor::new(Vec::new()); let r = f.write(&mut c).map_err(show); (r, c.into_inner()) }
        SinkKind::SliceExact | SinkKind::SliceRoomy => {
            let size = if kind == SinkKind::SliceExact { doc_len } else { doc_len + 4096 };
            let mut buf = vec![0u8; size];
            let left = { let mut s: &mut [u8] = &mut buf[..]; let r = f.write(&mut s).map_err(show); (r, s.len()) };
            buf.truncate(size - left.1);
            (left.0, buf)
        }
        SinkKind::Buffered(cap, k) => {
            let mut bw = io::BufWriter::with_capacity(cap, Scripted::new(SinkKind::Chunk(k)));
            let r = f.write(&mut bw).map_err(show).and_then(|_| bw.flush().map_err(|e| format!("caller's flush: {e}")));
            match bw.into_inner() { Ok(s) => (r, s.got), Err(e) => (Err(format!("into_inner: {}", e.error())), Vec::new()) }
        }
        SinkKind::LineBuffered(k) => {
            let mut lw = io::LineWriter::new(Scripted::new(SinkKind::Chunk(k)));
            let r = f.write(&mut lw).map_err(show).and_then(|_| lw.flush().map_err(|e| format!("caller's flush: {e}")));
            match lw.into_inner() { Ok(s) => (r, s.got), Err(e) => (Err(format!("into_inner: {}", e.error())), Vec::new()) }
        }
        _ => { let mut s = Scripted::new(kind); let r = f.write(&mut s).map_err(show); (r, s.got) }
    }
}

type Oc = BTreeMap<&'static str, u64>;

/// One (file value, sink) case. `Ok` from `write_xml` obliges the sink to
/// hold a document that parses back to an equal value; an `Err` is not
/// judged (recorded as an outcome class only).
fn judge_sink(fails: &Fails, order: u64, oc: &mut Oc, wit: &dyn Fn() -> String, f: &FileVal, reference: &[u8], ref_ok: bool, kind: SinkKind) {
    let oracle: &'static str = if kind.reports_failure() { "C09.sinks.failing" } else { "C09.sinks.short_writes" };
    let bump = |oc: &mut Oc, k: &'static str| *oc.entry(k).or_insert(0) += 1;
    match guard(|| run_sink(kind, reference.len(), f)) {
        Err(p) => { bump(oc, "oracle-violated"); fails.push(order, oracle, format!("{} sink={kind:?}", wit()), format!("write_xml panicked: {p}")) }
        Ok((Err(_), _)) => bump(oc, if kind.reports_failure() { "error-surfaced-from-failing-sink" } else { "error-returned-on-a-sink-that-accepts-everything-eventually (not judged)" }),
        Ok((Ok(()), got)) => {
            let verdict = if got == reference && ref_ok { Ok(()) } else { guard(|| f.parses_back(&got)).and_then(|r| r) };
            match verdict {
                Ok(()) => bump(oc, if kind.reports_failure() { "ok-and-complete-failure-point-not-reached" } else if got == reference { "ok-and-same-octets-as-into-a-vec" } else { "ok-and-complete-other-octets" }),
                Err(d) => {
                    bump(oc, "oracle-violated");
                    fails.push(order, oracle, format!("{} sink={kind:?}", wit()),
                        format!("write_xml returned Ok but the {} octets that arrived {d}; written into a Vec the file has {} octets; arrived {} -- into a Vec {}", got.len(), reference.len(),
                            trunc(&first_difference(&text(&got), &text(reference)), 160), trunc(&first_difference(&text(reference), &text(&got)), 160)));
                }
            }
        }
    }
}

fn space_sinks(ctx: &Ctx) {
    let thorough = ctx.tier.is_thorough();
    let menu = SinkKind::healthy_menu();
    let sp = ctx.space("sinks.short_writes",
        "the sink as a dimension: write_xml of EVERY file value of the round-trip spaces (notification: 504 header combinations + all delta sequences; snapshot and delta: every single element x 12 headers + all element sequences over the reduced alphabets) into every sink of a menu of io::Write behaviours that accept all octets eventually: Vec, Cursor<Vec>, `&mut [u8]` (exact / roomy), at most k octets per call (k = 1,2,3,5,7,16,61,64,4096), one octet on the first call, alternating 1/all, all/1, 2/5, half of what is offered, all but one octet, ErrorKind::Interrupted on every other call, BufWriter (capacity 8192,16,1,0) and LineWriter around a k-per-call sink (flushed by the caller); plus (failing sinks) a sink that breaks for good after n octets and one that fails ONE call after n octets, for EVERY n up to the document length, on 24 small files. Oracle: if write_xml returns Ok, the octets that arrived parse back to a value == the written one (an Err is not judged, only counted); non-trivial = cases whose sink does not take every buffer whole");
    let fails = Fails::new();
    let sess = sessions();
    let menu_ref = &menu;
    // one value against the whole menu
    let sweep = |order: u64, wit: &dyn Fn() -> String, f: &FileVal| {
        let mut oc: Oc = BTreeMap::new();
        let mut reference = Vec::new();
        let ref_ok = guard(|| f.write(&mut reference).is_ok()).unwrap_or(false) && guard(|| f.parses_back(&reference)).and_then(|r| r).is_ok();
        let mut n = 0u64; let mut nt = 0u64;
        for (si, &kind) in menu_ref.iter().enumerate() {
            if kind == SinkKind::SliceExact && f.kind() != Kind::Notification { continue } // see history: base64's writer never gives up on a full slice
            n += 1; if !kind.takes_buffers_whole() { nt += 1 }
            judge_sink(&fails, order << 8 | si as u64, &mut oc, wit, f, &reference, ref_ok, kind);
        }
        sp.evals(n); sp.nontrivial(nt); sp.merge_outcomes(&oc);
    };
    let mut bound: Vec<String> = Vec::new();
    // notification values
    {
        let one = [DeltaSpec { serial: 1, uri: 0, hash: 2 }];
        let mut hdr: Vec<(usize, u64, usize, usize, usize)> = Vec::new();
        for s in 0..3 { for &serial in &SERIALS { for su in 0..HTTPS_URIS.len() { for sh in 0..3 { for nd in 0..2 { hdr.push((s, serial, su, sh, nd)) } } } } }
        hdr.par_iter().enumerate().for_each(|(i, &(s, serial, su, sh, nd))| {
            let ds = &one[..nd];
            if let Ok(nf) = guard(|| build_notification(s, serial, su, sh, ds)) { sweep(i as u64, &|| format!("notification {}", show_notification(s, serial, su, sh, ds)), &FileVal::N(nf)) }
        });
        let dserials: [u64; 5] = [0, 1, 2, MAX - 1, MAX];
        let mut full: Vec<DeltaSpec> = Vec::new();
        for &serial in &dserials { for uri in 0..HTTPS_URIS.len() { for hash in 0..3 { full.push(DeltaSpec { serial, uri, hash }) } } }
        let mut reduced: Vec<DeltaSpec> = Vec::new();
        for &serial in &dserials { for uri in [0usize, 2, 3, 6] { reduced.push(DeltaSpec { serial, uri, hash: 2 }) } }
        let plans: [(&[DeltaSpec], u32); 2] = [(&full[..], 2), (&reduced[..], if thorough { 4 } else { 3 })];
        for (pi, (alpha, max_len)) in plans.into_iter().enumerate() {
            let k = alpha.len() as u64;
            par_for(seq_count(k, max_len), |idx| {
                let mut ix = Vec::new();
                seq_at(k, max_len, idx, &mut ix);
                let ds: Vec<DeltaSpec> = ix.iter().map(|&i| alpha[i]).collect();
                if let Ok(nf) = guard(|| build_notification(2, 5, 0, 2, &ds)) { sweep(((pi as u64 + 1) << 32) | idx, &|| format!("notification {}", show_notification(2, 5, 0, 2, &ds)), &FileVal::N(nf)) }
            });
            bound.push(format!("notification: all sequences of <= {max_len} deltas over {k} delta values"));
        }
        bound.insert(0, format!("notification: {} header combinations", hdr.len()));
    }
    // snapshot and delta values
    {
        let full = data_full();
        let mut singles: Vec<ElSpec> = Vec::new();
        for uri in 0..RSYNC_URIS.len() {
            for d in &full { singles.push(ElSpec::Publish { uri, data: *d }) }
            for hash in 0..3 {
                for d in &full { singles.push(ElSpec::Update { uri, hash, data: *d }) }
                singles.push(ElSpec::Withdraw { uri, hash });
            }
        }
        let as_snapshot = |s: Uuid, serial: u64, els: &[ElSpec]| -> Option<FileVal> {
            if !els.iter().all(|e| matches!(e, ElSpec::Publish { .. })) { return None }
            guard(|| Snapshot::new(s, serial, els.iter().map(|e| match *e { ElSpec::Publish { uri, data } => PublishElement::new(rsync(RSYNC_URIS[uri]), data.bytes()), _ => unreachable!() }).collect())).ok().map(FileVal::S)
        };
        let as_delta = |s: Uuid, serial: u64, els: &[ElSpec]| -> Option<FileVal> { guard(|| Delta::new(s, serial, els.iter().map(|e| e.to_delta_element()).collect())).ok().map(FileVal::D) };
        let show = |els: &[ElSpec]| els.iter().map(|e| e.show()).collect::<Vec<_>>().join(" ");
        singles.par_iter().enumerate().for_each(|(i, e)| {
            for (si, s) in sess.iter().enumerate() { for (ni, &serial) in SERIALS.iter().enumerate() {
                let els = std::slice::from_ref(e);
                let order = (3u64 << 32) | (i as u64) << 8 | (si * 4 + ni) as u64;
                if let Some(f) = as_snapshot(*s, serial, els) { sweep(order << 1, &|| format!("snapshot session#{si} serial={} [{}]", show_serial(serial), show(els)), &f) }
                if let Some(f) = as_delta(*s, serial, els) { sweep(order << 1 | 1, &|| format!("delta session#{si} serial={} [{}]", show_serial(serial), show(els)), &f) }
            }}
        });
        bound.push(format!("snapshot / delta: {} single elements x 12 headers", singles.len()));
        for (si, s) in sess.iter().enumerate() { for &serial in &SERIALS {
            if let Some(f) = as_snapshot(*s, serial, &[]) { sweep(4u64 << 32, &|| format!("snapshot session#{si} serial={} []", show_serial(serial)), &f) }
            if let Some(f) = as_delta(*s, serial, &[]) { sweep(4u64 << 32 | 1, &|| format!("delta session#{si} serial={} []", show_serial(serial)), &f) }
        }}
        let alpha = |uris: &[usize], hs: &[usize], data: &[DataSpec]| -> Vec<ElSpec> {
            let mut v = Vec::new();
            for &uri in uris {
                for d in data { v.push(ElSpec::Publish { uri, data: *d }) }
                for &hash in hs { for d in data { v.push(ElSpec::Update { uri, hash, data: *d }) } v.push(ElSpec::Withdraw { uri, hash }) }
            }
            v
        };
        let smid: Vec<ElSpec> = alpha(&[0, 2, 4], &[], &data_mid());
        let ssmall: Vec<ElSpec> = alpha(&[0, 3], &[], &data_small());
        let dmid = alpha(&[0, 2, 4], &[0, 2], &data_mid()[..6]);
        let dsmall = alpha(&[0, 3], &[1, 2], &data_small());
        let plans: [(&[ElSpec], u32, bool); 4] = [(&smid[..], if thorough { 3 } else { 2 }, true), (&ssmall[..], if thorough { 4 } else { 3 }, true), (&dmid[..], if thorough { 3 } else { 2 }, false), (&dsmall[..], 3, false)];
        for (pi, (a, max_len, snap)) in plans.into_iter().enumerate() {
            let k = a.len() as u64;
            par_for(seq_count(k, max_len), |idx| {
                let mut ix = Vec::new();
                seq_at(k, max_len, idx, &mut ix);
                let els: Vec<ElSpec> = ix.iter().map(|&i| a[i]).collect();
                let order = ((pi as u64 + 5) << 32) | idx;
                if snap { if let Some(f) = as_snapshot(sess[2], 1 << 63, &els) { sweep(order, &|| format!("snapshot session#2 serial=2^63 [{}]", show(&els)), &f) } }
                else if let Some(f) = as_delta(sess[2], MAX, &els) { sweep(order, &|| format!("delta session#2 serial=MAX [{}]", show(&els)), &f) }
            });
            bound.push(format!("{}: all sequences of <= {max_len} elements over {k} element values", if snap { "snapshot" } else { "delta" }));
        }
    }
    bound.push(format!("each x {} sinks", menu.len()));
    // failing sinks: every position of small files
    {
        let mut small: Vec<(String, FileVal)> = Vec::new();
        for v in 0..3u64 {
            small.push((format!("history notification #{v}"), FileVal::N(hist_notification(v))));
            small.push((format!("history snapshot #{v}"), FileVal::S(hist_snapshot(v))));
            small.push((format!("history delta #{v}"), FileVal::D(hist_delta(v))));
        }
        for len in 0..=7usize {
            let d = DataSpec { len, pat: 2 };
            small.push((format!("snapshot [P({},{})]", RSYNC_URIS[3], d.show()), FileVal::S(Snapshot::new(sess[2], 1, vec![PublishElement::new(rsync(RSYNC_URIS[3]), d.bytes())]))));
        }
        for len in [1usize, 2, 3, 4, 5, 767, 769] {
            let d = DataSpec { len, pat: 2 };
            small.push((format!("delta [U({},hash#2,{}) W({},hash#1)]", RSYNC_URIS[2], d.show(), RSYNC_URIS[0]), FileVal::D(Delta::new(sess[2], 1, vec![UpdateElement::new(rsync(RSYNC_URIS[2]), hashes()[2], d.bytes()).into(), WithdrawElement::new(rsync(RSYNC_URIS[0]), hashes()[1]).into()]))));
        }
        let n_small = small.len();
        small.par_iter().enumerate().for_each(|(i, (name, f))| {
            let mut oc: Oc = BTreeMap::new();
            let mut reference = Vec::new();
            let ref_ok = guard(|| f.write(&mut reference).is_ok()).unwrap_or(false) && guard(|| f.parses_back(&reference)).and_then(|r| r).is_ok();
            let mut n = 0u64;
            for pos in 0..=reference.len() {
                for kind in [SinkKind::FailAfter(pos), SinkKind::FailOnce(pos)] {
                    n += 1;
                    judge_sink(&fails, (15u64 << 40) | (i as u64) << 24 | (pos as u64) << 1 | (kind == SinkKind::FailOnce(pos)) as u64, &mut oc, &|| format!("file={name} ({} octets)", reference.len()), f, &reference, ref_ok, kind);
                }
            }
            sp.evals(n); sp.nontrivial(n); sp.merge_outcomes(&oc);
        });
        bound.push(format!("{n_small} small files x every position x 2 failing sinks"));
    }
    fails.flush_into(ctx, &sp);
    sp.set("sinks", json!(menu.iter().map(|s| format!("{s:?}")).collect::<Vec<_>>()));
    sp.sample_str(|| format!("notification {} sink={:?}", show_notification(2, 5, 0, 2, &[DeltaSpec { serial: MAX, uri: 4, hash: 1 }]), SinkKind::Alternate(2, 5)));
    sp.sample_str(|| format!("file=history delta #1 sink={:?}", SinkKind::FailOnce(200)));
    sp.done(true, &bound.join("; "));
}

//============ construction routes of the URIs inside the files ==============

/// What the two URI types have in common, so that one sweep serves both.
trait UriT: Sized + Clone + PartialEq + std::hash::Hash + FromStr<Err = uri::Error> + TryFrom<String, Error = uri::Error> + serde::Serialize + serde::de::DeserializeOwned {
    const NAME: &'static str;
    fn of_string(s: String) -> Result<Self, uri::Error>;
    fn of_slice(s: &[u8]) -> Result<Self, uri::Error>;
    fn of_bytes(b: Bytes) -> Result<Self, uri::Error>;
    fn text(&self) -> &str;
    fn unshared(&self) -> Self;
    fn parent_of(&self) -> Option<Self>;
    fn joined(&self, path: &[u8]) -> Result<Self, uri::Error>;
}

macro_rules! impl_urit { ($t:ty, $name:literal) => {
    impl UriT for $t {
        const NAME: &'static str = $name;
        fn of_string(s: String) -> Result<Self, uri::Error> { <$t>::from_string(s) }
        fn of_slice(s: &[u8]) -> Result<Self, uri::Error> { <$t>::from_slice(s) }
        fn of_bytes(b: Bytes) -> Result<Self, uri::Error> { <$t>::from_bytes(b) }
        fn text(&self) -> &str { self.as_str() }
        fn unshared(&self) -> Self { let mut c = self.clone(); c.unshare(); c }
        fn parent_of(&self) -> Option<Self> { self.parent() }
        fn joined(&self, path: &[u8]) -> Result<Self, uri::Error> { self.join(path) }
    }
}}
impl_urit!(uri::Https, "uri::Https");
impl_urit!(uri::Rsync, "uri::Rsync");

/// Every public way to obtain a URI value from a text.
#[derive(Clone, Copy, Debug, PartialEq, Eq)]
enum Route {
    FromStr, StrParse, FromString, TryFromString, FromSlice, FromBytesOwned, FromBytesStatic, FromBytesView,
    SerdeJsonStr, SerdeJsonValue, SerdeJsonReader, SerdeRoundTrip, CloneUnshare, ParentJoin,
}

const ROUTES: [Route; 14] = [
    Route::FromStr, Route::StrParse, Route::FromString, Route::TryFromString, Route::FromSlice, Route::FromBytesOwned, Route::FromBytesStatic, Route::FromBytesView,
    Route::SerdeJsonStr, Route::SerdeJsonValue, Route::SerdeJsonReader, Route::SerdeRoundTrip, Route::CloneUnshare, Route::ParentJoin,
];

/// `None`: the route does not exist for this text (no parent to join to).
fn via<U: UriT>(route: Route, t: &str) -> Option<Result<U, String>> {
    let e = |e: uri::Error| e.to_string();
    Some(match route {
        Route::FromStr => U::from_str(t).map_err(e),
        Route::StrParse => t.parse::<U>().map_err(e),
        Route::FromString => U::of_string(t.to_string()).map_err(e),
        Route::TryFromString => U::try_from(t.to_string()).map_err(e),
        Route::FromSlice => U::of_slice(t.as_bytes()).map_err(e),
        Route::FromBytesOwned => U::of_bytes(Bytes::from(t.as_bytes().to_vec())).map_err(e),
        // (a few hundred short texts per run are leaked to obtain `'static` octets)
        Route::FromBytesStatic => U::of_bytes(Bytes::from_static(Box::leak(t.as_bytes().to_vec().into_boxed_slice()))).map_err(e),
        Route::FromBytesView => { let big = Bytes::from(format!("<<{t}>>").into_bytes()); U::of_bytes(big.slice(2..2 + t.len())).map_err(e) }
        Route::SerdeJsonStr => serde_json::from_str::<U>(&serde_json::to_string(t).ok()?).map_err(|e| e.to_string()),
        Route::SerdeJsonValue => serde_json::from_value::<U>(serde_json::Value::String(t.to_string())).map_err(|e| e.to_string()),
        Route::SerdeJsonReader => serde_json::from_reader::<_, U>(serde_json::to_string(t).ok()?.as_bytes()).map_err(|e| e.to_string()),
        Route::SerdeRoundTrip => { let u = U::from_str(t).ok()?; serde_json::to_value(&u).and_then(serde_json::from_value::<U>).map_err(|e| e.to_string()) }
        Route::CloneUnshare => Ok(U::from_str(t).ok()?.unshared()),
        Route::ParentJoin => { let u = U::from_str(t).ok()?; let p = u.parent_of()?; let rest = t.get(p.text().len()..)?; if rest.is_empty() { return None } p.joined(rest.as_bytes()).map_err(e) }
    })
}

fn std_hash<T: std::hash::Hash>(v: &T) -> u64 {
    use std::hash::Hasher;
    let mut h = std::collections::hash_map::DefaultHasher::new();
    v.hash(&mut h);
    h.finish()
}

const CASE_FORMS: [&str; 3] = ["lower", "UPPER", "MiXed"];

/// `s` with its ASCII letters in the given case form.
fn case_form(s: &str, form: usize) -> String {
    match form {
        0 => s.to_ascii_lowercase(),
        1 => s.to_ascii_uppercase(),
        _ => { let mut n = 0; s.chars().map(|c| if c.is_ascii_alphabetic() { n += 1; if n % 2 == 1 { c.to_ascii_uppercase() } else { c.to_ascii_lowercase() } } else { c }).collect() }
    }
}

/// scheme://authority/path with scheme and authority in the given case forms (the path is left alone).
fn uri_text(scheme: &str, sf: usize, authority: &str, af: usize, path: &str) -> String {
    format!("{}://{}{path}", case_form(scheme, sf), case_form(authority, af))
}

/// Same-text law: the values all routes make from ONE text are `==` (both ways) with equal hashes,
/// and all routes agree on whether the text is a URI at all.
fn routes_same_text<U: UriT>(fails: &Fails, order: u64, oc: &mut Oc, t: &str) -> (u64, u64) {
    let bump = |oc: &mut Oc, k: &'static str| *oc.entry(k).or_insert(0) += 1;
    let made: Vec<(Route, Result<Option<Result<U, String>>, String>)> = ROUTES.iter().map(|&r| (r, guard(|| via::<U>(r, t)))).collect();
    let base = match &made[0].1 { Ok(Some(Ok(u))) => Some(u.clone()), _ => None };
    let (mut n, mut nt) = (0u64, 0u64);
    let cased = t.split('/').take(3).any(|p| p.bytes().any(|b| b.is_ascii_uppercase()));
    for (i, (r, m)) in made.iter().enumerate() {
        n += 1;
        let wit = || format!("{} text={t:?} route={r:?} (against route FromStr)", U::NAME);
        match m {
            Err(p) => { bump(oc, "oracle-violated"); fails.push(order << 8 | i as u64, "C09.routes.same_value", wit(), format!("the route panicked: {p}")) }
            Ok(None) => bump(oc, "route-not-applicable"),
            Ok(Some(Err(e))) => {
                if base.is_some() { bump(oc, "oracle-violated"); fails.push(order << 8 | i as u64, "C09.routes.same_value", wit(), format!("refused ({e}) although from_str accepts the text")) }
                else { bump(oc, "refused-by-every-route") }
            }
            Ok(Some(Ok(u))) => {
                if cased && i > 1 { nt += 1 }
                match &base {
                    None => { bump(oc, "oracle-violated"); fails.push(order << 8 | i as u64, "C09.routes.same_value", wit(), format!("accepted (as {:?}) although from_str refuses the text", u.text())) }
                    Some(b) => {
                        let (ab, ba, hb, hu) = (b == u, u == b, std_hash(b), std_hash(u));
                        if ab && ba && hb == hu { bump(oc, if u.text() == t { "equal-and-same-octets" } else { "equal-other-octets" }) }
                        else { bump(oc, "oracle-violated"); fails.push(order << 8 | i as u64, "C09.routes.same_value", wit(), format!("from_str value {:?} == route value {:?}: {ab}; the other way round: {ba}; hashes {hb:016x} / {hu:016x}", b.text(), u.text())) }
                    }
                }
            }
        }
    }
    (n, nt)
}

fn space_routes(ctx: &Ctx) {
    let sp = ctx.space("routes.uri_constructors",
        "the construction route as a dimension: every URI inside a file (notification: snapshot and delta URIs; snapshot / delta: publish, update, withdraw URIs) made by every public route {FromStr, str::parse, from_string, TryFrom<String>, from_slice, from_bytes of an owned / static / sliced-out-of-a-larger Bytes, serde_json from_str / from_value / from_reader, serialise+deserialise, clone+unshare, parent().join(last segment)} from texts with scheme x authority in {lower, UPPER, MiXed} case (3 authorities incl. a port; paths with upper-case letters and XML-escaped characters). (1) all routes agree on accepting a text, and the values they make from ONE text are == (both ways) with equal std hashes (also for 12 texts that are not URIs: refused by all); (2) a file whose URIs come from route r (and, for one case form, snapshot from r1 / deltas from r2 for all ordered pairs) written and parsed back is == the written one, field by field, URI texts octet for octet (the full round-trip oracle of roundtrip.*); non-trivial = cases with an upper-case letter in scheme or authority and a route other than FromStr / str::parse");
    let fails = Fails::new();
    let hs = hashes();
    let sess = sessions();
    let https_auth = ["rrdp.example.net", "h.example:8443", "a-b.c0.example"];
    let https_paths = ["/Repo/77/Snapshot.xml", "/Repo/77/Delta.xml", "/repo/76/delta.xml", "/a&b'/X.xml", "", "/"];
    let rsync_auth = ["rpki.example.net", "h.example:873", "a-b.c0.example"];
    let rsync_paths = ["/Repo/CA/One.cer", "/repo/ca/one.cer", "/Mod/a&b'.roa", "/m/Dir/", "/m/"];
    let not_uris = ["", "https://", "http://h.example/x", "https:/h.example/x", "https://h.exa mple/x", "https://h.example/\u{e9}", "rsync://h.example/m", "rsync://h.example//x", "rsync://h.example/m/../x", "rsync://", "rsync:/h.example/m/x", "ftp://h.example/m/x"];
    // (1) same text, every route
    let mut texts: Vec<(bool, String)> = Vec::new();
    for a in https_auth { for p in https_paths { for sf in 0..3 { for af in 0..3 { texts.push((true, uri_text("https", sf, a, af, p))) } } } }
    for a in rsync_auth { for p in rsync_paths { for sf in 0..3 { for af in 0..3 { texts.push((false, uri_text("rsync", sf, a, af, p))) } } } }
    for t in not_uris { texts.push((true, t.to_string())); texts.push((false, t.to_string())) }
    texts.par_iter().enumerate().for_each(|(i, (is_https, t))| {
        let mut oc: Oc = BTreeMap::new();
        let (n, nt) = if *is_https { routes_same_text::<uri::Https>(&fails, i as u64, &mut oc, t) } else { routes_same_text::<uri::Rsync>(&fails, i as u64, &mut oc, t) };
        sp.evals(n); sp.nontrivial(nt); sp.merge_outcomes(&oc);
    });
    // (2) files whose URIs come from one route
    let file_case = |order: u64, what: &'static str, wit: &dyn Fn() -> String, cased: bool, plain_route: bool, f: &dyn Fn() -> Result<(), String>| {
        sp.eval();
        if cased && !plain_route { sp.nontrivial(1) }
        sp.outcome(if cased { "file-with-upper-case-scheme-or-authority" } else { "file-all-lower-case" });
        fails.check(order, what, wit, f);
    };
    let need = |r: Route, t: &str, x: Option<Result<uri::Https, String>>| x.ok_or_else(|| format!("route {r:?} does not exist for {t:?}"))?.map_err(|e| format!("route {r:?} refuses {t:?}: {e}"));
    let need_r = |r: Route, t: &str, x: Option<Result<uri::Rsync, String>>| x.ok_or_else(|| format!("route {r:?} does not exist for {t:?}"))?.map_err(|e| format!("route {r:?} refuses {t:?}: {e}"));
    let mut n_files = 0u64;
    for (ai, a) in https_auth.into_iter().enumerate() { for sf in 0..3 { for af in 0..3 { for (ri, &r) in ROUTES.iter().enumerate() {
        let order = (1u64 << 32) | ((ai * 9 + sf * 3 + af) as u64) << 8 | ri as u64;
        let ts: Vec<String> = [0usize, 1, 3].iter().map(|&p| uri_text("https", sf, a, af, https_paths[p])).collect();
        n_files += 1;
        file_case(order, "C09.routes.notification", &|| format!("route={r:?} for snapshot and delta URIs; snapshot={} deltas=[{} {}]", ts[0], ts[1], ts[2]), sf + af > 0, ri < 2, &|| {
            let us: Vec<uri::Https> = ts.iter().map(|t| need(r, t, via::<uri::Https>(r, t))).collect::<Result<_, _>>()?;
            let nf = NotificationFile::new(sess[2], 77, UriAndHash::new(us[0].clone(), hs[2]), vec![DeltaInfo::new(77, us[1].clone(), hs[0]), DeltaInfo::new(76, us[2].clone(), hs[1])]);
            roundtrip_notification(&nf).map(|_| ())
        });
    }}}}
    // snapshot URI from r1, delta URIs from r2 (MiXed / MiXed and UPPER / lower)
    for (sf, af) in [(2usize, 2usize), (1, 0)] { for (i1, &r1) in ROUTES.iter().enumerate() { for (i2, &r2) in ROUTES.iter().enumerate() {
        let ts: Vec<String> = [0usize, 1, 3].iter().map(|&p| uri_text("https", sf, https_auth[0], af, https_paths[p])).collect();
        n_files += 1;
        file_case((2u64 << 32) | ((sf * 3 + af) as u64) << 16 | (i1 as u64) << 8 | i2 as u64, "C09.routes.notification", &|| format!("snapshot URI by route {r1:?}, delta URIs by route {r2:?}; snapshot={} deltas=[{} {}]", ts[0], ts[1], ts[2]), true, i1 < 2 && i2 < 2, &|| {
            let s = need(r1, &ts[0], via::<uri::Https>(r1, &ts[0]))?;
            let d1 = need(r2, &ts[1], via::<uri::Https>(r2, &ts[1]))?;
            let d2 = need(r2, &ts[2], via::<uri::Https>(r2, &ts[2]))?;
            let nf = NotificationFile::new(sess[1], MAX, UriAndHash::new(s, hs[2]), vec![DeltaInfo::new(MAX, d1, hs[0]), DeltaInfo::new(MAX - 1, d2, hs[1])]);
            roundtrip_notification(&nf).map(|_| ())
        });
    }}}
    for (ai, a) in rsync_auth.into_iter().enumerate() { for sf in 0..3 { for af in 0..3 { for (ri, &r) in ROUTES.iter().enumerate() {
        let order = (3u64 << 32) | ((ai * 9 + sf * 3 + af) as u64) << 8 | ri as u64;
        let ts: Vec<String> = [0usize, 1, 2].iter().map(|&p| uri_text("rsync", sf, a, af, rsync_paths[p])).collect();
        let wit = || format!("route={r:?} for publish / update / withdraw URIs {} {} {}", ts[0], ts[1], ts[2]);
        n_files += 2;
        file_case(order, "C09.routes.snapshot", &wit, sf + af > 0, ri < 2, &|| {
            let us: Vec<uri::Rsync> = ts.iter().map(|t| need_r(r, t, via::<uri::Rsync>(r, t))).collect::<Result<_, _>>()?;
            let want: Vec<Seen> = us.iter().enumerate().map(|(i, u)| Seen::Publish { uri: u.clone(), hash: None, data: DataSpec { len: [0, 4, 769][i], pat: 2 }.bytes().to_vec() }).collect();
            roundtrip_snapshot(sess[2], 3, &want, [0, 1, 5][ri % 3])
        });
        file_case(order | 1 << 31, "C09.routes.delta", &wit, sf + af > 0, ri < 2, &|| {
            let us: Vec<uri::Rsync> = ts.iter().map(|t| need_r(r, t, via::<uri::Rsync>(r, t))).collect::<Result<_, _>>()?;
            let want = vec![
                Seen::Publish { uri: us[0].clone(), hash: None, data: vec![1, 2, 3, 4] },
                Seen::Publish { uri: us[1].clone(), hash: Some(hs[2]), data: vec![] },
                Seen::Withdraw { uri: us[2].clone(), hash: hs[1] },
                Seen::Withdraw { uri: us[0].clone(), hash: hs[0] },
            ];
            roundtrip_delta_seen(sess[2], 4, &want, [0, 1, 5][ri % 3])
        });
    }}}}
    fails.flush_into(ctx, &sp);
    sp.set("routes", json!(ROUTES.iter().map(|r| format!("{r:?}")).collect::<Vec<_>>()));
    sp.set("case_forms", json!(CASE_FORMS));
    sp.sample_str(|| format!("route=FromBytesView text={}", uri_text("https", 2, https_auth[0], 2, https_paths[0])));
    sp.sample_str(|| format!("route=SerdeJsonValue text={}", uri_text("rsync", 1, rsync_auth[1], 2, rsync_paths[2])));
    sp.done(true, &format!("{} texts x {} routes; {n_files} files", texts.len(), ROUTES.len()));
}

//============ limits are per element: long VALID documents, generated =======

/// Kinds of elements a generated document is made of.
#[derive(Clone, Copy, Debug, PartialEq, Eq)]
enum LK { Publish, Update, Withdraw, NSnapshot, NDelta }

/// Which element kinds follow each other.
#[derive(Clone, Copy, Debug, PartialEq, Eq)]
enum RunPat {
    /// a run of one kind
    Only(LK),
    /// publish, update, withdraw, publish, ...
    Robin,
    /// a run of `run` with a single `other` element in the middle
    Amid { run: LK, other: LK },
    /// notification: a run of delta elements with the one snapshot element
    /// first (0), in the middle (1) or last (2)
    SnapAt(u8),
}

impl RunPat {
    fn show(self) -> String {
        let n = |k: LK| match k { LK::Publish => "publish", LK::Update => "update", LK::Withdraw => "withdraw", LK::NSnapshot => "snapshot", LK::NDelta => "delta" };
        match self {
            RunPat::Only(k) => format!("{}-only", n(k)),
            RunPat::Robin => "publish,update,withdraw-cycling".into(),
            RunPat::Amid { run, other } => format!("{}-run-with-one-{}-in-the-middle", n(run), n(other)),
            RunPat::SnapAt(w) => format!("delta-run-with-the-snapshot-element-{}", ["first", "in-the-middle", "last"][w as usize]),
        }
    }
}

/// Where the octets of an element are.
#[derive(Clone, Copy, Debug, PartialEq, Eq)]
enum Carrier { Content, Uri, GapSpace, GapComment, InnerSpace }

impl Carrier {
    fn name(self) -> &'static str {
        match self {
            Carrier::Content => "object-content", Carrier::Uri => "uri-attribute", Carrier::GapSpace => "white-space-before-each-element",
            Carrier::GapComment => "comment-before-each-element", Carrier::InnerSpace => "white-space-inside-each-element",
        }
    }
}

/// How an element is spelled.
#[derive(Clone, Copy, Debug, PartialEq, Eq)]
enum Form {
    /// as `write_xml` spells it; objects of 0..4 octets cycling unless the content is the carrier
    Written,
    /// as `write_xml` spells it, every object empty
    Empty,
    /// the other spelling: publish elements self-closing (empty objects),
    /// withdraw and notification entries as a start tag / end tag pair
    Alt,
}

impl Form {
    fn name(self) -> &'static str { match self { Form::Written => "as-written", Form::Empty => "as-written-with-empty-objects", Form::Alt => "self-closing-publish/paired-withdraw-and-entries" } }
}

/// Repeated material, 64 KiB each.
struct Blocks { space: Vec<u8>, p: Vec<u8>, c: Vec<u8>, data: Vec<u8>, b64: Vec<u8> }

const DATA_PERIOD: usize = 3072;

impl Blocks {
    fn new() -> Self {
        use base64::Engine as _;
        let data = big_data(DATA_PERIOD);
        let b64 = base64::engine::general_purpose::STANDARD.encode(&data).into_bytes().repeat(16);
        Blocks { space: vec![b' '; 65536], p: vec![b'p'; 65536], c: vec![b'c'; 65536], data, b64 }
    }
}

enum Part<'a> { Lit(Vec<u8>), Rep(&'a [u8], u64) }

impl Part<'_> {
    fn len(&self) -> u64 { match self { Part::Lit(v) => v.len() as u64, Part::Rep(_, n) => *n } }
}

/// A document described by a handful of numbers: header, `n` elements whose
/// kind, URI, hash and content are functions of the element index, trailer.
/// With carrier `Content` or `Uri` (and, for a notification, the snapshot
/// element first) the octets are exactly what `write_xml` gives for the
/// value; the other carriers put white space or a comment around elements.
#[derive(Clone, Debug)]
struct LongDoc { kind: Kind, pat: RunPat, carrier: Carrier, form: Form, bulk: u64, n: u64, over: Option<(u64, u64)> }

const LONG_SERIAL: u64 = 77;

fn hex_into(out: &mut Vec<u8>, b: &[u8]) {
    for x in b { out.push(b"0123456789abcdef"[(x >> 4) as usize]); out.push(b"0123456789abcdef"[(x & 15) as usize]) }
}

impl LongDoc {
    fn limit(&self) -> u64 { if self.kind == Kind::Notification { HEADER_LIMIT } else { FILE_LIMIT } }
    fn kind_of(&self, i: u64) -> LK {
        match self.pat {
            RunPat::Only(k) => k,
            RunPat::Robin => [LK::Publish, LK::Update, LK::Withdraw][(i % 3) as usize],
            RunPat::Amid { run, other } => if i == self.n / 2 { other } else { run },
            RunPat::SnapAt(w) => if i == self.snap_at(w) { LK::NSnapshot } else { LK::NDelta },
        }
    }
    fn snap_at(&self, w: u8) -> u64 { match w { 0 => 0, 1 => self.n / 2, _ => self.n - 1 } }
    fn bulk_of(&self, i: u64) -> u64 { match self.over { Some((j, b)) if j == i => b, _ => self.bulk } }
    fn data_len(&self, i: u64) -> u64 { if self.carrier == Carrier::Content { self.bulk_of(i) } else if self.form == Form::Written { i % 5 } else { 0 } }
    fn pad_len(&self, i: u64) -> u64 { if self.carrier == Carrier::Uri { self.bulk_of(i) } else { 0 } }
    fn uri(&self, i: u64) -> String {
        let pad = "p".repeat(self.pad_len(i) as usize);
        match self.kind_of(i) {
            LK::NSnapshot => format!("https://h.example/{pad}{i:08}/snapshot.xml"),
            LK::NDelta => format!("https://h.example/{pad}{i:08}/delta.xml"),
            _ => format!("rsync://h.example/m/{pad}{i:08}.roa"),
        }
    }
    fn hash(&self, i: u64) -> [u8; 32] {
        let x = (i + 1).wrapping_mul(0x9E37_79B9_7F4A_7C15);
        let mut h = [0u8; 32];
        for (j, o) in h.iter_mut().enumerate() { *o = (x >> (8 * (j % 8))) as u8 ^ (j as u8).wrapping_mul(29) }
        h
    }
    fn delta_serial(&self, i: u64) -> u64 { 10_000_000 + i }
    fn data_prefix(i: u64) -> [u8; 6] { let b = i.to_be_bytes(); [b[2], b[3], b[4], b[5], b[6], b[7]] }
    /// The content of object `i` (small documents only).
    fn data(&self, i: u64, b: &Blocks) -> Vec<u8> {
        let p = Self::data_prefix(i);
        (0..self.data_len(i) as usize).map(|j| if j < 6 { p[j] } else { b.data[(j - 6) % DATA_PERIOD] }).collect()
    }
    /// First offset at which `chunk`, found at offset `off` of object `i`, is not the expected content.
    fn data_mismatch(i: u64, off: u64, chunk: &[u8], b: &Blocks) -> Option<u64> {
        let p = Self::data_prefix(i);
        let (mut pos, mut k) = (off, 0usize);
        while k < chunk.len() {
            if pos < 6 { if chunk[k] != p[pos as usize] { return Some(pos) } pos += 1; k += 1; continue }
            let bo = ((pos - 6) % DATA_PERIOD as u64) as usize;
            let seg = (DATA_PERIOD - bo).min(chunk.len() - k);
            if chunk[k..k + seg] != b.data[bo..bo + seg] {
                let d = (0..seg).find(|&d| chunk[k + d] != b.data[bo + d]).unwrap_or(0);
                return Some(pos + d as u64)
            }
            pos += seg as u64; k += seg;
        }
        None
    }
    fn root(&self) -> &'static str { self.kind.name() }
    fn header(&self) -> Vec<u8> {
        format!("<{} xmlns=\"http://www.ripe.net/rpki/rrdp\" version=\"1\" session_id=\"{}\" serial=\"{LONG_SERIAL}\">", self.root(), sessions()[2]).into_bytes()
    }
    fn trailer(&self) -> Vec<u8> { format!("\n</{}>", self.root()).into_bytes() }
    /// Element `i` with what precedes it, as literal and repeated parts.
    fn item<'a>(&self, i: u64, b: &'a Blocks, out: &mut Vec<Part<'a>>) {
        use base64::Engine as _;
        use std::io::Write as _;
        let enc = &base64::engine::general_purpose::STANDARD;
        let k = self.kind_of(i);
        let bulk = self.bulk_of(i);
        let mut lit: Vec<u8> = Vec::with_capacity(256);
        macro_rules! rep { ($block:expr, $len:expr) => {{
            let len: u64 = $len;
            if len > 0 {
                if !lit.is_empty() { out.push(Part::Lit(std::mem::take(&mut lit))) }
                out.push(Part::Rep($block, len))
            }
        }} }
        match self.carrier {
            Carrier::GapSpace => rep!(&b.space, bulk),
            Carrier::GapComment => { lit.extend_from_slice(b"\n  <!--"); rep!(&b.c, bulk); lit.extend_from_slice(b"-->") }
            _ => {}
        }
        let pad = self.pad_len(i);
        let hash = self.hash(i);
        match k {
            LK::Publish | LK::Update => {
                lit.extend_from_slice(b"\n  <publish uri=\"rsync://h.example/m/");
                rep!(&b.p, pad);
                let _ = write!(lit, "{i:08}.roa\"");
                if k == LK::Update { lit.extend_from_slice(b" hash=\""); hex_into(&mut lit, &hash); lit.push(b'"') }
                if self.form == Form::Alt { lit.extend_from_slice(b"/>"); out.push(Part::Lit(lit)); return }
                lit.extend_from_slice(b">\n    ");
                if self.carrier == Carrier::InnerSpace { rep!(&b.space, bulk) }
                let len = self.data_len(i);
                let p = Self::data_prefix(i);
                if len <= 6 {
                    lit.extend_from_slice(enc.encode(&p[..len as usize]).as_bytes())
                } else {
                    lit.extend_from_slice(enc.encode(p).as_bytes());
                    let groups = (len - 6) / 3;
                    rep!(&b.b64, groups * 4);
                    let r = ((len - 6) % 3) as usize;
                    if r > 0 { let at = ((groups * 3) % DATA_PERIOD as u64) as usize; lit.extend_from_slice(enc.encode(&b.data[at..at + r]).as_bytes()) }
                }
                lit.extend_from_slice(b"\n  </publish>");
            }
            LK::Withdraw => {
                lit.extend_from_slice(b"\n  <withdraw uri=\"rsync://h.example/m/");
                rep!(&b.p, pad);
                let _ = write!(lit, "{i:08}.roa\" hash=\"");
                hex_into(&mut lit, &hash);
                lit.extend_from_slice(if self.form == Form::Alt { b"\"></withdraw>" } else { b"\"/>" });
            }
            LK::NSnapshot | LK::NDelta => {
                if k == LK::NSnapshot { lit.extend_from_slice(b"\n  <snapshot uri=\"https://h.example/") }
                else { let _ = write!(lit, "\n  <delta serial=\"{}\" uri=\"https://h.example/", self.delta_serial(i)); }
                rep!(&b.p, pad);
                let _ = write!(lit, "{i:08}/{}.xml\" hash=\"", if k == LK::NSnapshot { "snapshot" } else { "delta" });
                hex_into(&mut lit, &hash);
                lit.extend_from_slice(if self.form != Form::Alt { b"\"/>" } else if k == LK::NSnapshot { b"\"></snapshot>" } else { b"\"></delta>" });
            }
        }
        out.push(Part::Lit(lit));
    }
    fn item_len(&self, i: u64, b: &Blocks) -> u64 {
        let mut parts = Vec::new();
        self.item(i, b, &mut parts);
        parts.iter().map(|p| p.len()).sum()
    }
    /// A document of this shape whose elements add up to at least `target` octets.
    fn sized(kind: Kind, pat: RunPat, carrier: Carrier, form: Form, bulk: u64, target: u64, b: &Blocks) -> LongDoc {
        let mut d = LongDoc { kind, pat, carrier, form, bulk, n: 30, over: None };
        let probe = LongDoc { pat: match pat { RunPat::Amid { run, .. } => RunPat::Only(run), RunPat::SnapAt(_) => RunPat::Only(LK::NDelta), p => p }, ..d.clone() };
        let sum: u64 = (0..30).map(|i| probe.item_len(i, b)).sum();
        d.n = (target * 30).div_ceil(sum) + matches!(pat, RunPat::Amid { .. } | RunPat::SnapAt(_)) as u64;
        d
    }
    /// The value the document stands for, written by the library (small documents only).
    fn written_by_library(&self, b: &Blocks) -> Result<Vec<u8>, String> {
        let mut xml = Vec::new();
        let h = |i: u64| Hash::from(self.hash(i));
        match self.kind {
            Kind::Snapshot => Snapshot::new(sessions()[2], LONG_SERIAL, (0..self.n).map(|i| PublishElement::new(rsync(&self.uri(i)), Bytes::from(self.data(i, b)))).collect()).write_xml(&mut xml),
            Kind::Delta => Delta::new(sessions()[2], LONG_SERIAL, (0..self.n).map(|i| match self.kind_of(i) {
                LK::Publish => PublishElement::new(rsync(&self.uri(i)), Bytes::from(self.data(i, b))).into(),
                LK::Update => UpdateElement::new(rsync(&self.uri(i)), h(i), Bytes::from(self.data(i, b))).into(),
                _ => WithdrawElement::new(rsync(&self.uri(i)), h(i)).into(),
            }).collect()).write_xml(&mut xml),
            Kind::Notification => {
                let at = (0..self.n).find(|&i| self.kind_of(i) == LK::NSnapshot).ok_or("no snapshot element")?;
                NotificationFile::new(sessions()[2], LONG_SERIAL, UriAndHash::new(https(&self.uri(at)), h(at)),
                    (0..self.n).filter(|&i| i != at).map(|i| DeltaInfo::new(self.delta_serial(i), https(&self.uri(i)), h(i))).collect()).write_xml(&mut xml)
            }
        }.map_err(|e| e.to_string())?;
        Ok(xml)
    }
}

/// The document as a stream; nothing but the element being read exists at any time.
struct LongGen<'a> { doc: &'a LongDoc, b: &'a Blocks, next: u64, parts: Vec<Part<'a>>, pi: usize, off: u64, pos: u64, max_item: u64, over_start: Option<u64> }

impl<'a> LongGen<'a> {
    fn new(doc: &'a LongDoc, b: &'a Blocks) -> Self { LongGen { doc, b, next: 0, parts: Vec::new(), pi: 0, off: 0, pos: 0, max_item: 0, over_start: None } }
    fn load(&mut self) -> bool {
        self.parts.clear(); self.pi = 0; self.off = 0;
        let n = self.doc.n;
        if self.next == 0 { self.parts.push(Part::Lit(self.doc.header())) }
        else if self.next <= n {
            let i = self.next - 1;
            self.doc.item(i, self.b, &mut self.parts);
            let len: u64 = self.parts.iter().map(|p| p.len()).sum();
            if matches!(self.doc.over, Some((j, _)) if j == i) { self.over_start = Some(self.pos) } else { self.max_item = self.max_item.max(len) }
        }
        else if self.next == n + 1 { self.parts.push(Part::Lit(self.doc.trailer())) }
        else { return false }
        self.next += 1;
        true
    }
}

impl Read for LongGen<'_> {
    fn read(&mut self, buf: &mut [u8]) -> io::Result<usize> {
        let mut n = 0usize;
        while n < buf.len() {
            if self.pi >= self.parts.len() { if !self.load() { break } continue }
            let room = buf.len() - n;
            let (k, done) = match &self.parts[self.pi] {
                Part::Lit(v) => {
                    let src = &v[self.off as usize..];
                    let k = src.len().min(room);
                    buf[n..n + k].copy_from_slice(&src[..k]);
                    (k, self.off as usize + k == v.len())
                }
                Part::Rep(block, len) => {
                    let bo = (self.off % block.len() as u64) as usize;
                    let k = ((block.len() - bo) as u64).min(len - self.off).min(room as u64) as usize;
                    buf[n..n + k].copy_from_slice(&block[bo..bo + k]);
                    (k, self.off + k as u64 == *len)
                }
            };
            n += k; self.off += k as u64; self.pos += k as u64;
            if done { self.pi += 1; self.off = 0 }
        }
        Ok(n)
    }
}

/// Checks every callback against the document's formulas as it arrives.
struct LongCheck<'a> { doc: &'a LongDoc, b: &'a Blocks, idx: u64, counts: [u64; 3], meta: Vec<(Uuid, u64)>, wrong: Option<String>, buf: Vec<u8> }

impl<'a> LongCheck<'a> {
    fn new(doc: &'a LongDoc, b: &'a Blocks) -> Self { LongCheck { doc, b, idx: 0, counts: [0; 3], meta: Vec::new(), wrong: None, buf: vec![0u8; 65536] } }
    fn note(&mut self, f: impl FnOnce() -> String) { if self.wrong.is_none() { self.wrong = Some(f()) } }
    fn element(&mut self, got: LK, uri: &str, hash: Option<&[u8]>) {
        let i = self.idx;
        self.counts[match got { LK::Publish => 0, LK::Update => 1, _ => 2 }] += 1;
        if i >= self.doc.n { return self.note(|| format!("element #{i} reported, the document has {i} elements")) }
        let want = self.doc.kind_of(i);
        if want != got { return self.note(|| format!("element #{i} is {want:?}, reported as {got:?}")) }
        let want_uri = self.doc.uri(i);
        if uri != want_uri { return self.note(|| format!("element #{i}: uri {} reported as {}", trunc(&want_uri, 80), trunc(uri, 80))) }
        if let Some(h) = hash { if h != self.doc.hash(i) { let w = hex(&self.doc.hash(i)); self.note(|| format!("element #{i}: hash {w} reported as {}", hex(h))) } }
    }
    fn content(&mut self, rd: &mut ObjectReader) -> Result<(), ProcessError> {
        let i = self.idx;
        let want = self.doc.data_len(i);
        let mut off = 0u64;
        let mut buf = std::mem::take(&mut self.buf);
        loop {
            let n = match rd.read(&mut buf) { Ok(n) => n, Err(e) => { self.buf = buf; return Err(e.into()) } };
            if n == 0 { break }
            if i < self.doc.n { if let Some(at) = LongDoc::data_mismatch(i, off, &buf[..n], self.b) { self.note(|| format!("element #{i}: content differs at octet {at} of {want}")) } }
            off += n as u64;
        }
        self.buf = buf;
        if i < self.doc.n && off != want { self.note(|| format!("element #{i}: content of {want} octets reported with {off} octets")) }
        Ok(())
    }
}

impl ProcessSnapshot for LongCheck<'_> {
    type Err = ProcessError;
    fn meta(&mut self, s: Uuid, n: u64) -> Result<(), ProcessError> { self.meta.push((s, n)); Ok(()) }
    fn publish(&mut self, uri: uri::Rsync, data: &mut ObjectReader) -> Result<(), ProcessError> {
        self.element(LK::Publish, uri.as_str(), None);
        let r = self.content(data);
        self.idx += 1;
        r
    }
}

impl ProcessDelta for LongCheck<'_> {
    type Err = ProcessError;
    fn meta(&mut self, s: Uuid, n: u64) -> Result<(), ProcessError> { self.meta.push((s, n)); Ok(()) }
    fn publish(&mut self, uri: uri::Rsync, hash: Option<Hash>, data: &mut ObjectReader) -> Result<(), ProcessError> {
        self.element(if hash.is_some() { LK::Update } else { LK::Publish }, uri.as_str(), hash.as_ref().map(|h| h.as_slice()));
        let r = self.content(data);
        self.idx += 1;
        r
    }
    fn withdraw(&mut self, uri: uri::Rsync, hash: Hash) -> Result<(), ProcessError> {
        self.element(LK::Withdraw, uri.as_str(), Some(hash.as_slice()));
        self.idx += 1;
        Ok(())
    }
}

#[derive(Clone, Copy, Debug, PartialEq, Eq)]
enum LRoute { Process, Parse, LimitedAll, LimitedZero }

impl LRoute {
    fn name(self, kind: Kind) -> &'static str {
        match (self, kind) {
            (LRoute::Process, Kind::Snapshot) => "ProcessSnapshot::process", (LRoute::Process, Kind::Delta) => "ProcessDelta::process",
            (LRoute::Parse, Kind::Snapshot) => "Snapshot::parse", (LRoute::Parse, Kind::Delta) => "Delta::parse",
            (LRoute::LimitedAll, _) => "NotificationFile::parse_limited(number of deltas)", (LRoute::LimitedZero, _) => "NotificationFile::parse_limited(0)",
            (_, Kind::Notification) => "NotificationFile::parse",
        }
    }
}

struct LongOut {
    pulled: u64, max_item: u64, over_start: Option<u64>,
    /// outer Err: panic; inner Err: the parser's error
    result: Result<Result<(), String>, String>,
    wrong: Option<String>, seen: u64, counts: [u64; 3],
}

fn run_long(doc: &LongDoc, b: &Blocks, route: LRoute, bufcap: usize) -> LongOut {
    let mut src = LongGen::new(doc, b);
    let mut chk = LongCheck::new(doc, b);
    let sess = sessions()[2];
    let result = guard(|| -> Result<(), String> {
        let rd = BufReader::with_capacity(bufcap, &mut src);
        let chk = &mut chk;
        match (doc.kind, route) {
            (Kind::Snapshot, LRoute::Process) => {
                <LongCheck as ProcessSnapshot>::process(chk, rd).map_err(|e| show_err(&e))?;
                if chk.meta != [(sess, LONG_SERIAL)] { let m = format!("{:?}", chk.meta); chk.note(|| format!("meta reported {m}")) }
            }
            (Kind::Delta, LRoute::Process) => {
                <LongCheck as ProcessDelta>::process(chk, rd).map_err(|e| show_err(&e))?;
                if chk.meta != [(sess, LONG_SERIAL)] { let m = format!("{:?}", chk.meta); chk.note(|| format!("meta reported {m}")) }
            }
            (Kind::Snapshot, _) => {
                let v = Snapshot::parse(rd).map_err(|e| show_err(&e))?;
                if v.session_id() != sess || v.serial() != LONG_SERIAL { chk.note(|| format!("session {} serial {}", v.session_id(), v.serial())) }
                for e in v.elements() {
                    chk.element(LK::Publish, e.uri().as_str(), None);
                    let (i, want) = (chk.idx, doc.data_len(chk.idx));
                    if i < doc.n && (e.data().len() as u64 != want || LongDoc::data_mismatch(i, 0, e.data(), b).is_some()) { chk.note(|| format!("element #{i}: content of {want} octets differs ({} octets)", e.data().len())) }
                    chk.idx += 1;
                }
            }
            (Kind::Delta, _) => {
                let v = Delta::parse(rd).map_err(|e| show_err(&e))?;
                if v.session_id() != sess || v.serial() != LONG_SERIAL { chk.note(|| format!("session {} serial {}", v.session_id(), v.serial())) }
                for e in v.elements() {
                    let data = match e {
                        DeltaElement::Publish(p) => { chk.element(LK::Publish, p.uri().as_str(), None); Some(p.data()) }
                        DeltaElement::Update(u) => { chk.element(LK::Update, u.uri().as_str(), Some(u.hash().as_slice())); Some(u.data()) }
                        DeltaElement::Withdraw(w) => { chk.element(LK::Withdraw, w.uri().as_str(), Some(w.hash().as_slice())); None }
                    };
                    let (i, want) = (chk.idx, doc.data_len(chk.idx));
                    if let Some(d) = data { if i < doc.n && (d.len() as u64 != want || LongDoc::data_mismatch(i, 0, d, b).is_some()) { chk.note(|| format!("element #{i}: content of {want} octets differs ({} octets)", d.len())) } }
                    chk.idx += 1;
                }
            }
            (Kind::Notification, _) => {
                let n_deltas = doc.n as usize - 1;
                let v = match route {
                    LRoute::LimitedAll => NotificationFile::parse_limited(rd, n_deltas),
                    LRoute::LimitedZero => NotificationFile::parse_limited(rd, 0),
                    _ => NotificationFile::parse(rd),
                }.map_err(|e| show_err(&e))?;
                if v.session_id() != sess || v.serial() != LONG_SERIAL { chk.note(|| format!("session {} serial {}", v.session_id(), v.serial())) }
                let at = (0..doc.n).find(|&i| doc.kind_of(i) == LK::NSnapshot).unwrap_or(0);
                if v.snapshot().uri().as_str() != doc.uri(at) || v.snapshot().hash().as_slice() != doc.hash(at) { chk.note(|| format!("snapshot entry (element #{at}) reported as ({}, {})", trunc(v.snapshot().uri().as_str(), 80), v.snapshot().hash())) }
                chk.idx = 1;
                if route == LRoute::LimitedZero && n_deltas > 0 {
                    if v.delta_status().is_ok() || !v.deltas().is_empty() { chk.note(|| format!("parse_limited(0) of {n_deltas} deltas does not report an oversized list")) }
                    chk.idx = doc.n;
                } else {
                    if v.delta_status().is_err() { chk.note(|| "delta list reported oversized".to_string()) }
                    let want: Vec<u64> = (0..doc.n).filter(|&i| i != at).collect();
                    if v.deltas().len() != want.len() { chk.note(|| format!("{} delta entries reported, the document has {}", v.deltas().len(), want.len())) }
                    for (d, &i) in v.deltas().iter().zip(&want) {
                        if d.serial() != doc.delta_serial(i) || d.uri().as_str() != doc.uri(i) || d.hash().as_slice() != doc.hash(i) {
                            chk.note(|| format!("element #{i}: delta entry reported as ({}, {}, {})", d.serial(), trunc(d.uri().as_str(), 80), d.hash()))
                        }
                    }
                    chk.idx = 1 + v.deltas().len() as u64;
                }
            }
        }
        Ok(())
    });
    LongOut { pulled: src.pos, max_item: src.max_item, over_start: src.over_start, result, wrong: chk.wrong, seen: chk.idx, counts: chk.counts }
}

#[derive(Clone, Copy, Debug, PartialEq, Eq)]
enum LRole { Twin, Long(u64), Control }

struct LCase { shape: usize, doc: LongDoc, route: LRoute, bufcap: usize, role: LRole }

fn space_limits(ctx: &Ctx) {
    let thorough = ctx.tier.is_thorough();
    let sp = ctx.space("limits.long_valid_documents",
        "the limits are per element: VALID documents from a generator (never materialised) in which no element, counted with the white space / comment before it, comes near its limit (100,000,000 octets for publish / withdraw elements, 1,000,000 for the entries of a notification) while the elements together exceed 1.2 x and 2.5 x that limit. file type x run of element kinds (one kind only: publish, update, withdraw; the three cycling; a run of one kind with a single element of another kind in the middle; notification: delta entries with the snapshot entry first / in the middle / last) x where the octets are (object content, URI attribute, white space before each element, a comment before each element, white space inside each element) x spelling (as write_xml spells the elements, with objects of 0..4 octets cycling; the same with every object empty; publish elements self-closing and withdraw elements / notification entries as start-tag end-tag pairs) x element size (1 kB, 1 MB, 40 MB under the 100 MB limit; ~150 octets, 10 kB, 400 kB under the 1 MB limit) x total (1.2 x, 2.5 x limit) x route (process with a checking processor; Snapshot::parse / Delta::parse for the 1 MB x 1.2 documents in thorough; parse, parse_limited(all), parse_limited(0)) x BufReader capacity. Element i has URI <dir>/<pad><i, 8 digits>, hash and content (6 octets of i, then a fixed 3072-octet block repeated) computed from i; with content / URI as the carrier the stream is octet for octet what write_xml gives for the value (compared on small instances, recorded). Oracles: the document is accepted whenever the same document with 2-3 elements is; every element is reported once, in order, with its URI, hash and every content octet. Controls: the same runs with ONE element of 1.2 x the limit at the start / middle / end must be given up within start of that element + limit + one buffer. quick: 12 documents under the 100 MB limit (+ 1 control), everything under the 1 MB limit; thorough: the full product (the other spellings not at 40 MB and not around a single odd element). non-trivial = documents longer than the limit whose longest element is shorter than the limit (measured by the generator)");
    let b = Blocks::new();
    let quick_heavy: [(Kind, RunPat, Carrier, Form, u64, u64); 12] = [
        (Kind::Snapshot, RunPat::Only(LK::Publish), Carrier::Content, Form::Written, 1_000_000, 12),
        (Kind::Snapshot, RunPat::Only(LK::Publish), Carrier::Uri, Form::Written, 1_000, 12),
        (Kind::Snapshot, RunPat::Only(LK::Publish), Carrier::Uri, Form::Empty, 1_000, 12),
        (Kind::Snapshot, RunPat::Only(LK::Publish), Carrier::GapComment, Form::Alt, 1_000_000, 12),
        (Kind::Delta, RunPat::Only(LK::Publish), Carrier::Content, Form::Written, 1_000, 12),
        (Kind::Delta, RunPat::Only(LK::Update), Carrier::Content, Form::Written, 1_000_000, 12),
        (Kind::Delta, RunPat::Only(LK::Update), Carrier::Uri, Form::Alt, 1_000, 12),
        (Kind::Delta, RunPat::Only(LK::Withdraw), Carrier::Uri, Form::Written, 1_000, 12),
        (Kind::Delta, RunPat::Only(LK::Withdraw), Carrier::GapSpace, Form::Alt, 1_000_000, 12),
        (Kind::Delta, RunPat::Robin, Carrier::Content, Form::Written, 1_000_000, 12),
        (Kind::Delta, RunPat::Robin, Carrier::GapComment, Form::Empty, 1_000_000, 12),
        (Kind::Delta, RunPat::Amid { run: LK::Withdraw, other: LK::Publish }, Carrier::Uri, Form::Written, 1_000, 25),
    ];
    let quick_control = (Kind::Delta, RunPat::Only(LK::Withdraw), Carrier::Uri, Form::Written, 1_000u64);
    let all_carriers = [Carrier::Content, Carrier::Uri, Carrier::GapSpace, Carrier::GapComment, Carrier::InnerSpace];
    let mut cases: Vec<LCase> = Vec::new();
    let mut shape_names: Vec<String> = Vec::new();
    let mut written_form: Vec<(usize, LongDoc)> = Vec::new();
    for kind in [Kind::Snapshot, Kind::Delta, Kind::Notification] {
        let limit = if kind == Kind::Notification { HEADER_LIMIT } else { FILE_LIMIT };
        let pats: Vec<RunPat> = match kind {
            Kind::Snapshot => vec![RunPat::Only(LK::Publish)],
            Kind::Delta => vec![RunPat::Only(LK::Publish), RunPat::Only(LK::Update), RunPat::Only(LK::Withdraw), RunPat::Robin,
                RunPat::Amid { run: LK::Withdraw, other: LK::Publish }, RunPat::Amid { run: LK::Publish, other: LK::Withdraw }],
            Kind::Notification => vec![RunPat::SnapAt(0), RunPat::SnapAt(1), RunPat::SnapAt(2)],
        };
        let sizes: [u64; 3] = if kind == Kind::Notification { [0, 10_000, 400_000] } else { [1_000, 1_000_000, 40_000_000] };
        for pat in pats {
            let main = match pat { RunPat::Only(k) => k, RunPat::Amid { run, .. } => run, RunPat::Robin => LK::Publish, RunPat::SnapAt(_) => LK::NDelta };
            for carrier in all_carriers {
                if matches!(carrier, Carrier::Content | Carrier::InnerSpace) && !matches!(main, LK::Publish | LK::Update) { continue }
                for (si, &size) in sizes.iter().enumerate() { for form in [Form::Written, Form::Empty, Form::Alt] {
                    if size == 0 && carrier != Carrier::Uri { continue }           // nothing added: one shape
                    if carrier == Carrier::Uri && si == 2 && kind != Kind::Notification { continue } // no 40 MB URIs
                    // the other forms: where the content is not the carrier; Empty only where there are objects; not at 40 MB, not around a single odd element
                    if form != Form::Written && (matches!(carrier, Carrier::Content | Carrier::InnerSpace) || matches!(pat, RunPat::Amid { .. }) || (si == 2 && kind != Kind::Notification)) { continue }
                    if form == Form::Empty && !matches!(main, LK::Publish | LK::Update) { continue }
                    let bulk = if carrier == Carrier::Content { size * 3 / 4 } else { size };
                    let light = kind == Kind::Notification;
                    let wanted = |f: u64| thorough || light || quick_heavy.contains(&(kind, pat, carrier, form, size, f));
                    if !wanted(12) && !wanted(25) { continue }
                    let shape = shape_names.len();
                    shape_names.push(format!("{} elements={} spelled={} octets-in={} ~{} per element", kind.name(), pat.show(), form.name(), carrier.name(), size.max(150)));
                    // the small twin: 3 elements (2 if 3 would come near the limit)
                    let mut twin = LongDoc { kind, pat, carrier, form, bulk, n: 3, over: None };
                    if 3 * size > limit * 9 / 10 { twin.n = 2 }
                    if form != Form::Alt && matches!(carrier, Carrier::Content | Carrier::Uri) && !matches!(pat, RunPat::SnapAt(1 | 2)) {
                        written_form.push((shape, LongDoc { bulk: bulk.min(5000), n: 7, ..twin.clone() }));
                    }
                    cases.push(LCase { shape, doc: twin, route: LRoute::Process, bufcap: 8192, role: LRole::Twin });
                    for f in [12u64, 25] {
                        if !wanted(f) { continue }
                        let doc = LongDoc::sized(kind, pat, carrier, form, bulk, limit / 10 * f, &b);
                        if light {
                            for route in [LRoute::Process, LRoute::LimitedAll, LRoute::LimitedZero] {
                                for bufcap in [64usize, 8192, 65536] {
                                    if bufcap != 8192 && (route != LRoute::Process || !(thorough || f == 12)) { continue }
                                    cases.push(LCase { shape, doc: doc.clone(), route, bufcap, role: LRole::Long(f) });
                                }
                            }
                        } else {
                            cases.push(LCase { shape, doc: doc.clone(), route: LRoute::Process, bufcap: 65536, role: LRole::Long(f) });
                            if thorough && f == 12 && size == 1_000_000 && matches!(carrier, Carrier::Content | Carrier::GapComment) {
                                cases.push(LCase { shape, doc: doc.clone(), route: LRoute::Parse, bufcap: 8192, role: LRole::Long(f) });
                            }
                        }
                    }
                    // controls: one oversized element in the 1.2 x run
                    let positions: &[u8] = if light { &[0, 1, 2] }
                        else if thorough && size == 1_000_000 { if matches!(pat, RunPat::Only(_)) { &[1, 2] } else { &[1] } }
                        else if !thorough && quick_control == (kind, pat, carrier, form, size) { &[1] }
                        else { &[] };
                    for &w in positions {
                        let mut doc = LongDoc::sized(kind, pat, carrier, form, bulk, limit / 10 * 12, &b);
                        let j = match w { 0 => 0, 1 => doc.n / 2, _ => doc.n - 1 };
                        if doc.kind_of(j) == LK::Withdraw && matches!(carrier, Carrier::Content | Carrier::InnerSpace) { continue } // nothing to enlarge there
                        doc.over = Some((j, if carrier == Carrier::Content { limit / 10 * 9 } else { limit / 10 * 12 }));
                        cases.push(LCase { shape, doc, route: LRoute::Process, bufcap: if light { 8192 } else { 65536 }, role: LRole::Control });
                    }
                }}
            }
        }
    }
    // the no-gap forms are what the library writes: compared on small instances (a fact, not an oracle)
    let mut identical = 0u64;
    let mut differing: Vec<String> = Vec::new();
    for (shape, doc) in &written_form {
        let mut mine = Vec::new();
        let _ = LongGen::new(doc, &b).read_to_end(&mut mine);
        match guard(|| doc.written_by_library(&b)) {
            Ok(Ok(theirs)) if theirs == mine => identical += 1,
            _ => differing.push(shape_names[*shape].clone()),
        }
    }
    // heaviest first, all in one parallel sweep; judged afterwards in enumeration order
    let weight = |c: &LCase| -> u64 {
        let per = c.doc.bulk.max(150) * if c.doc.carrier == Carrier::Content { 4 } else { 3 } / 3;
        c.doc.n.saturating_mul(per) + c.doc.over.map_or(0, |_| c.doc.limit())
    };
    let mut order: Vec<usize> = (0..cases.len()).collect();
    order.sort_by_key(|&i| (std::cmp::Reverse(weight(&cases[i])), i));
    let timing = std::env::var("C09_TIMING").is_ok();
    let ran: Vec<(usize, LongOut)> = order.par_iter().with_max_len(1).map(|&i| {
        let c = &cases[i];
        let t = std::time::Instant::now();
        let out = run_long(&c.doc, &b, c.route, c.bufcap);
        if timing && t.elapsed().as_millis() > 300 { eprintln!("[limits] {:.2}s {} n={} {:?} pulled={}", t.elapsed().as_secs_f64(), shape_names[c.shape], c.doc.n, c.role, out.pulled) }
        (i, out)
    }).collect();
    let mut results: Vec<Option<LongOut>> = (0..cases.len()).map(|_| None).collect();
    for (i, o) in ran { results[i] = Some(o) }
    let mut twin_ok: Vec<Option<(u64, Result<(), String>)>> = shape_names.iter().map(|_| None).collect();
    let mut oc: BTreeMap<&'static str, u64> = BTreeMap::new();
    let (mut nt, mut violated, mut octets, mut elements) = (0u64, 0u64, 0u64, 0u64);
    let mut longest: (u64, String) = (0, String::new());
    for (c, o) in cases.iter().zip(&results) {
        let o = o.as_ref().expect("every document was run");
        let (doc, limit) = (&c.doc, c.doc.limit());
        octets += o.pulled; elements += o.seen;
        let wit = || format!("{}{} x {} elements route={} bufcap={}", shape_names[c.shape],
            doc.over.map_or(String::new(), |(j, bulk)| format!(" but element #{j} with {bulk} octets there")), doc.n, c.route.name(doc.kind), c.bufcap);
        let progress = || format!("{} elements had been reported ({} publish, {} update, {} withdraw) and {} octets read", o.seen, o.counts[0], o.counts[1], o.counts[2], o.pulled);
        let accepted = match &o.result {
            Err(panic) => { violated += 1; ctx.fail("C09.limits.nopanic", wit(), format!("{panic}; {}", progress())); *oc.entry("panic").or_insert(0) += 1; continue }
            Ok(r) => r,
        };
        let content = |violated: &mut u64| {
            let missing = if o.seen != doc.n { Some(format!("{} of {} elements reported", o.seen, doc.n)) } else { None };
            if let Some(d) = o.wrong.clone().or(missing) { *violated += 1; ctx.fail("C09.limits.content", wit(), format!("accepted, but {d}")) }
        };
        let class = match c.role {
            LRole::Twin => {
                twin_ok[c.shape] = Some((doc.n, accepted.clone()));
                if accepted.is_ok() { content(&mut violated); "small-twin-accepted" } else { "small-twin-refused" }
            }
            LRole::Long(f) => {
                let twin = twin_ok[c.shape].as_ref().expect("the twin precedes its long documents");
                if o.pulled > limit && o.max_item < limit { nt += 1 }
                if o.pulled > longest.0 { longest = (o.pulled, wit()) }
                match (accepted, &twin.1) {
                    (Ok(()), _) => { content(&mut violated); if f == 12 { "accepted-at-1.2x-limit" } else { "accepted-at-2.5x-limit" } }
                    (Err(e), Ok(())) => {
                        violated += 1;
                        ctx.fail("C09.limits.per_element", wit(), format!("refused when {}: {}; the longest element so far (with what precedes it) had {} octets, the limit for one element is {limit}; the same document with {} elements is accepted", progress(), trunc(e, 120), o.max_item, twin.0));
                        "refused-although-every-element-is-below-the-limit"
                    }
                    (Err(_), Err(_)) => "refused-like-its-small-twin",
                }
            }
            LRole::Control => {
                let twin_accepted = twin_ok[c.shape].as_ref().is_some_and(|t| t.1.is_ok());
                match o.over_start {
                    None => {
                        if twin_accepted {
                            violated += 1;
                            ctx.fail("C09.limits.per_element", wit(), format!("refused before the oversized element was reached, when {}: {}", progress(), accepted.as_ref().err().map_or("(accepted)".into(), |e| trunc(e, 120))));
                        }
                        "refused-before-the-oversized-element"
                    }
                    Some(start) => {
                        let bound = start + limit + c.bufcap as u64;
                        if o.pulled > bound {
                            violated += 1;
                            ctx.fail("C09.limits.bound", wit(), format!("pulled {} octets; allowed: start of the oversized element {start} + limit {limit} + one buffer {} = {bound}; result {:?}", o.pulled, c.bufcap, accepted.as_ref().map_err(|e| trunc(e, 80))));
                        }
                        if accepted.is_ok() { "oversized-element-accepted" } else if start > limit { "oversized-element-refused-after-more-than-the-limit-of-valid-elements" } else { "oversized-element-refused" }
                    }
                }
            }
        };
        *oc.entry(class).or_insert(0) += 1;
    }
    sp.evals(cases.len() as u64);
    sp.nontrivial(nt);
    sp.merge_outcomes(&oc);
    sp.outcomes_n("oracle-violated", violated);
    sp.set("shapes", json!(shape_names.len()));
    sp.set("octets_generated", json!(octets));
    sp.set("elements_reported", json!(elements));
    sp.set("longest_document", json!({"octets": longest.0, "case": longest.1}));
    sp.set("written_form_shapes_octet_identical_to_write_xml", json!({"identical": identical, "of": written_form.len(), "differing": differing}));
    sp.sample_str(|| { let d = LongDoc { kind: Kind::Delta, pat: RunPat::Robin, carrier: Carrier::Content, form: Form::Written, bulk: 8, n: 3, over: None }; let mut v = Vec::new(); let _ = LongGen::new(&d, &b).read_to_end(&mut v); text(&v) });
    sp.sample_str(|| { let d = LongDoc { kind: Kind::Notification, pat: RunPat::SnapAt(1), carrier: Carrier::GapComment, form: Form::Alt, bulk: 5, n: 3, over: None }; let mut v = Vec::new(); let _ = LongGen::new(&d, &b).read_to_end(&mut v); text(&v) });
    let count = |r: fn(&LRole) -> bool| cases.iter().filter(|c| r(&c.role)).count();
    sp.done(true, &format!("{} shapes: {} long documents, {} small twins, {} controls with one oversized element", shape_names.len(),
        count(|r| matches!(r, LRole::Long(_))), count(|r| matches!(r, LRole::Twin)), count(|r| matches!(r, LRole::Control))));
}

fn main() {
    // before anything is parsed: every log record the library emits is formatted from now on
    let logger_ok = log::set_logger(&LOGGER).is_ok();
    log::set_max_level(log::LevelFilter::Trace);
    // child-process mode of environment.timezone: print the subject observations and leave
    if std::env::args().any(|a| a == "--c09-subject-dump") {
        rpki_verif::engine::report::install_quiet_panic_hook();
        print!("{}", subject_dump());
        return;
    }
    let ctx = Ctx::new("C09", "fault_enumeration");
    if !logger_ok { ctx.machinery_error("could not install the formatting logger") }
    ctx.assume("a process-wide logger at level Trace that formats every record is installed for the whole run, so the library's log statements are executed as they would be in an application that logs");
    ctx.assume("quick-xml, base64 and uuid are trusted to implement XML tokenising, base64 and UUID text; the check observes the library's use of them");
    ctx.assume("the per-element limits are the constants in rrdp.rs: 1_000_000 octets for the root element, 100_000_000 for publish/withdraw elements (and everything in a notification is under the 1_000_000 limit)");
    ctx.assume("`start of the offending element` is taken as the '<' of the markup containing the first hostile octet, or the first hostile octet itself outside markup (the most lenient reading)");
    ctx.assume("peak heap per hostile case is measured and recorded but not judged: the property text bounds octets read, not memory");

    // C09_ONLY=<comma list> is a development aid; a partial run is never a verdict.
    let only = std::env::var("C09_ONLY").ok();
    if only.is_some() { ctx.machinery_error("C09_ONLY is set: partial run") }
    let spaces: [(&str, fn(&Ctx)); 23] = [
        ("deltas", space_deltas), ("origins", space_origins),
        ("rt_notification", space_rt_notification), ("rt_snapshot", space_rt_snapshot), ("rt_delta", space_rt_delta),
        ("short", space_hostile_short), ("pairs", space_hostile_pairs), ("mutations", space_hostile_mutations),
        ("bombs", space_hostile_bombs), ("endless", space_hostile_endless),
        ("xml_variants", space_xml_variants), ("xml_writer", space_xml_writer), ("base64", space_base64),
        ("scale", space_scale), ("limits", space_limits), ("names", space_names),
        ("history", space_history), ("handed_out", space_handed_out), ("ownership", space_ownership),
        ("environment", space_environment), ("call_parameters", space_call_parameters),
        ("sinks", space_sinks), ("routes", space_routes),
    ];
    // The value spaces build their inputs from fixed URI alphabets. If the library under
    // test refuses one of these protocol-valid URIs, that is reported as a violation
    // of the round-trip clause (the value cannot even be constructed) and the value
    // spaces are skipped, instead of letting the explorer itself panic.
    let mut alphabet_ok = true;
    for u in HTTPS_URIS { if let Err(e) = guard(|| uri::Https::from_str(u).map_err(|e| e.to_string())).and_then(|r| r) { alphabet_ok = false; ctx.fail("C09.roundtrip.alphabet", u.to_string(), format!("protocol-valid HTTPS URI refused by uri::Https::from_str: {e}")) } }
    for u in RSYNC_URIS { if let Err(e) = guard(|| uri::Rsync::from_str(u).map_err(|e| e.to_string())).and_then(|r| r) { alphabet_ok = false; ctx.fail("C09.roundtrip.alphabet", u.to_string(), format!("protocol-valid rsync URI refused by uri::Rsync::from_str: {e}")) } }
    for (name, f) in spaces {
        if let Some(o) = &only { if !o.split(',').any(|x| x == name) { continue } }
        if !alphabet_ok && ["deltas", "origins", "rt_notification", "rt_snapshot", "rt_delta", "scale", "limits", "history", "handed_out", "ownership", "environment", "call_parameters", "sinks", "routes"].contains(&name) { continue }
        let t = std::time::Instant::now();
        if let Err(p) = guard(|| f(&ctx)) { ctx.machinery_error(format!("explorer code for space group {name} panicked: {p}")) }
        if std::env::var("C09_TIMING").is_ok() { eprintln!("[{name}] {:.2}s", t.elapsed().as_secs_f64()) }
    }

    ctx.finish();
}
